#!/bin/bash
# usage: all_checks_on_patch.sh <patch.diff> [Cnn ...]  — applies the patch to a scratch copy of /repo (never to
# /repo itself), runs the named checks (default: all 20) on the copy in parallel and prints, per check that
# alarms, the first failing instances. Last line: "ALARMS: Cxx Cyy" (or "ALARMS: none"). Development aid.
p=$(realpath "$1"); shift
[ -x "${VERIF_DIR:-$(cd "$(dirname "$0")/.." && pwd)}/bin/gunyucheck" ] || { echo "build the checker first (./setup.sh)"; exit 2; }
props="$*"; [ -n "$props" ] || props=$(seq -f 'C%02g' 1 20)
V=${VERIF_DIR:-$(cd "$(dirname "$0")/.." && pwd)}
sc=$(mktemp -d /tmp/gunyu_all.XXXXXX); trap 'rm -rf "$sc"' EXIT
mkdir -p "$sc/repo" "$sc/verif"; rsync -a --exclude .git "${VERIF_REPO:-/repo}/" "$sc/repo/"; cp $V/known_findings.json "$sc/verif/"
(cd "$sc/repo" && git apply "$p") || { echo "patch does not apply"; exit 2; }
(cd "$sc/repo" && GOFLAGS=-mod=mod GOPROXY=off GOSUMDB=off GOTOOLCHAIN=local go build ./... ) || { echo "DOES NOT BUILD"; exit 2; }
for id in $props; do
  ( mkdir -p "$sc/v_$id"; cp $V/known_findings.json "$sc/v_$id/"
    $V/bin/gunyucheck -property $id -tier quick -verif "$sc/v_$id" -repo "$sc/repo" > "$sc/$id.out" 2>&1 ) &
  # at most 10 at a time
  while [ $(jobs -r | wc -l) -ge ${PAR:-10} ]; do sleep 0.2; done
done
wait
al=""
for id in $props; do
  if ! grep -q "^VIOLATION\|^property=$id tier=" "$sc/$id.out"; then
    al="$al $id(NO-VERDICT:killed?)"   # the check ended without a verdict line: not a silent result
  elif grep -q "^VIOLATION" "$sc/$id.out"; then
    al="$al $id"
    grep "^FAIL\|^UNRES\|^UNDEC\|panic" "$sc/$id.out" | sed "s#$sc/repo/##" | cut -c1-${W:-300} | head -${N:-4} | sed "s/^/   [$id] /"
  fi
done
echo "ALARMS:${al:- none}"
