#!/bin/sh
# ctl_worker.sh <property id> <scratch dir> <result file> <patch>... : for each patch, applies it to the
# worker's own scratch copy of the repository, runs the property's rules on the copy, records
# "<patch> alarm|silent|skip", and reverts. Used by check.sh (thorough tier) for the controls.
V=$(cd "$(dirname "$0")/.." && pwd)
id="$1"; sc="$2"; out="$3"; shift 3
for p in "$@"; do
  if ! (cd "$sc/repo" && git apply --check "$p") >/dev/null 2>&1; then
    echo "$p skip" >> "$out"; continue
  fi
  (cd "$sc/repo" && git apply "$p") >/dev/null 2>&1
  if "$V/bin/gunyucheck" -property "$id" -tier quick -verif "$sc/verif" -repo "$sc/repo" 2>/dev/null | grep -q "^VIOLATION property=$id"; then
    echo "$p alarm" >> "$out"
  else
    echo "$p silent" >> "$out"
  fi
  (cd "$sc/repo" && git apply -R "$p") >/dev/null 2>&1
done
