#!/bin/sh
# Replaces the generated appendices of DESIGN.md (between the BEGIN/END GENERATED markers) by the output of
# tools/gen_design_tables.py, i.e. by what the evidence files of the last run and seeded/*/meta.json say.
cd "$(dirname "$0")/.." || exit 2
python3 - <<'PY'
import subprocess, re
s = open('DESIGN.md').read()
gen = subprocess.run(['python3', 'tools/gen_design_tables.py'], capture_output=True, text=True, check=True).stdout
b = s.index('<!-- BEGIN GENERATED')
b = s.index('\n', b) + 1
e = s.index('<!-- END GENERATED')
open('DESIGN.md', 'w').write(s[:b] + gen + s[e:])
PY
