#!/bin/sh
# usage: try_mutant.sh <patch.diff> <property>...   — applies a patch to /repo, runs checks, reverts.
p=$(realpath "$1"); shift
cd /repo || exit 2
if ! git diff --quiet; then echo "repo dirty"; exit 2; fi
git apply "$p" || { echo "patch does not apply"; exit 2; }
( export GOFLAGS=-mod=mod GOPROXY=off GOSUMDB=off GOTOOLCHAIN=local; go build ./... ) || echo "MUTANT DOES NOT BUILD"
# evidence of a mutant run goes to a scratch directory, never to /verif/evidence
sv=$(mktemp -d /tmp/gunyu_mut.XXXXXX); cp /verif/known_findings.json "$sv/"
for id in "$@"; do
  /verif/bin/gunyucheck -property "$id" -tier quick -verif "$sv" -repo /repo | grep -v "^property=" | sed "s#$sv#/verif#" | cut -c1-400
  echo "== $id"
done
rm -rf "$sv"
git checkout -- . 
