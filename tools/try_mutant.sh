#!/bin/sh
# usage: try_mutant.sh <patch.diff> <property>...   — applies a patch to /repo, runs checks, reverts.
p=$(realpath "$1"); shift
cd /repo || exit 2
if ! git diff --quiet; then echo "repo dirty"; exit 2; fi
git apply "$p" || { echo "patch does not apply"; exit 2; }
( export GOFLAGS=-mod=mod GOPROXY=off GOSUMDB=off GOTOOLCHAIN=local; go build ./... ) || echo "MUTANT DOES NOT BUILD"
for id in "$@"; do
  /verif/check.sh "$id" quick | grep -v "^property=" | cut -c1-400
  echo "== $id exit=$?"
done
git checkout -- . 
