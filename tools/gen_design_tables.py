#!/usr/bin/env python3
"""Prints the rule catalogue (from the evidence files of the last run) and the seeds table as markdown."""
import json, glob, os
print("### A. Rule catalogue (generated from evidence of the last run)\n")
print("| property | rule | what is checked | instances | floor |")
print("|---|---|---|---|---|")
for f in sorted(glob.glob('/verif/evidence/C*.json')):
    e = json.load(open(f)); c = e['coverage']
    for ru in c['rules']:
        print("| %s | %s | %s | %d | %d |" % (e['property_id'], ru['id'], ru['template'].replace('|','/'), ru['instances'], ru['floor']))
print("\n### B. Independently written breaking changes (seeded/) and the checks that report them\n")
print("| seed | written for | reported by | what it changes / needs |")
print("|---|---|---|---|")
for d in sorted(glob.glob('/verif/seeded/*/')):
    m = json.load(open(d + 'meta.json'))
    det = ', '.join(m.get('detected_by', [])) or '— (%s)' % (m.get('status','')[:90] + '…' if m.get('status') else 'none')
    print("| %s | %s | %s | %s |" % (os.path.basename(d[:-1]), m['property'], det, (m.get('summary','') or '').replace('|','/')[:150]))
