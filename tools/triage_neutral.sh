#!/bin/bash
# usage: triage_neutral.sh <Cnn>... : runs all 20 checks on each independently written refactoring
# /tmp/neutral/<Cnn>/r<k>/patch.diff and files it under selftest/neutral (silent) or selftest/neutral_pending.
cd /verif
for id in "$@"; do
  lc=$(echo $id | tr A-Z a-z)
  for k in 1 2 3; do
    p=/tmp/neutral/$id/r$k/patch.diff
    [ -f $p ] || continue
    cd /repo; git diff --quiet || { echo "repo dirty"; exit 2; }
    git apply $p 2>/dev/null || git apply -3 $p 2>/dev/null || { echo "$id r$k: does not apply"; git checkout -- .; cd /verif; continue; }
    cd /verif
    sv=$(mktemp -d /tmp/gunyu_neu.XXXXXX); cp known_findings.json $sv/
    alarms=""
    for i in $(seq -w 1 20); do
      out=$(bin/gunyucheck -property C$i -tier quick -verif $sv -repo /repo 2>&1)
      if echo "$out" | grep -q "^VIOLATION"; then
        alarms="$alarms C$i"
        echo "$out" | grep "^FAIL\|^UNRES\|^UNDEC\|panic" | cut -c1-250 | head -3 | sed "s/^/   [C$i] /"
      fi
    done
    rm -rf $sv
    git -C /repo checkout -- . ; git -C /repo clean -fdq -- . 2>/dev/null
    dest=neutral; [ -n "$alarms" ] && dest=neutral_pending
    rm -f selftest/neutral/ind_${lc}_r$k.* selftest/neutral_pending/ind_${lc}_r$k.*
    cp $p selftest/$dest/ind_${lc}_r$k.diff; cp /tmp/neutral/$id/r$k/notes.md selftest/$dest/ind_${lc}_r$k.notes.md
    echo "$id r$k: alarms:${alarms:- none} -> $dest"
  done
done
