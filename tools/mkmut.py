#!/usr/bin/env python3
"""mkmut.py <out.diff> <file> <old> <new> [<file> <old> <new> ...] : builds a patch against /repo (no change left behind)."""
import subprocess, sys
out = sys.argv[1]
args = sys.argv[2:]
assert len(args) % 3 == 0
for i in range(0, len(args), 3):
    f, old, new = args[i:i+3]
    p = '/repo/' + f
    s = open(p).read()
    if s.count(old) != 1:
        print("pattern occurs %d times in %s" % (s.count(old), f)); subprocess.run(['git','-C','/repo','checkout','--','.']); sys.exit(1)
    open(p, 'w').write(s.replace(old, new))
d = subprocess.run(['git','-C','/repo','diff'], capture_output=True, text=True).stdout
open(out, 'w').write(d)
subprocess.run(['git','-C','/repo','checkout','--','.'])
print("wrote", out, len(d.splitlines()), "lines")
