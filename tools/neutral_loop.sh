#!/bin/bash
# usage: [JOBS=2] neutral_loop.sh Cnn [Cmm ...] — development aid: runs the named checks on every selftest/neutral/*.diff (scratch
# copies of /repo, never /repo itself), JOBS patches at a time (each with PAR=1), and prints the patches on which something alarms,
# does not build or ends without a verdict. A patch that no longer applies is skipped.
cd "$(dirname "$0")/.."
one() { out=$(PAR=1 tools/all_checks_on_patch.sh "$1" "${@:2}" 2>&1 | tail -1); case "$out" in "ALARMS: none"|"patch does not apply") ;; *) echo "$1 $out";; esac; }
for p in selftest/neutral/*.diff; do
  one "$p" "$@" &
  while [ $(jobs -r | wc -l) -ge ${JOBS:-2} ]; do sleep 0.5; done
done
wait
echo "neutral loop done: $*"
