#!/bin/bash
# usage: neutral_loop.sh Cnn [Cmm ...] — development aid: runs the named checks on every selftest/neutral/*.diff (scratch copies of
# /repo, never /repo itself) and prints the patches on which something alarms.
cd "$(dirname "$0")/.."
for p in selftest/neutral/*.diff; do out=$(PAR=${PAR:-3} tools/all_checks_on_patch.sh $p "$@" 2>&1 | tail -1); case "$out" in "ALARMS: none"|"patch does not apply") ;; *) echo "$p $out";; esac; done; echo "neutral loop done: $*"
