#!/bin/bash
# usage: port_patch.sh <patch.diff>... — re-creates stored patches that no longer apply to /repo's HEAD because a later
# fix: commit changed their context lines: applies each with fuzz to a scratch copy, checks that it builds, and
# rewrites the patch against HEAD (the original is kept as <name>.orig.diff the first time). Development aid.
export GOFLAGS=-mod=mod GOPROXY=off GOSUMDB=off GOTOOLCHAIN=local; unset GOWORK
sc=$(mktemp -d /tmp/port.XXXXXX); trap 'rm -rf "$sc"' EXIT
args=(); for p in "$@"; do args+=("$(realpath "$p")"); done
rsync -a --exclude .git /repo/ "$sc/r/"; cd "$sc/r" && git init -q && git add -A && git -c user.email=x@x -c user.name=x commit -qm base
for p in "${args[@]}"; do
  if git apply --check "$p" 2>/dev/null; then echo "applies already: $p"; continue; fi
  if ! patch -p1 -F3 --no-backup-if-mismatch -s < "$p" > "$sc/out.txt" 2>&1; then echo "CANNOT PORT (rejects): $p"; cat "$sc/out.txt" | head -5; git checkout -q -- . ; git clean -fdq; continue; fi
  find . -name '*.orig' -delete
  if ! go build ./... 2>"$sc/b.txt"; then echo "CANNOT PORT (does not build): $p"; head -5 "$sc/b.txt"; git checkout -q -- .; git clean -fdq; continue; fi
  case "$p" in */seeded/*) o="${p%.diff}.orig.diff";; *) o="${p%.diff}.orig.txt";; esac; [ -f "$o" ] || cp "$p" "$o"
  git add -A; git diff --cached > "$p"; git reset -q --hard; git clean -fdq
  echo "ported: $p"
done
