#!/bin/sh
# Runs every hand-made mutant under selftest/mutants/<prop>_<name>.diff against its property's check:
# each must compile and must be reported (VIOLATION). Also runs every check on the clean tree (must be silent).
# Writes selftest/results.txt. Not a registered check: development aid for the checker itself.
cd /verif || exit 2
./setup.sh || exit 2
out=selftest/results.txt; : > $out
fail=0
for m in selftest/mutants/*.diff seeded/*/patch.diff; do
  [ -f "$m" ] || continue
  case "$m" in
    seeded/*) prop=$(python3 -c "import json,sys;print(' '.join(json.load(open('$(dirname $m)/meta.json'))['detected_by']))");;
    *) prop=$(basename $m | cut -d_ -f1 | tr a-z A-Z);;
  esac
  [ -n "$prop" ] || { echo "SKIP $m (no detecting check recorded)" | tee -a $out; continue; }
  res=$(tools/try_mutant.sh $m $prop 2>&1)
  if echo "$res" | grep -q "MUTANT DOES NOT BUILD\|^patch does not apply"; then echo "BROKEN $m: $(echo "$res" | head -2 | tr '\n' ' ')" | tee -a $out; fail=1; continue; fi
  for p in $prop; do
    if echo "$res" | grep -q "VIOLATION property=$p"; then
      echo "CAUGHT $m $p :: $(echo "$res" | grep -m1 '^FAIL\|^UNDECIDED\|^UNRESOLVED' | cut -c1-160)" | tee -a $out
    else
      echo "MISSED $m $p" | tee -a $out; fail=1
    fi
  done
done
exit $fail
