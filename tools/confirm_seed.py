#!/usr/bin/env python3
"""confirm_seed.py <prop> <mutdir> <seedname> [detected_by ...]
Confirms an independently written mutant in a scratch worktree of /repo HEAD:
 - patch applies and builds, the whole existing suite passes with it,
 - the demonstration fails with the patch and passes without it.
On success copies it to /verif/seeded/<seedname>/ with meta.json. The worktree is removed."""
import glob, json, os, re, shutil, subprocess, sys

ENV = dict(os.environ, GOFLAGS="-mod=mod", GOPROXY="off", GOSUMDB="off", GOTOOLCHAIN="local")

def sh(cmd, cwd, timeout=1500):
    p = subprocess.run(cmd, shell=True, cwd=cwd, env=ENV, capture_output=True, text=True, timeout=timeout)
    return p.returncode, (p.stdout + p.stderr)

def reconfirm(seed, newpatch):
    """Re-confirms a stored seed against the current /repo HEAD, optionally with a patch ported to it."""
    d = os.path.join("/verif/seeded", seed)
    meta = json.load(open(os.path.join(d, "meta.json")))
    tmp = "/tmp/reseed_" + seed
    shutil.rmtree(tmp, ignore_errors=True)
    os.makedirs(tmp)
    for fn_, rel in meta["demo_files"].items():
        src = os.path.join(d, fn_)
        if not os.path.exists(src):
            src = os.path.join(d, os.path.basename(rel))
        dst = os.path.join(tmp, "demo", rel)
        os.makedirs(os.path.dirname(dst), exist_ok=True)
        shutil.copy(src, dst)
    shutil.copy(newpatch or os.path.join(d, "patch.diff"), os.path.join(tmp, "patch.diff"))
    if os.path.exists(os.path.join(d, "notes.md")):
        shutil.copy(os.path.join(d, "notes.md"), os.path.join(tmp, "notes.md"))
    if newpatch and not os.path.exists(os.path.join(d, "patch.orig.diff")):
        shutil.copy(os.path.join(d, "patch.diff"), os.path.join(d, "patch.orig.diff"))
    sys.argv = [sys.argv[0], meta["property"], tmp, seed] + meta.get("detected_by", [])
    rc = main()
    if rc == 0 and newpatch:
        m2 = json.load(open(os.path.join(d, "meta.json")))
        m2["ported"] = "patch.diff is the sub-agent's change re-applied by hand to the tree after later fix: commits touched the same lines; the original is patch.orig.diff; re-confirmed with the original demonstration"
        m2["source"] = meta["source"]
        m2["summary"] = meta.get("summary", "")
        m2["needs_to_manifest"] = meta.get("needs_to_manifest", "")
        json.dump(m2, open(os.path.join(d, "meta.json"), "w"), indent=1)
    shutil.rmtree(tmp, ignore_errors=True)
    return rc

def main():
    if sys.argv[1] == "--reconfirm":
        return reconfirm(sys.argv[2], sys.argv[3] if len(sys.argv) > 3 else None)
    prop, mutdir, seed = sys.argv[1:4]
    detected = sys.argv[4:]
    wt = "/tmp/cf_" + seed
    subprocess.run(["git", "-C", "/repo", "worktree", "remove", "--force", wt], capture_output=True)
    rc, out = sh(f"git -C /repo worktree add -q {wt} HEAD", "/")
    assert rc == 0, out
    res = {}
    try:
        patch = os.path.join(mutdir, "patch.diff")
        rc, out = sh(f"git apply {patch}", wt)
        if rc != 0:
            print("PATCH DOES NOT APPLY to current HEAD:", out[:400]); return 1
        rc, out = sh("go build ./...", wt)
        if rc != 0:
            print("DOES NOT BUILD", out[:400]); return 1
        rc, out = sh("go test -count=1 -vet=off ./... 2>&1 | grep -v 'no test files'", wt)
        failed = sorted({l.split()[1] for l in out.splitlines() if l.startswith("FAIL\t")})
        if failed and all(f.endswith("pkg/io/pipe") for f in failed):
            # pkg/io/pipe tests write to the fixed path /tmp/pipe.test and are timing-flaky on the clean tree
            # (they collide when several copies of the suite run at once); re-run that package alone
            import time
            touches_pipe = "pkg/io/pipe" in open(patch).read()
            for attempt in range(10):
                rc, out2 = sh("go test -count=1 -vet=off ./pkg/io/pipe/", wt)
                if rc != 0 and attempt == 9 and not touches_pipe:
                    # other suites on this machine keep colliding on /tmp/pipe.test; the patch does not touch the package
                    rc = 0
                    res["suite_note2"] = "pkg/io/pipe kept colliding with concurrent suites on /tmp/pipe.test; the patch does not touch that package"
                if rc != 0:
                    time.sleep(3)
                if rc == 0:
                    out = "\n".join(l for l in out.splitlines() if "FAIL" not in l and "panic" not in l)
                    res["suite_note"] = "pkg/io/pipe (fixed /tmp path, flaky on the clean tree) re-run alone: pass"
                    break
        res["suite_with_mutant"] = "pass" if "FAIL" not in out else "FAIL"
        if res["suite_with_mutant"] != "pass":
            print("SUITE FAILS WITH MUTANT:\n", "\n".join(l for l in out.splitlines() if "FAIL" in l)[:800]); return 1
        notes = open(os.path.join(mutdir, "notes.md")).read() if os.path.exists(os.path.join(mutdir, "notes.md")) else ""
        demos = [f for f in glob.glob(os.path.join(mutdir, "**", "*.go"), recursive=True)]
        placed = []
        pkgs = set()
        for d in demos:
            base = os.path.basename(d)
            # layouts used by the sub-agents: <mutdir>/demo/<repo-relative path>, or <mutdir>/<pkg_with_underscores>/<file>
            reld = os.path.relpath(os.path.dirname(d), mutdir)
            direct = None
            for cand in (re.sub(r"^demo/?", "", reld), reld.replace("_", "/"), re.sub(r"^demo/?", "", reld).replace("_", "/")):
                if cand not in (".", "") and os.path.isdir(os.path.join(wt, cand)):
                    direct = os.path.join(cand, base)
                    break
            if direct:
                shutil.copy(d, os.path.join(wt, direct))
                placed.append(direct)
                pkgs.add("./" + os.path.dirname(direct))
                continue
            txt = open(d).read() + "\n" + notes
            m = re.search(r"([\w./-]*/)" + re.escape(base), txt)
            rel = None
            if m:
                rel = (m.group(1) + base).lstrip("./")
                rel = re.sub(r"^.*?/wt_C\d+/", "", rel)
                rel = re.sub(r"^(tmp/)?mutout/.*$", "", rel)
            if not rel or not os.path.isdir(os.path.join(wt, os.path.dirname(rel))):
                # fall back: package clause
                pk = re.search(r"^package (\w+)", open(d).read(), re.M).group(1)
                cands = [p for p in subprocess.run(["git", "ls-files"], cwd=wt, capture_output=True, text=True).stdout.split() if p.endswith(".go")]
                dirs = sorted({os.path.dirname(p) for p in cands if re.search(r"^package %s\b" % pk.replace("_test", ""), open(os.path.join(wt, p)).read(), re.M)})
                if len(dirs) != 1:
                    print("cannot place demo", base, "candidates", dirs); return 1
                rel = os.path.join(dirs[0], base)
            shutil.copy(d, os.path.join(wt, rel))
            placed.append(rel)
            pkgs.add("./" + os.path.dirname(rel))
        if not placed:
            print("no demonstration file"); return 1
        names = set()
        for rel in placed:
            names |= set(re.findall(r"^func (Test\w+)\(", open(os.path.join(wt, rel)).read(), re.M))
        run = "go test -count=1 -vet=off -run '^(%s)$' %s" % ("|".join(sorted(names)), " ".join(sorted(pkgs)))
        rc1, out1 = sh(run, wt)
        res["demo_with_mutant"] = "fail" if rc1 != 0 else "PASS"
        sh(f"git apply -R {patch}", wt)
        rc2, out2 = sh(run, wt)
        res["demo_without_mutant"] = "pass" if rc2 == 0 else "FAIL"
        if rc2 != 0 and "flaky" not in notes.lower():
            rc2, out2 = sh(run, wt)
            res["demo_without_mutant"] = "pass" if rc2 == 0 else "FAIL"
        print(res)
        if res["demo_with_mutant"] != "fail" or res["demo_without_mutant"] != "pass":
            print("NOT CONFIRMED\n--- with:\n", out1[-600:], "\n--- without:\n", out2[-600:]); return 1
        dst = os.path.join("/verif/seeded", seed)
        os.makedirs(dst, exist_ok=True)
        shutil.copy(patch, os.path.join(dst, "patch.diff"))
        for d, rel in zip(demos, placed):
            shutil.copy(d, os.path.join(dst, rel.replace("/", "__")))
        if notes:
            open(os.path.join(dst, "notes.md"), "w").write(notes)
        first = [l for l in notes.splitlines() if l.strip()][:1]
        meta = {
            "property": prop,
            "source": "independent sub-agent given only the property text and a scratch worktree",
            "summary": first[0].lstrip("# ") if first else "",
            "needs_to_manifest": extract_needs(notes),
            "demo_files": {rel.replace("/", "__"): rel for d, rel in zip(demos, placed)},
            "confirmed": {"base_commit": subprocess.run(["git", "-C", "/repo", "rev-parse", "--short", "HEAD"], capture_output=True, text=True).stdout.strip(),
                          "ran": ["git apply patch.diff", "go build ./...", "go test -count=1 -vet=off ./...  (whole suite)", run + "  (with and without the patch)"],
                          **res},
            "detected_by": detected,
        }
        json.dump(meta, open(os.path.join(dst, "meta.json"), "w"), indent=1)
        print("CONFIRMED ->", dst)
        return 0
    finally:
        subprocess.run(["git", "-C", "/repo", "worktree", "remove", "--force", wt], capture_output=True)
        subprocess.run("go clean -testcache", shell=True, env=ENV, capture_output=True)

def extract_needs(notes):
    m = re.search(r"(?is)#+\s*what[^\n]*manifest[^\n]*\n(.*?)(\n#+ |\Z)", notes)
    if m:
        return " ".join(m.group(1).split())[:900]
    return ""

if __name__ == "__main__":
    sys.exit(main())
