#!/bin/bash
# usage: mut_on_neutral.sh <neutral.diff> <out.diff> <file> <sed-expression> — development aid: writes to <out.diff> the neutral patch
# plus a hand mutation (sed on one file) of the refactored tree, as a patch against /repo. Works in a scratch dir inside the worktree.
set -e
V=$(cd "$(dirname "$0")/.." && pwd); n=$(realpath "$1"); o=$(realpath -m "$2")
sc=$(mktemp -d "$V/.scr.XXXXXX"); trap 'rm -rf "$sc"' EXIT
mkdir -p $sc/a $sc/b; for f in $(grep '^+++ b/' "$n" | sed 's#+++ b/##') "$3"; do mkdir -p $sc/a/$(dirname $f) $sc/b/$(dirname $f); [ -f /repo/$f ] && cp /repo/$f $sc/a/$f && cp /repo/$f $sc/b/$f; done
(cd $sc/b && patch -s -p1 < "$n")
cp $sc/b/$3 $sc/b3.orig; sed -i -E "$4" $sc/b/$3; cmp -s $sc/b3.orig $sc/b/$3 && { echo "mutation changed nothing"; exit 3; }; rm $sc/b3.orig
(cd $sc && diff -ruN a b > "$o") || true
