#!/usr/bin/env python3
"""Regenerates checker/rules/pinned_gen.go and callers_gen.go from the tree in /repo (the tree the rules are
written against): `bin/gunyucheck -dump signatures` and `-dump callers`. Run after a fix: commit changed /repo."""
import subprocess, sys, os
ROOT = os.path.dirname(os.path.dirname(os.path.abspath(__file__)))
repo = sys.argv[1] if len(sys.argv) > 1 else "/repo"
def dump(kind):
    out = subprocess.run([os.path.join(ROOT, "bin/gunyucheck"), "-property", "C01", "-repo", repo, "-verif", "/tmp", "-dump", kind],
                         capture_output=True, text=True).stdout
    return [l.split("\t") for l in out.splitlines() if "\t" in l]
sigs = dump("signatures")
with open(os.path.join(ROOT, "checker/rules/pinned_gen.go"), "w") as f:
    f.write("// Code generated from the pinned tree (gunyucheck -dump signatures); DO NOT EDIT.\n\npackage rules\n\n"
            "// pinnedFunctions: the named functions of the module on the tree the rules were written against, with\n"
            "// their signatures. A function that is not in this list is new to the rule base (typically a helper\n"
            "// extracted by a refactoring) and is analysed as part of its callers; a listed function that is gone\n"
            "// while exactly one new function of the same receiver and signature exists is taken to be renamed.\n"
            "var pinnedFunctions = map[string]string{\n")
    for a, b in sorted(sigs):
        f.write('\t"%s": "%s",\n' % (a, b))
    f.write("}\n")
cal = dump("callers")
with open(os.path.join(ROOT, "checker/rules/callers_gen.go"), "w") as f:
    f.write("// Code generated from the pinned tree (gunyucheck -dump callers); DO NOT EDIT.\n\npackage rules\n\n"
            "// pinnedSoleCaller: named functions of the module that, on the tree the rules were written against, are\n"
            "// called from exactly one other named function. When such a function is gone and was not renamed, its body\n"
            "// was folded into that caller, and the obligations stated on it are looked for there.\n"
            "var pinnedSoleCaller = map[string]string{\n")
    for a, b in sorted(cal):
        f.write('\t"%s": "%s",\n' % (a, b))
    f.write("}\n")
print(len(sigs), "signatures,", len(cal), "sole callers")
