#!/usr/bin/env python3
"""Generates /verif/MANIFEST.json from the table below and validates it
against /root/.vp/MANIFEST.schema.json when jsonschema is available."""
import json, os, sys

ROOT = os.path.dirname(os.path.dirname(os.path.abspath(__file__)))

TECH = "static analysis: repository-specific path / dataflow / provenance / lockset / table rules over go/types + go/ssa (+ VTA call graph); paths carry branch facts, nil-ness and integer difference constraints and step into helpers unknown to the rule base; bit-level and string-template normal forms; no execution"

NOTE = ("Decides the listed necessary structural conditions on every path / call site / table row of /repo's current source; "
        "it does not decide the runtime behaviour the property quantifies over. Trusted base: go/packages, go/types, go/ssa "
        "(x/tools v0.29.0), the effect class assigned to calls leaving the module, protocol constants embedded in the checker.")

# property id -> (claim text, design section)   | None => not applicable (reason)
CLAIMS = {
 "C01": ("Structural necessary conditions of ordered, loss-free, non-inventing incremental replay: single producer/consumer on the command channel; tail-append / forward-iteration / reset-after-success queue discipline; one connection; enumerated constant commands and synthesised items; on every path of the parser loop and of a sender iteration an item is dropped only for a documented reason; database mapping decided in one function; non-replayable command table agrees with its documentation and is disjoint from data commands.", "3/C01"),
 "C02": ("Structural necessary conditions of crash-safe resume: MULTI…checkpoint…EXEC ordering on one batcher value, checkpoint after the batch in ticker mode, and — on every path of one sender iteration with constant flags pruned — no flush stores the offset of an item that is not part of the flushed batch (except keep-alive and EXEC); resume database and newest-checkpoint selection. A unit test samples one stream; the rule covers all paths of the sender loop.", "3/C02"),
 "C07": ("Sentinel non-flow: no negative constant reaches the stored resume position (checkpoint HSET argument or in-memory checkpoint) without a dominating comparison excluding it, traced inter-procedurally through the sender closures; every other origin is the offset of a consumed stream item; full-sync completion stores the snapshot offset.", "3/C07"),
 "C09": ("In transactional mode every flush on every path of a sender iteration is requested by the transaction state machine or happens with the in-transaction flag known false (loop invariant established inductively); the flag is cleared only after a successful flush; the state machine flushes inside a transaction only on EXEC; the resume position never lands between MULTI and EXEC.", "3/C09"),
}

 
CLAIMS["C11"] = ("For every function of the module that derives a cluster slot: CRC-16 table equal to the XMODEM table computed in the checker, update-step shape, 16383 mask on every return, and — on all return paths — the hashed substring is key[s+1:e] with s/e first-match scans for '{' and the following '}', exactly when both are found and the tag is non-empty, the whole key otherwise; no other function computes slots; sibling functions agree. For the recognised scan idiom this is HASH_SLOT's definition; other idioms are reported undecided.", "3/C11")

CLAIMS["C17"] = ("On every path of the maintenance routines: UpdateCheckpoint writes new ≺ repoints index ≺ deletes old ≺ deletes old index entry, a failed step is the last effect, and the database the old checkpoint was found in is selected before the new one is written; stale collection deletes only entries older than the threshold and never the newest entry of a live id, and drops an index entry only for dead ids whose entries are all gone; mode migration seeds the new namespace completely before repointing and retires the old one afterwards; re-keying passes [new, old].", "3/C17")

CLAIMS["C12"] = ("On every path of every Decoder method each successful consuming read of the stream reader is paired with exactly one offset += bytes consumed and the offset moves nowhere else; the reader is touched only by the Decoder; MustDecodeOpt returns the offset read after decoding and parsers add it to the start offset of the same iteration; a bulk argument is an n+2 buffer read fully, CRLF-checked and returned as b[:n] on every success path; ParseArgs returns bs[1:].", "3/C12")

CLAIMS["C10"] = ("Every forwarding path consults every filter dimension on all of its loop paths; the black/white-list predicates answer true exactly on black-list hit or white-list miss on all their paths; FilterCmdKey keeps a key only when both key rules accepted it and marks the command filtered otherwise; projection case sets agree and projection is guarded; bookkeeping prefixes are blacklisted unconditionally; the bisected slot list is kept sorted/disjoint by insertion with bounds derived from the stored list; key-position tables are well-formed.", "3/C10")

CLAIMS["C15"] = ("The Lua scripts embedded in the Redis election are parsed by the checker and every script path enumerated: lease written and 1 answered exactly when the lease is absent or owned by the caller, created with expiry, extended with the ttl; resign deletes only the caller's lease; the Go wrappers map reply 1 to leader and any error to candidate+error; one atomic EVAL per operation; any renewal error closes the running syncer; stop precedes resign; the configuration clamp renew <= lease/3 is the last write of both fields.", "3/C15")

CLAIMS["C20"] = ("Every path of RdbReplay.Replay is enumerated (RESTORE retry unrolled once): probe and DEL only for the first chunk with the probe's error tested; under ignore no write follows 'key exists', the key is remembered and later chunks consult the memo; under error a non-nil return precedes any write; under replace DEL precedes the expansion / REPLACE precedes the retry; both policy switches cover exactly the three policies; the bidirectional builder records and looks up its memo under the same key.", "3/C20")

CLAIMS["C03"] = ("Type tables agree per parser (routing = payload consumption = expansion) and every value type is routed; DUMP framing order/endianness/size; CRC-64 table equals the Jones table computed in the checker; ziplist/intset/listpack integers are sign-extended per encoding width; ziplist ends at 255 only; on every successful path of Replay an expanded value with an expiry gets PEXPIRE and RESTORE carries the ttl; fan-out lane depends on the key only; all value bytes go through the tee into the payload; plain and bidirectional RESTORE choice agree; later chunks append. Value-level decoding of all encodings is not decided.", "3/C03")

CLAIMS["C04"] = ("In sendRdb every replay goroutine and panic callback reports exactly one result on every path, the collector receives cap(results) values and the completion record is dominated by 'no error' and by a live-context test after collection (or all producers fail on cancel); every error edge of the snapshot parser sends an error entry and completion is announced only after the footer check; every consumer tests the entry's error before use; Footer returns nil only after reading the stored checksum and finding it zero or equal (all paths); explicit decoder panics reach goroutine roots only through a reporting recover frame (call graph); pumps return nil only for a fully delivered snapshot; all stages watch the context.", "3/C04")

CLAIMS["C16"] = ("Leader: data is sent only under 'follower id = current id' and 'offset the follower sent is not beyond the leader's newest'; the ahead branch sends HANDOVER and returns the hand-over error; the requested offset is replaced only when invalid; CONTINUE frames carry running offset + n. Follower: writers start at the META frame's offset/size; on every path the snapshot writer follows DelRunId ≺ SetRunId and the log writer follows a DelRunId unless the leader's data joins the follower's; every refusal code is a non-nil error on every path of the response handler; every refusal on the leader ends the exchange.", "3/C16")

CLAIMS["C14"] = ("On every path of the unit dispatcher marker ≺ business commands ≺ recovery record (≺ index) are queued on one transaction batcher before its single Dispatch; every journal deletion is dominated (in the function or at every caller) by a successful frontier save; coordinator and start-up rebuild advance the frontier only while the next sequence number is present, from seq+1 stepping by 1 only after a hit; the in-memory resume point is stored after confirmation from the confirmed values; commits are reported only after reply validation; recovery cleanup is bounded by the frontier; sync-mode start picks the greatest end offset.", "3/C14")

CLAIMS["C13"] = ("Every transaction the tool writes starts with the marker SET on every path and carries every command of the unit; transaction batchers are created only by those writers; bookkeeping keys are built under the reserved prefix and the namespace test checks exactly the reserved prefixes; suppression predicates read key positions only (first argument, all arguments only for DEL/UNLINK) and answer true only under the reserved prefix; on every loop path of the replay-unit parser a decoded command is dropped only for a documented reason; the transaction buffer is fresh at MULTI, dropped after EXEC, append-only, and a mirrored transaction emits nothing.", "3/C13")

CLAIMS["C18"] = ("The unit builder visits every command and key, hashes with the module's slot function, and on every path each failure edge (resolver error, unresolved, no keys, slot mismatch in strict mode) refuses; cluster mode uses the strict slot mode; key resolution keeps every key position; the slot tag derives from the recorded slot; control-key formats have exactly one hash tag around the slot tag and are built with the unit's tag; the cluster transaction batcher hashes every key, records every refusal and returns it before dispatch; a unit is emitted only on the builder's success edge; the builder refuses for the listed reasons only. The slot function itself is checked under C11.", "3/C18")

CLAIMS["C06"] = ("Every successful path of the (re)connection decision procedure is enumerated with its flags pruned: PSYNC is asked from the cache's edge only when the target's position is a valid cache offset (or a complete cached snapshot exists and the target has none), from the target's position otherwise with the cache cleared on that path, or from the initial point; a full resync clears the cache first; reader start, writer offset and snapshot size returned are the defined ones for full and partial paths; cache and bookkeeping get the same id, forced to the current one on CONTINUE; the wire routine formats offset+1, reports sent-1 only under CONTINUE and the parsed offset under FULLRESYNC.", "3/C06")

CLAIMS["C19"] = ("Replies are stored only after classification succeeded (must, through all phi inputs); the classifier answers no code silently and on every path MOVED/ASK yields an error or the retry's own result; the sender's retry is constant-bounded and on every path returns nil only when its last attempt succeeded, with the failed batch still queued; per-node lists are append-only with forward send/receive and index reassembly; a transaction is re-dispatched only after a resolved redirect, a bounded number of times, with its commands untouched; transactional cluster mode switches client redirect handling off; escalation mapping preserves non-nil errors. Owner-at-that-time and per-key order under migrations are runtime behaviour and not decided.", "3/C19")

CLAIMS["C05"] = ("Guarded-by tables checked with a must-hold lockset per instruction for both cache backends and the pipe (about 300 accesses), lock-requiring helpers called with the lock held (requirement propagated), no call made with a mutex held exclusively reaches code that locks the same mutex of the same object again (call graph); check-then-acquire in one critical section; collectors remove only unreferenced, closed, non-current segments; writer continuity; acquire-before-release hand-over; close-before-drop on reset; the snapshot is offered only through the 'whole and continued by its log' predicate; the disk reader rotates to its own right edge; a pinned snapshot keeps its log on every path of the collector. Byte equality under interleavings is not decided.", "3/C05")
CLAIMS["C08"] = ("Snapshot rename only under written == announced after Sync ≺ Close, the count advancing only after a successful write; the scan ignores temporaries and empty segments; gap truncation before publication keeps the newest run, drops the snapshot, and also compares the snapshot/log joint; with verification enabled segments and completed snapshots are checked on open, the check passing only with equal size and checksum on every path; header finalised before Sync/Close; opening a reader with verification cannot block on the storer's own mutex (re-entrant lock detection over the call graph).", "3/C08")

# rules added after the second round of independent breaking changes (appended to the claims above)
EXTRA = {
 "C01": " Each replay path's notion of the target connection's database starts unknown, changes only with selectDB's result, and every change is sent before the next entry.",
 "C02": " The database-tracking conditions of C01 (a resume must not assume a database); newest-checkpoint selection decided over the nine orderings of (offset, mtime).",
 "C03": " Listpack back-length table and per-encoding header sizes equal the published format; the stream master entry's field count has one definition; database tracking of the snapshot workers.",
 "C04": " Recovering frames never re-throw and always assign their error; every reply of a pipelined expanded entry is tested in the iteration that received it.",
 "C05": " Segment readers are positioned behind the header as the last file operation of opening, logical offsets map to header + (offset - left), GetReader seeks to and reports the requested offset; the disk snapshot commit point (shared with C08).",
 "C06": " A cache is adopted under a source id only when it holds data written under that id.",
 "C07": " Re-keying addresses the right records (write new name/id, delete old name/id); the replay starts at the reader's reported position, which is the requested offset; an offset is never queued without its run id (or into a database known to hold it).",
 "C08": " Only a segment whose size is still open is exempt from verification.",
 "C09": " Every transactional flush in every iteration is wrapped in MULTI/EXEC.",
 "C10": " What is forwarded is the filter's projection; rows of multi-key commands equal the published key specifications; the slot function conditions of C11.",
 "C12": " Encode side: the three sibling encoders frame a bulk argument as '$' / decimal length of the same bytes (at least one digit) / CRLF / bytes / CRLF and a command as '*' / count / arguments.",
 "C14": " The in-memory resume point comes from the confirmed unit (sync) or the contiguous frontier (pipeline/parallel), also through helpers, and nobody else writes it; the sync-mode start record is decided over the nine orderings of (end offset, mtime).",
 "C15": " The retry wrapper returns nil only when the last attempt succeeded; the election key derives from the shard master's address and nothing instance-specific.",
 "C18": " Snapshot units take their slot from the key they write; the static key table names every key of the multi-key commands; the slot function conditions of C11.",
 "C19": " No transport failure is returned as a reply value with a nil error; Put records every failure it returns and Exec/Dispatch return the recorded error before sending; Exec returns only after every per-node worker has finished.",
 "C20": " The ignore memo is cleared only when a new key begins; bidirectional replay tolerates BUSYKEY only under ignore (all loop paths).",
}
for k, v in EXTRA.items():
    CLAIMS[k] = (CLAIMS[k][0] + v, CLAIMS[k][1])

# rules added after the third round of independent breaking changes
EXTRA3 = {
 "C01": " The decoder's sole-reader and bulk-framing conditions of C12 (the arguments replayed are the bytes the source sent).",
 "C03": " The distributor picks the worker of a keyed entry from the key alone, so the chunks of one value are appended by one worker.",
 "C04": " A RESTORE error is taken for 'key exists' only by the two published BUSYKEY texts on the untransformed error text.",
 "C05": " No arithmetically possible path of the disk collector removes a log segment and keeps the snapshot indexed (integer difference constraints over the path); the running log writer is closed before its successor's file is created.",
 "C06": " The disk cache re-reads its directory whenever a run id is (re)confirmed; the in-memory resume position gets a run id only together with its offset.",
 "C08": " The 'still being written' marker is given only to a segment that is handed a writer.",
 "C10": " The filter tries only grow.",
 "C13": " A built unit goes somewhere before the next command is read; every unmarked writer is started only where bidirectional sync is established to be off.",
 "C16": " After a restart the follower's store offers only what was completely received (scan conditions of C08).",
 "C17": " The recovery scan of a cluster target lists every slot 0..16383.",
 "C19": " In transactional mode on a cluster target a batch answered with MOVED, ASK or CROSSSLOT is never sent again within the run (all paths of the retry loop).",
 "C20": " BUSYKEY recognition as in C04; the bidirectional RESTORE carries REPLACE exactly on the paths that established the replace policy; all chunks of one key reach the worker that made the key-exists decision.",
}
for k, v in EXTRA3.items():
    CLAIMS[k] = (CLAIMS[k][0] + v, CLAIMS[k][1])

# rules added after the fourth round of independent breaking changes (wiring, configuration, sibling code)
EXTRA4 = {
 "C01": " The configured target database (0 included) is what the configuration's fix leaves for selectDB.",
 "C02": " The re-keying rules of C17, the (re)connection decision rules of C06 and the transaction-mode wiring of C09.",
 "C03": " Nil means 'end of the packed structure' only (an empty element is never answered with nil); the key-exists policy is normalised to the three known words.",
 "C04": " Every replay path of an entry, the 'Bad data format' fallback included, hands the target's error up (shared with C03).",
 "C05": " The memory snapshot's commit point: a snapshot stays cached when its writer finishes only if every announced byte arrived; the disk scan conditions of C08.",
 "C06": " A full resynchronisation does not carry the target's old position over to the new replication id; the cache consulted reports only completed snapshots after a restart.",
 "C07": " The collector never removes the newest entry of a live id (shared with C17); the decoder counts every byte it consumes (shared with C12).",
 "C08": " No successful open of a segment skips the check unless verification is off; the verification switch handed to the store derives from the configuration through fields that are assigned.",
 "C09": " The sender's transaction mode is the output's CanTransaction itself.",
 "C10": " The database rule is asked about the source database; the prefix trie is read with the decomposition it is written with.",
 "C11": " The slot-tag table behind the bookkeeping keys is read only after its build (sync.Once); every key a command's slot verdict covers is hashed itself.",
 "C12": " The encoder's pre-formatted integer table is filled over its whole length and read with the same offset.",
 "C13": " On the bidirectional paths only reads and bookkeeping commands are sent outside a marker-led transaction.",
 "C14": " What is saved before journal deletion is the rebuilt frontier; a unit's end offset is the end of its last source command (shared with C12).",
 "C15": " The election identity derives from the advertised peer address; the lease ttl reaches the election in the unit the scripts use; renew <= lease/3 decided on the values held at return.",
 "C16": " Before talking to the leader the follower discards its copy only when it is behind; the leader's data joins the follower's only at exactly its newest offset; gap truncation and joint test after a restart (shared with C08).",
 "C17": " The live-id set is complete before anything is collected; the mode marker of an existing namespace says what is there until the migration has run.",
 "C18": " The slot-tag table is read only after its build.",
 "C19": " A node's request queue is filled by the submitting goroutine itself (dispatch order).",
 "C20": " A chunked value is known as such from its first chunk; the policy value the replay paths switch on is one of the three words on every successful path of the configuration's fix.",
}
for k, v in EXTRA4.items():
    CLAIMS[k] = (CLAIMS[k][0] + v, CLAIMS[k][1])

# rules added after the fifth round of independent breaking changes
EXTRA5 = {
 "C01": " A SELECT of the source reaches the generic forwarding only with a negative number (database 0 takes the database-decision branch).",
 "C02": " Nothing is forwarded while the source is in a withheld database (shared with C10).",
 "C03": " A key with an expiry is never replayed with ttl 0; the LZF control byte is split 3 + 5 bits; an intact snapshot entry is withheld only by the three filters.",
 "C04": " The bidirectional snapshot builders never answer 'nothing to replay' on a path that has seen an expansion error; the policy word is one of the three the replay knows (shared with C20).",
 "C05": " Written bytes are credited to the segment that holds them (reported before the writer can rotate); a finishing memory writer removes only its own empty segment; lock requirements of helpers are inferred from their uses.",
 "C06": " The target's position is handed to the input under the id it is stored under; the start-up maintenance does not re-key the checkpoint before the source has answered.",
 "C07": " A running output adopts a new replication id only after its checkpoint was moved; a failed look-up of the stored position surfaces as an error.",
 "C09": " Transactional replay is the default in every replay mode.",
 "C10": " Every snapshot entry that can be continued carries the source database; a slot range [l, r] is dropped only when l > r; an intact snapshot entry is withheld only when a filter rejected it.",
 "C11": " On a cluster target the forced-slot mode is never selected.",
 "C12": " Arguments queued in a transaction batcher are slices of their own; the reply reader makes zero-copy strings only of buffers it allocated.",
 "C13": " A stand-alone command on the tool's own keys is always a control command; the key table marks no value position as a key.",
 "C14": " Every valid mode has exactly one recovery format; sync mode executes a received unit once.",
 "C15": " On the shared stand-alone connection a request and its reply are one critical section; a stand-alone client is the connection to the configuration as given.",
 "C16": " The META frame carries the reader's own offset and size; the snapshot writer's size argument is read before the receiving goroutine exists.",
 "C17": " The id is adopted after the checkpoint was moved; look-up errors surface; every command on the id-to-name index is issued with database 0 selected by the same function.",
 "C18": " The relaxed slot mode only for non-cluster targets; keys one node resolved are used whatever another node answered; units are built from the filter's projection.",
 "C19": " One node batch per node in a plain batch; after ASK the command's own answer is judged; a redirect answered to one pipelined request is not handed to the requests behind it.",
 "C20": " The native fall-back of a failed RESTORE only for 'Bad data format', after a DEL when REPLACE was requested; every snapshot key the filters let through reaches the policy.",
}
for k, v in EXTRA5.items():
    CLAIMS[k] = (CLAIMS[k][0] + v, CLAIMS[k][1])

# rules added after the sixth round of independent breaking changes and the follow-up of the recorded observations
EXTRA6 = {
 "C01": " Merging configured slot ranges is a union; a command that cannot be routed poisons its batch (shared with C19); the command table is folded over the whole alphabet (shared with C10).",
 "C02": " Inside a source transaction only EXEC requests a flush (the transition function folded over its whole domain, shared with C09); a granted continuation keeps the target's position.",
 "C03": " The full sync waits for every goroutine that replays a part of the snapshot; the last chunk of a split value is known as split (shared with C20).",
 "C04": " A plain cluster batch scans its replies for error replies before it reports success.",
 "C05": " Every log segment starts with a fresh checksum; after a restart the newest-segment marker is the last element of the sorted list.",
 "C06": " DropStartPoint removes the old id's records from every database before the marker (W30); the output is told to drop its position only on a full resynchronisation; a failed look-up of the id that holds the checkpoint ends the start-up maintenance; the position offered is the greatest stored offset (shared with C02).",
 "C07": " Every flush stores the one running position (the end offset of the last item taken, pings included); the (re)connection decisions of syncMeta (shared with C06).",
 "C08": " Every data set built from a directory goes through the gap truncation; a snapshot is 'being written' only under its temporary name.",
 "C09": " The key filter rejects a command only for its keys: MULTI and EXEC always pass (shared with C10).",
 "C10": " Command names are folded to lower case over 'A'..'Z'; merging slot ranges is a union.",
 "C11": " The transaction batcher takes a command's slot from its resolved keys (shared with C18).",
 "C12": " An array is read to its announced length.",
 "C13": " The tool's own prefixes are black-listed whatever the operator configured (shared with C10); a mirrored transaction is dispatched again only after a resolved redirect (shared with C19).",
 "C14": " A completed full sync leaves a baseline frontier after removing the replaced position's journal (W28); a root checkpoint that overrides the frontier removes the state it replaces (W29); the frontier is rebuilt from the stored snapshot only; a mode migration repoints the index before it retires the old entry (shared with C17).",
 "C15": " The lease period is written by the constructor only; a renewal attempt reports nil only when the election answered nil.",
 "C16": " The leader's id is adopted only for a copy known to be its prefix (W31); the handshake frame answers only a follower that named no id; the leader's cache stays contiguous under collection (shared with C05).",
 "C17": " The (re)connection decisions of syncMeta: the position is dropped only on a full resynchronisation (shared with C06).",
 "C18": " A refusal is published before the unit channel is closed (W27); the slot table gives every slot of a reported range an owner; a transaction the filters emptied is skipped, not refused (shared with C13).",
 "C19": " A refused MOVED or ASK becomes 'typology changed', also in the pipelined receiver; known finding W32: plain batches route a command by the table alone while redirections are followed at receive time (R19.19, reported as KNOWN-FINDING).",
 "C20": " The key-exists policy of every output configuration is copied from the option of that name; the snapshot worker stops on the unit builder's error before it looks at 'skip'.",
}
for k, v in EXTRA6.items():
    CLAIMS[k] = (CLAIMS[k][0] + v, CLAIMS[k][1])

EXTRA7 = {
 "C01": " The database filter keeps both brackets of a transaction: MULTI and EXEC are never dropped for the selected database (W40); the rebuilt slot-range list does not overwrite a stored range before it was read (shared with C10).",
 "C02": " In transactional mode no flush stores a resume position while a source transaction is open, other than the one requested at EXEC.",
 "C04": " An error of applying a snapshot entry ends the replay worker: from every call that is handed the entry no path that has seen its error goes on to the next entry or returns nil.",
 "C06": " An optional capability asserted on the output field (DropStartPoint) is not hidden by a wrapper type stored there.",
 "C07": " The per-database 'holds the run id' set is keyed by the database of the last command queued in the same batch, and never by the label of an item the sender made itself (W33); a failed removal of the old id's records ends DropStartPoint (shared with C06).",
 "C08": " Snapshot verification answers 'not corrupted' only after computed == stored checksum; the verification switch travels from GetReader to every open unweakened.",
 "C10": " The rebuilt slot-range list has storage of its own or is written no faster than the stored ranges are read.",
 "C11": " A key resolution keeps nothing of the command it resolved for a later one (shared with C18).",
 "C12": " No bulk length the protocol allows (up to 512 MiB) is refused; every decoder handed out counts from zero.",
 "C13": " The recogniser of the tool's own transactions steps over the master's lazy-expiry DEL / UNLINK of the volatile marker (W38).",
 "C14": " A connection left in an unspecified database by a walk over the databases is re-selected before any database-dependent command (W36); in sync mode the start point is what the target committed, never the in-process resume point.",
 "C17": " A mode migration carries over the greater of the old namespace's mode state and its root checkpoint (W35).",
 "C18": " A key resolution keeps nothing of the command it resolved; the replay's result is the first error published on the wait-closer the parser reports its refusal to.",
 "C19": " A failed send or receive of one pipelined request ends every request in flight on that connection and gives the connection up; on a cluster target the synchronous sender sends the checkpoint alone, after the batch it covers succeeded (W39).",
 "C20": " A snapshot worker handles an entry only after the connection was switched to the entry's database; no piece of the bidirectional key-exists mechanism stands under a test the empty key fails (W37).",
}
for k, v in EXTRA7.items():
    CLAIMS[k] = (CLAIMS[k][0] + v, CLAIMS[k][1])

NOT_YET = "check not built yet in this revision (planned, see DESIGN.md section 3)"

def main():
    props = [json.loads(l) for l in open(os.path.join(ROOT, "properties.jsonl"))]
    checks, na = [], []
    for p in props:
        pid = p["id"]
        if pid in CLAIMS and CLAIMS[pid] is not None and not isinstance(CLAIMS[pid], str):
            text, ref = CLAIMS[pid]
            checks.append({
                "property_id": pid,
                "quick_cmd": f"./check.sh {pid} quick",
                "thorough_cmd": f"./check.sh {pid} thorough",
                "evidence_file": f"/verif/evidence/{pid}.json",
                "replay_cmd_template": "cat {path}",
                "engine": "gunyucheck",
                "level_claimed": {"category": "other", "text": text, "design_ref": "DESIGN.md section " + ref},
                "level_note": NOTE,
                "technique": TECH,
            })
        else:
            reason = CLAIMS.get(pid) if isinstance(CLAIMS.get(pid), str) else NOT_YET
            na.append({"property_id": pid, "reason": reason})
    m = {
        "version": 1,
        "setup_cmd": "./setup.sh",
        "hooks": {
            "guard": "verif",
            "enable": "none: static analysis reads /repo's source; no hooks or instrumentation are compiled in",
            "baseline_off_cmd": "for m in $(cat /w/out/gomods.txt); do MF=$(cd /repo/$m && . /w/out/goenv.sh && gomodflag); (cd /repo/$m && go test $MF -json -vet=off -count=1 -timeout 25m ./...); done",
            "source_commits": [],
            "add_only": True,
        },
        "engines": [{
            "name": "gunyucheck",
            "path": "checker/",
            "serves_properties": [c["property_id"] for c in checks],
            "kind_free_text": "repository-specific static analyser (go/packages + go/ssa + path enumeration with constant-flag pruning + call graph), vendored x/tools v0.29.0",
        }],
        "checks": checks,
        "not_applicable": na,
        "notes": "All checks analyse /repo's working tree on every run and execute nothing from it. known_findings.json lists repaired defects (status fixed) and, if any, recorded ones (status known).",
    }
    out = os.path.join(ROOT, "MANIFEST.json")
    json.dump(m, open(out, "w"), indent=1)
    try:
        import jsonschema
        jsonschema.validate(m, json.load(open("/root/.vp/MANIFEST.schema.json")))
        print("MANIFEST.json valid:", len(checks), "checks,", len(na), "not applicable")
    except ImportError:
        print("MANIFEST.json written (jsonschema not available)")

if __name__ == "__main__":
    main()
