#!/bin/sh
# usage: check.sh <property id> [quick|thorough]
# Analyses /repo's current working tree (nothing under /repo is executed).
cd "$(dirname "$0")" || exit 2
if [ ! -x bin/gunyucheck ] || [ -n "$(find checker -name '*.go' -newer bin/gunyucheck -not -path '*/vendor/*' | head -1)" ]; then
  ./setup.sh >&2 || { echo "cannot build checker"; exit 2; }
fi
exec bin/gunyucheck -property "$1" -tier "${2:-${VERIF_TIER:-quick}}" -verif "$(pwd)" -repo "${VERIF_REPO:-/repo}"
