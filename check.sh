#!/bin/sh
# usage: check.sh <property id> [quick|thorough]
# Analyses /repo's current working tree (nothing under /repo is executed or modified).
#
# quick    : the property's rules on the default build configuration.
# thorough : the same rules with inner loops unrolled once more, repeated under a second build
#            configuration (linux/386), followed by the positive controls: every recorded breaking
#            change for the property (hand-made mutants under selftest/mutants and confirmed seeds
#            under seeded/) is applied to a scratch copy of /repo and the rules are run on the copy;
#            the number of controls that fired is added to the evidence. Controls never change the
#            verdict on /repo (a control whose patch does not apply to the current tree is skipped).
cd "$(dirname "$0")" || exit 2
V=$(pwd)
id="$1"; tier="${2:-${VERIF_TIER:-quick}}"
REPO="${VERIF_REPO:-/repo}"
if [ ! -x bin/gunyucheck ] || [ -n "$(find checker -name '*.go' -newer bin/gunyucheck -not -path '*/vendor/*' | head -1)" ]; then
  ./setup.sh >&2 || { echo "cannot build checker"; exit 2; }
fi
bin/gunyucheck -property "$id" -tier "$tier" -verif "$V" -repo "$REPO"
rc=$?
[ "$tier" = thorough ] || exit $rc

# ---- positive controls (report only)
lc=$(echo "$id" | tr A-Z a-z)
scratch=$(mktemp -d /tmp/gunyu_ctl.XXXXXX) || exit $rc
trap 'rm -rf "$scratch"' EXIT INT TERM
mkdir -p "$scratch/repo" "$scratch/verif"
rsync -a --exclude .git "$REPO/" "$scratch/repo/" || exit $rc
cp "$V/known_findings.json" "$scratch/verif/" 2>/dev/null
total=0; fired=0; skipped=0; missed=""
list=$(ls "$V"/selftest/mutants/${lc}_*.diff 2>/dev/null)
for m in "$V"/seeded/*/meta.json; do
  [ -f "$m" ] || continue
  if python3 -c "import json,sys; sys.exit(0 if '$id' in json.load(open('$m')).get('detected_by',[]) else 1)"; then
    list="$list $(dirname "$m")/patch.diff"
  fi
done
# the controls are independent of each other: they run on WORKERS scratch copies in parallel
WORKERS=${VERIF_WORKERS:-6}
runctl() { # runctl <result file> <patches...>
  res="$1"; shift
  : > "$res"
  w=0
  for k in $(seq 1 $WORKERS); do eval "set_$k=''"; done
  for p in "$@"; do
    [ -f "$p" ] || continue
    w=$(( w % WORKERS + 1 ))
    eval "set_$w=\"\$set_$w $p\""
  done
  for k in $(seq 1 $WORKERS); do
    eval "ps=\$set_$k"
    [ -n "$ps" ] || continue
    if [ ! -d "$scratch/w$k/repo" ]; then
      mkdir -p "$scratch/w$k/verif"
      rsync -a "$scratch/repo/" "$scratch/w$k/repo/"
      cp "$V/known_findings.json" "$scratch/w$k/verif/" 2>/dev/null
    fi
    "$V/tools/ctl_worker.sh" "$id" "$scratch/w$k" "$res" $ps &
  done
  wait
}
runctl "$scratch/pos.txt" $list
total=$(grep -c ' alarm$\| silent$' "$scratch/pos.txt")
fired=$(grep -c ' alarm$' "$scratch/pos.txt")
skipped=$(grep -c ' skip$' "$scratch/pos.txt")
missed=$(grep ' silent$' "$scratch/pos.txt" | while read p _; do printf ' %s/%s' "$(basename "$(dirname "$p")")" "$(basename "$p")"; done)
echo "positive controls: $fired of $total recorded breaking changes reported ($skipped not applicable to this tree)${missed:+; not reported:$missed}"

# ---- neutral controls (report only): behaviour-preserving rewrites of the scratch copy must stay silent
runctl "$scratch/neu.txt" "$V"/selftest/neutral/*.diff
ntotal=$(grep -c ' alarm$\| silent$' "$scratch/neu.txt")
nsilent=$(grep -c ' silent$' "$scratch/neu.txt")
nalarm=$(grep ' alarm$' "$scratch/neu.txt" | while read p _; do printf ' %s' "$(basename "$p")"; done)
if [ -x bin/renamelocals ] && bin/renamelocals "$scratch/repo" >/dev/null 2>&1; then
  ntotal=$((ntotal+1))
  if bin/gunyucheck -property "$id" -tier quick -verif "$scratch/verif" -repo "$scratch/repo" 2>/dev/null | grep -q "^VIOLATION property=$id"; then
    nalarm="$nalarm rename-every-local"
  else
    nsilent=$((nsilent+1))
  fi
fi
# on top of the renaming: a deferred call, a leading statement and an empty block in every function body / if body
for mode in defer stmt block; do
  [ -x bin/neutral ] || break
  files=$(cd "$scratch/repo" && find syncer pkg cmd config -name '*.go' ! -name '*_test.go' ! -name '*.pb.go' 2>/dev/null)
  (cd "$scratch/repo" && "$V/bin/neutral" $mode $files) >/dev/null 2>&1 || continue
  ntotal=$((ntotal+1))
  if bin/gunyucheck -property "$id" -tier quick -verif "$scratch/verif" -repo "$scratch/repo" 2>/dev/null | grep -q "^VIOLATION property=$id"; then
    nalarm="$nalarm insert-$mode-everywhere"
  else
    nsilent=$((nsilent+1))
  fi
done
echo "neutral controls: silent on $nsilent of $ntotal behaviour-preserving rewrites${nalarm:+; ALARMED ON:$nalarm}"
if command -v jq >/dev/null 2>&1 && [ -f "$V/evidence/$id.json" ]; then
  jq --argjson t "$total" --argjson f "$fired" --argjson s "$skipped" --arg m "$missed" \
     --argjson nt "$ntotal" --argjson ns "$nsilent" --arg na "$nalarm" \
     '.coverage.positive_controls = {applied: $t, reported: $f, skipped_not_applicable: $s, not_reported: $m, note: "each control is a recorded breaking change (selftest/mutants, seeded/) applied to a scratch copy of /repo; report only, never part of the verdict"} | .coverage.neutral_controls = {applied: $nt, silent: $ns, alarmed_on: $na, note: "behaviour-preserving rewrites of a scratch copy (selftest/neutral patches; every local variable, parameter and result renamed; then a deferred call, a leading statement and an empty block inserted into every function / if body, cumulatively): the rules must stay silent; report only"}' \
     "$V/evidence/$id.json" > "$scratch/ev.json" && cp "$scratch/ev.json" "$V/evidence/$id.json"
fi
exit $rc
