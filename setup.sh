#!/bin/sh
# Builds the checker from files on disk only (vendored x/tools v0.29.0).
set -e
cd "$(dirname "$0")/checker"
export GOFLAGS=-mod=vendor GOPROXY=off GOSUMDB=off GOTOOLCHAIN=local GOWORK=off
mkdir -p ../bin
go build -o ../bin/gunyucheck ./cmd/gunyucheck
# development aids used by the thorough tier's neutral controls (behaviour-preserving rewrites of a scratch copy)
go build -o ../bin/renamelocals ./cmd/renamelocals
go build -o ../bin/neutral ./cmd/neutral
