// gunyucheck decides structural necessary conditions of properties C01..C20
// of redis-GunYu from the type-checked source of /repo (no execution).
package main

import (
	"flag"
	"fmt"
	"os"
	"path/filepath"
	"runtime/debug"
	"sort"
	"strconv"
	"time"

	"gunyucheck/core"
	"gunyucheck/rules"
)

func main() {
	prop := flag.String("property", "", "property id (C01..C20)")
	tier := flag.String("tier", "quick", "quick|thorough")
	repo := flag.String("repo", "/repo", "repository under analysis")
	verif := flag.String("verif", "", "verif directory (default: parent of the binary's directory)")
	dump := flag.String("dump", "", "print calls of the named function and exit (debug)")
	flag.Parse()
	if *verif == "" {
		exe, _ := os.Executable()
		*verif = filepath.Dir(filepath.Dir(exe))
	}
	if t := os.Getenv("VERIF_TIER"); t != "" && !isFlagSet("tier") {
		*tier = t
	}
	seed := 0
	if s := os.Getenv("VERIF_SEED"); s != "" {
		seed, _ = strconv.Atoi(s)
	}
	start := time.Now()
	code := run(*prop, *tier, *repo, *verif, *dump, seed, start)
	os.Exit(code)
}

func isFlagSet(name string) bool {
	set := false
	flag.Visit(func(f *flag.Flag) {
		if f.Name == name {
			set = true
		}
	})
	return set
}

func run(prop, tier, repo, verif, dump string, seed int, start time.Time) (code int) {
	defer func() {
		if r := recover(); r != nil {
			fmt.Printf("checker panic: %v\n%s\n", r, debug.Stack())
			fmt.Printf("VIOLATION property=%s replay=%s\n", prop, "checker-panic")
			code = 1
		}
	}()
	w, err := core.Load(repo, nil)
	if err != nil {
		fmt.Printf("cannot analyse %s: %v\n", repo, err)
		fmt.Printf("VIOLATION property=%s replay=%s\n", prop, "load-failure")
		return 1
	}
	loadS := time.Since(start).Seconds()
	if dump != "" {
		if dump == "names" { core.DumpNames(w) } else if dump == "signatures" { core.DumpSignatures(w) } else if dump == "callers" { core.DumpSoleCallers(w) } else { core.Dump(w, dump) }
		return 0
	}
	fn, ok := rules.All[prop]
	if !ok {
		var ids []string
		for k := range rules.All {
			ids = append(ids, k)
		}
		sort.Strings(ids)
		fmt.Printf("unknown property %q; have %v\n", prop, ids)
		return 2
	}
	known, err := core.LoadKnown(filepath.Join(verif, "known_findings.json"))
	if err != nil {
		fmt.Printf("known_findings.json: %v\n", err)
		return 2
	}
	rep := core.NewReport(w, prop, tier, known)
	if tier == "thorough" {
		core.Unroll = 3
	}
	fn(w, rep)
	if tier == "thorough" {
		// second build configuration: another word size and the build-tagged files of the module
		for _, cfg := range [][]string{{"linux/386", "GOOS=linux", "GOARCH=386"}} {
			w2, err := core.Load(repo, cfg[1:])
			if err != nil {
				fmt.Printf("cannot analyse %s under %s: %v\n", repo, cfg[0], err)
				fmt.Printf("VIOLATION property=%s replay=%s\n", prop, "load-failure")
				return 1
			}
			rep.W = w2
			rep.Config = cfg[0]
			rep.Configs = append(rep.Configs, cfg[0])
			fn(w2, rep)
			rep.W = w
			rep.Config = ""
		}
	}
	info := map[string]any{"packages": len(w.Pkgs), "module_functions": w.NumFunc, "load_s": loadS, "repo": repo, "loop_unroll": core.Unroll}
	return rep.Finish(verif, time.Since(start).Seconds(), seed, info)
}
