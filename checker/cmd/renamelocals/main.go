// Command renamelocals rewrites a copy of the repository so that every local
// variable, parameter, named result and receiver of the module gets a new
// name (suffix "Rn"). Behaviour is unchanged; the result is used to test that
// no rule depends on the names of locals (selftest/neutral).
// usage: renamelocals <repo-dir>
package main

import (
	"bytes"
	"fmt"
	"go/ast"
	"go/format"
	"go/types"
	"os"
	"strings"

	"golang.org/x/tools/go/packages"
)

func main() {
	dir := os.Args[1]
	cfg := &packages.Config{
		Mode: packages.NeedName | packages.NeedFiles | packages.NeedCompiledGoFiles | packages.NeedSyntax | packages.NeedTypes | packages.NeedTypesInfo | packages.NeedImports | packages.NeedDeps | packages.NeedModule,
		Dir:  dir,
		Env:  append(os.Environ(), "GOFLAGS=-mod=mod", "GOPROXY=off", "GOSUMDB=off", "GOTOOLCHAIN=local", "GOWORK=off"),
	}
	pkgs, err := packages.Load(cfg, "./...")
	if err != nil {
		fmt.Fprintln(os.Stderr, err)
		os.Exit(1)
	}
	renamed := 0
	for _, p := range pkgs {
		if len(p.Errors) > 0 {
			fmt.Fprintln(os.Stderr, p.Errors)
			os.Exit(1)
		}
		isLocal := func(o types.Object) bool {
			v, ok := o.(*types.Var)
			if !ok || v.IsField() || v.Pkg() == nil || v.Pkg() != p.Types {
				return false
			}
			if v.Parent() == nil || v.Parent() == p.Types.Scope() || v.Parent() == types.Universe {
				return false
			}
			return v.Name() != "_" && v.Name() != ""
		}
		for i, f := range p.Syntax {
			fn := p.CompiledGoFiles[i]
			if strings.HasSuffix(fn, "_test.go") || !strings.HasPrefix(fn, dir) {
				continue
			}
			changed := false
			ast.Inspect(f, func(n ast.Node) bool {
				if ts, ok := n.(*ast.TypeSwitchStmt); ok {
					// switch v := x.(type): v is defined implicitly once per clause
					if as, ok := ts.Assign.(*ast.AssignStmt); ok && len(as.Lhs) == 1 {
						if id, ok := as.Lhs[0].(*ast.Ident); ok && id.Name != "_" && !strings.HasSuffix(id.Name, "Rn") {
							id.Name += "Rn"
							changed = true
						}
					}
					return true
				}
				id, ok := n.(*ast.Ident)
				if !ok {
					return true
				}
				var o types.Object
				if d := p.TypesInfo.Defs[id]; d != nil {
					o = d
				} else if u := p.TypesInfo.Uses[id]; u != nil {
					o = u
				}
				if o != nil && isLocal(o) {
					id.Name = id.Name + "Rn"
					changed = true
					renamed++
				}
				return true
			})
			if !changed {
				continue
			}
			var buf bytes.Buffer
			if err := format.Node(&buf, p.Fset, f); err != nil {
				fmt.Fprintln(os.Stderr, fn, err)
				os.Exit(1)
			}
			if err := os.WriteFile(fn, buf.Bytes(), 0644); err != nil {
				panic(err)
			}
		}
	}
	fmt.Println("renamed identifiers:", renamed)
}
