package core

import (
	"go/token"
	"golang.org/x/tools/go/ssa"
)

// Transparent decides which functions are analysed as part of their caller
// in the flow-insensitive helpers (Instrs, Sites, Dominates, FactsAt, Unwrap):
// functions the rule base does not know (see rules/helpers.go). A transparent
// function with exactly one call site in the module is "expanded": its
// instructions count as instructions of the caller, its parameters stand for
// the arguments of that one call, and — when all of its returns yield the same
// value — the call stands for that value. nil disables expansion.
var Transparent func(callee *ssa.Function) bool

type expansion struct {
	site   map[*ssa.Function]*ssa.Call // expanded callee -> its only call
	callee map[*ssa.Call]*ssa.Function // that call -> the callee
}

var exp *expansion

// buildExpansion finds the expanded functions of the loaded program.
func (w *World) buildExpansion() {
	exp = nil
	if Transparent == nil {
		return
	}
	calls := map[*ssa.Function][]ssa.CallInstruction{}
	for _, f := range w.Funcs() {
		for _, b := range f.Blocks {
			for _, in := range b.Instrs {
				ci, ok := in.(ssa.CallInstruction)
				if !ok {
					continue
				}
				g := ResolveCall(ci).Callee
				if g == nil || len(g.Blocks) == 0 || g == f {
					continue
				}
				calls[g] = append(calls[g], ci)
			}
		}
	}
	e := &expansion{site: map[*ssa.Function]*ssa.Call{}, callee: map[*ssa.Call]*ssa.Function{}}
	for g, cs := range calls {
		if len(cs) != 1 || Atomic[g] || !Transparent(g) {
			continue
		}
		c, ok := cs[0].(*ssa.Call)
		if !ok {
			continue // started as a goroutine or deferred: not part of the caller's straight-line flow
		}
		e.site[g] = c
		e.callee[c] = g
	}
	exp = e
}

// expandedCallee returns the callee of a call that is analysed as part of the caller.
func expandedCallee(c *ssa.Call) *ssa.Function {
	if exp == nil {
		return nil
	}
	return exp.callee[c]
}

// ExpandedInto reports the call through which fn is analysed as part of its caller (nil if it is not).
func ExpandedInto(fn *ssa.Function) *ssa.Call {
	if exp == nil || fn == nil {
		return nil
	}
	return exp.site[fn]
}

// alwaysExecuted: every normal exit of in's function passes in.
func alwaysExecuted(in ssa.Instruction) bool {
	fn := in.Parent()
	for _, b := range fn.Blocks {
		if b == fn.Recover || len(b.Instrs) == 0 {
			continue
		}
		if _, isRet := b.Instrs[len(b.Instrs)-1].(*ssa.Return); !isRet {
			continue
		}
		if !(in.Block() == b || in.Block().Dominates(b)) {
			return false
		}
	}
	return true
}

// liftTo expresses an instruction of an expanded callee as the call (in target)
// through which it runs. always tells whether it runs whenever that call returns normally.
func liftTo(in ssa.Instruction, target *ssa.Function) (ssa.Instruction, bool, bool) {
	always := true
	for i := 0; i < 8 && in.Parent() != target; i++ {
		site := ExpandedInto(in.Parent())
		if site == nil {
			return nil, false, false
		}
		always = always && alwaysExecuted(in)
		in = site
	}
	if in.Parent() != target {
		return nil, false, false
	}
	return in, always, true
}

// singleReturn: the value every return of g yields for result idx, if it is one value.
func singleReturn(g *ssa.Function, idx int) ssa.Value {
	var v ssa.Value
	for _, b := range g.Blocks {
		if b == g.Recover || len(b.Instrs) == 0 {
			continue
		}
		ret, ok := b.Instrs[len(b.Instrs)-1].(*ssa.Return)
		if !ok {
			continue
		}
		if idx >= len(ret.Results) {
			return nil
		}
		rv := RetVal(ret, idx)
		if v != nil && rv != v {
			// a local returned by value from several places: every return reads the same variable
			if sameLocalLoad(v, rv) {
				continue
			}
			return nil
		}
		v = rv
	}
	return v
}

// sameLocalLoad: a and b are reads of one local variable of the function.
func sameLocalLoad(a, b ssa.Value) bool {
	la, ok1 := a.(*ssa.UnOp)
	lb, ok2 := b.(*ssa.UnOp)
	if !ok1 || !ok2 || la.Op != token.MUL || lb.Op != token.MUL || la.X != lb.X {
		return false
	}
	_, isAlloc := la.X.(*ssa.Alloc)
	return isAlloc
}


// returnValues: the values the returns of g yield for result idx.
func returnValues(g *ssa.Function, idx int) []ssa.Value {
	var out []ssa.Value
	for _, b := range g.Blocks {
		if b == g.Recover || len(b.Instrs) == 0 {
			continue
		}
		if ret, ok := b.Instrs[len(b.Instrs)-1].(*ssa.Return); ok && idx < len(ret.Results) {
			out = append(out, RetVals(ret, idx)...)
		}
	}
	return out
}

// ExpandedCallees lists the functions analysed as part of fn (directly or through another expanded callee).
func ExpandedCallees(fn *ssa.Function) []*ssa.Function {
	var out []*ssa.Function
	seen := map[*ssa.Function]bool{fn: true}
	var walk func(f *ssa.Function)
	walk = func(f *ssa.Function) {
		for _, b := range f.Blocks {
			for _, in := range b.Instrs {
				if c, ok := in.(*ssa.Call); ok {
					if g := expandedCallee(c); g != nil && !seen[g] {
						seen[g] = true
						out = append(out, g)
						walk(g)
					}
				}
			}
		}
		for _, a := range f.AnonFuncs {
			if !seen[a] {
				seen[a] = true
				walk(a)
			}
		}
	}
	walk(fn)
	return out
}


// ReturnsX lists the returns that end fn when the functions expanded into it
// are read as part of it: fn's own returns, except those that only hand on
// the results of an expanded call, plus that callee's returns (recursively).
func ReturnsX(fn *ssa.Function) []*ssa.Return {
	var out []*ssa.Return
	seen := map[*ssa.Function]bool{}
	var walk func(f *ssa.Function)
	walk = func(f *ssa.Function) {
		if seen[f] {
			return
		}
		seen[f] = true
		for _, b := range f.Blocks {
			if b == f.Recover || len(b.Instrs) == 0 {
				continue
			}
			ret, ok := b.Instrs[len(b.Instrs)-1].(*ssa.Return)
			if !ok {
				continue
			}
			var fwd *ssa.Function
			for _, rv := range ret.Results {
				var c *ssa.Call
				switch x := rv.(type) {
				case *ssa.Call:
					c = x
				case *ssa.Extract:
					c, _ = x.Tuple.(*ssa.Call)
				}
				if c != nil {
					if g := expandedCallee(c); g != nil && g.Signature.Results().Len() == len(ret.Results) {
						fwd = g
					}
				}
			}
			if fwd != nil {
				walk(fwd)
				continue
			}
			out = append(out, ret)
		}
	}
	walk(fn)
	return out
}
