package core

import (
	"fmt"
	"go/constant"
	"go/token"
	"go/types"

	"golang.org/x/tools/go/ssa"
)

// Integer difference constraints along a path.
//
// Besides equalities with constants a path records, for signed integer values,
// facts of the form a - b <= c: the outcomes of ordered comparisons, the
// definitions `z = x + c`, `z = x - c`, `z = x + n` with n a non-negative
// quantity (a length, a size), and the value a loop-carried variable has at
// the head of every iteration the path walks through. A comparison whose
// outcome contradicts these facts (a negative cycle in the constraint graph)
// is decided instead of split, so a path that is arithmetically impossible
// (`total > limit` just held, `total + size > limit` fails) is not enumerated.
// Integers are treated as mathematical integers (no wrap-around).

// ArithFacts switches the layer on.
var ArithFacts = true

// NonNegative tells which values are non-negative by what they are (sizes,
// lengths); set by the rule package. len and cap are always included.
var NonNegative func(v ssa.Value) bool

type dEdge struct {
	from, to string // value(to) - value(from) <= w
	w        int64
}

const zeroNode = "Z"

func signedInt(t types.Type) bool {
	b, ok := t.Underlying().(*types.Basic)
	return ok && b.Info()&types.IsInteger != 0 && b.Info()&types.IsUnsigned == 0
}

func anyInt(t types.Type) bool {
	b, ok := t.Underlying().(*types.Basic)
	return ok && b.Info()&types.IsInteger != 0
}

func (p *Path) addLE(a, b string, c int64) { // a - b <= c
	p.dc = append(p.dc, dEdge{from: b, to: a, w: c})
}

func (p *Path) addEQ(a, b string, c int64) { // a = b + c
	p.addLE(a, b, c)
	p.addLE(b, a, -c)
}

func nonNeg(v ssa.Value) bool {
	if c, ok := v.(*ssa.Call); ok {
		if b, isB := c.Call.Value.(*ssa.Builtin); isB && (b.Name() == "len" || b.Name() == "cap") {
			return true
		}
	}
	if cv, ok := v.(*ssa.Convert); ok {
		if b, isB := cv.X.Type().Underlying().(*types.Basic); isB && b.Info()&types.IsUnsigned != 0 && anyInt(cv.Type()) {
			// an unsigned quantity converted to a wider signed type
			if tb, isT := cv.Type().Underlying().(*types.Basic); isT && sizeofBasic(tb) > sizeofBasic(b) {
				return true
			}
		}
	}
	return NonNegative != nil && NonNegative(v)
}

func sizeofBasic(b *types.Basic) int {
	switch b.Kind() {
	case types.Int8, types.Uint8:
		return 1
	case types.Int16, types.Uint16:
		return 2
	case types.Int32, types.Uint32:
		return 4
	}
	return 8
}

// term returns the node of an integer value and records what its definition
// says about it.
func (p *Path) term(v ssa.Value, depth int) (string, bool) {
	v = p.resolve0(v)
	if !signedInt(v.Type()) {
		return "", false
	}
	k := p.canonOf(v)
	if p.dseen[k] || depth > 8 {
		return k, true
	}
	if p.dseen == nil {
		p.dseen = map[string]bool{}
	}
	p.dseen[k] = true
	constOf := func(x ssa.Value) (int64, bool) {
		c, ok := p.resolve0(x).(*ssa.Const)
		if !ok || c.Value == nil || c.Value.Kind() != constant.Int {
			return 0, false
		}
		n, exact := constant.Int64Val(c.Value)
		if !exact || n > 1<<40 || n < -(1<<40) {
			return 0, false
		}
		return n, true
	}
	if n, ok := constOf(v); ok {
		p.addEQ(k, zeroNode, n)
		return k, true
	}
	if _, isC := v.(*ssa.Const); isC {
		return k, true
	}
	if nonNeg(v) {
		p.addLE(zeroNode, k, 0)
	}
	switch x := v.(type) {
	case *ssa.BinOp:
		switch x.Op {
		case token.ADD:
			cy, yc := constOf(x.Y)
			cx, xc := constOf(x.X)
			switch {
			case yc:
				if kx, ok := p.term(x.X, depth+1); ok {
					p.addEQ(k, kx, cy)
				}
			case xc:
				if ky, ok := p.term(x.Y, depth+1); ok {
					p.addEQ(k, ky, cx)
				}
			default:
				kx, okx := p.term(x.X, depth+1)
				ky, oky := p.term(x.Y, depth+1)
				if okx && nonNeg(p.resolve0(x.Y)) {
					p.addLE(kx, k, 0)
				}
				if oky && nonNeg(p.resolve0(x.X)) {
					p.addLE(ky, k, 0)
				}
			}
		case token.SUB:
			if cy, yc := constOf(x.Y); yc {
				if kx, ok := p.term(x.X, depth+1); ok {
					p.addEQ(k, kx, -cy)
				}
			} else if kx, ok := p.term(x.X, depth+1); ok && nonNeg(p.resolve0(x.Y)) {
				p.addLE(k, kx, 0)
			}
		}
	case *ssa.Convert:
		// a conversion between signed integer types that cannot truncate
		if fb, ok := x.X.Type().Underlying().(*types.Basic); ok && signedInt(x.X.Type()) {
			if tb, ok := x.Type().Underlying().(*types.Basic); ok && sizeofBasic(tb) >= sizeofBasic(fb) {
				if kx, ok := p.term(x.X, depth+1); ok {
					p.addEQ(k, kx, 0)
				}
			}
		}
	}
	return k, true
}

// cmpEdges: the constraints that `b == val` adds; ok is false when that
// outcome is not a conjunction of difference constraints.
func (p *Path) cmpEdges(b *ssa.BinOp, val bool) ([]dEdge, bool) {
	op := b.Op
	switch op {
	case token.LSS, token.LEQ, token.GTR, token.GEQ, token.EQL, token.NEQ:
	default:
		return nil, false
	}
	kx, okx := p.term(b.X, 0)
	ky, oky := p.term(b.Y, 0)
	if !okx || !oky {
		return nil, false
	}
	if !val {
		switch op {
		case token.LSS:
			op = token.GEQ
		case token.LEQ:
			op = token.GTR
		case token.GTR:
			op = token.LEQ
		case token.GEQ:
			op = token.LSS
		case token.EQL:
			op = token.NEQ
		case token.NEQ:
			op = token.EQL
		}
	}
	le := func(a, b string, c int64) dEdge { return dEdge{from: b, to: a, w: c} } // a - b <= c
	switch op {
	case token.LSS:
		return []dEdge{le(kx, ky, -1)}, true
	case token.LEQ:
		return []dEdge{le(kx, ky, 0)}, true
	case token.GTR:
		return []dEdge{le(ky, kx, -1)}, true
	case token.GEQ:
		return []dEdge{le(ky, kx, 0)}, true
	case token.EQL:
		return []dEdge{le(kx, ky, 0), le(ky, kx, 0)}, true
	}
	return nil, false
}

// satisfiable: no negative cycle among the path's constraints plus extra.
func (p *Path) satisfiable(extra []dEdge) bool {
	id := map[string]int{}
	type e struct {
		f, t int
		w    int64
	}
	var es []e
	node := func(s string) int {
		n, ok := id[s]
		if !ok {
			n = len(id)
			id[s] = n
		}
		return n
	}
	for _, d := range p.dc {
		es = append(es, e{node(d.from), node(d.to), d.w})
	}
	for _, d := range extra {
		es = append(es, e{node(d.from), node(d.to), d.w})
	}
	dist := make([]int64, len(id))
	for i := 0; i <= len(id); i++ {
		changed := false
		for _, x := range es {
			if dist[x.f]+x.w < dist[x.t] {
				dist[x.t] = dist[x.f] + x.w
				changed = true
			}
		}
		if !changed {
			return true
		}
	}
	return false
}

// evalArith decides an integer comparison from the difference constraints.
func (p *Path) evalArith(b *ssa.BinOp) (val, ok bool) {
	if !ArithFacts || !signedInt(b.X.Type()) || !signedInt(b.Y.Type()) {
		return false, false
	}
	if t, expr := p.cmpEdges(b, true); expr && !p.satisfiable(t) {
		return false, true
	}
	if f, expr := p.cmpEdges(b, false); expr && !p.satisfiable(f) {
		return true, true
	}
	return false, false
}

// assumeArith records the outcome of an integer comparison.
func (p *Path) assumeArith(b *ssa.BinOp, val bool) {
	if !ArithFacts || !signedInt(b.X.Type()) || !signedInt(b.Y.Type()) {
		return
	}
	if es, ok := p.cmpEdges(b, val); ok {
		p.dc = append(p.dc, es...)
	}
}

// Entails reports whether the path's facts imply `x op y` for integer values.
func (p *Path) Entails(x ssa.Value, op token.Token, y ssa.Value) bool {
	kx, okx := p.term(x, 0)
	ky, oky := p.term(y, 0)
	if !okx || !oky {
		return false
	}
	le := func(a, b string, c int64) dEdge { return dEdge{from: b, to: a, w: c} }
	var neg []dEdge // the negation of the claim
	switch op {
	case token.LSS:
		neg = []dEdge{le(ky, kx, 0)}
	case token.LEQ:
		neg = []dEdge{le(ky, kx, -1)}
	case token.GTR:
		neg = []dEdge{le(kx, ky, 0)}
	case token.GEQ:
		neg = []dEdge{le(kx, ky, -1)}
	default:
		return false
	}
	return !p.satisfiable(neg)
}

// DumpArith lists the path's difference constraints (debugging aid).
func (p *Path) DumpArith() []string {
	var out []string
	for _, d := range p.dc {
		out = append(out, fmt.Sprintf("%s - %s <= %d", d.to, d.from, d.w))
	}
	return out
}
