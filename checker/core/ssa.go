package core

import (
	"go/constant"
	"go/token"
	"go/types"
	"strings"

	"golang.org/x/tools/go/ssa"
)

// ---------------------------------------------------------------- cells

// Cell resolves a value that denotes a variable cell (an Alloc, or a FreeVar
// bound to one through any number of closure levels) to the root Alloc.
func Cell(v ssa.Value) *ssa.Alloc {
	for i := 0; i < 16; i++ {
		switch x := v.(type) {
		case *ssa.Alloc:
			return x
		case *ssa.FreeVar:
			b := Binding(x)
			if b == nil {
				return nil
			}
			v = b
		default:
			return nil
		}
	}
	return nil
}

// Binding returns the value bound to a free variable at the MakeClosure that
// creates its function.
func Binding(fv *ssa.FreeVar) ssa.Value {
	fn := fv.Parent()
	par := fn.Parent()
	if par == nil {
		return nil
	}
	idx := -1
	for i, f := range fn.FreeVars {
		if f == fv {
			idx = i
		}
	}
	if idx < 0 {
		return nil
	}
	for _, b := range par.Blocks {
		for _, in := range b.Instrs {
			if mc, ok := in.(*ssa.MakeClosure); ok && mc.Fn == fn {
				return mc.Bindings[idx]
			}
		}
	}
	return nil
}

// aliases returns every value (the alloc itself and the free variables bound
// to it in closures, transitively) that denotes the cell.
func aliases(a *ssa.Alloc) []ssa.Value {
	out := []ssa.Value{a}
	for i := 0; i < len(out); i++ {
		refs := out[i].Referrers()
		if refs == nil {
			continue
		}
		for _, r := range *refs {
			if mc, ok := r.(*ssa.MakeClosure); ok {
				for j, bnd := range mc.Bindings {
					if bnd == out[i] {
						out = append(out, mc.Fn.(*ssa.Function).FreeVars[j])
					}
				}
			}
		}
	}
	return out
}

// CellStores returns all stores to a cell, in every function that sees it.
func CellStores(a *ssa.Alloc) []*ssa.Store {
	var out []*ssa.Store
	for _, al := range aliases(a) {
		if refs := al.Referrers(); refs != nil {
			for _, r := range *refs {
				if st, ok := r.(*ssa.Store); ok && st.Addr == al {
					out = append(out, st)
				}
			}
		}
	}
	return out
}

// CellLoads returns all loads of a cell.
func CellLoads(a *ssa.Alloc) []*ssa.UnOp {
	var out []*ssa.UnOp
	for _, al := range aliases(a) {
		if refs := al.Referrers(); refs != nil {
			for _, r := range *refs {
				if u, ok := r.(*ssa.UnOp); ok && u.Op == token.MUL && u.X == al {
					out = append(out, u)
				}
			}
		}
	}
	return out
}

// NamedCell finds the cell (Alloc) of a named local variable of fn.
func NamedCell(fn *ssa.Function, name string) *ssa.Alloc {
	for _, b := range fn.Blocks {
		for _, in := range b.Instrs {
			if a, ok := in.(*ssa.Alloc); ok && a.Comment == name {
				return a
			}
		}
	}
	for _, l := range fn.Locals {
		if l.Comment == name {
			return l
		}
	}
	return nil
}

// ---------------------------------------------------------------- calls

// Site is one call instruction with its resolved callee.
type Site struct {
	Instr  ssa.CallInstruction
	Fn     *ssa.Function // enclosing function
	Callee *ssa.Function // static callee or single closure stored in a cell; nil for interface/dynamic calls
	Name   string        // short qualified callee name; "iface:<pkg>.<Iface>.<Method>" for interface calls; "builtin.<name>"; "dynamic"
	Method string        // bare function/method name
}

func (s Site) Common() *ssa.CallCommon { return s.Instr.Common() }
func (s Site) Pos() token.Pos {
	if p := s.Instr.Pos(); p.IsValid() {
		return p
	}
	return s.Common().Pos()
}

// Args returns the arguments without the receiver.
func (s Site) Args() []ssa.Value {
	c := s.Common()
	if c.IsInvoke() {
		return c.Args
	}
	if s.Callee != nil && s.Callee.Signature.Recv() != nil && len(c.Args) > 0 {
		return c.Args[1:]
	}
	if s.Callee == nil {
		if f, ok := c.Value.(*ssa.Function); ok && f.Signature.Recv() != nil && len(c.Args) > 0 {
			return c.Args[1:]
		}
	}
	return c.Args
}

// Recv returns the receiver value of a method call (nil for functions).
func (s Site) Recv() ssa.Value {
	c := s.Common()
	if c.IsInvoke() {
		return c.Value
	}
	if s.Callee != nil && s.Callee.Signature.Recv() != nil && len(c.Args) > 0 {
		return c.Args[0]
	}
	return nil
}

// Value returns the call's result value (nil for go/defer).
func (s Site) Value() ssa.Value {
	if c, ok := s.Instr.(*ssa.Call); ok {
		return c
	}
	return nil
}

// ResolveCall describes a call instruction.
func ResolveCall(ci ssa.CallInstruction) Site {
	c := ci.Common()
	s := Site{Instr: ci, Fn: ci.Parent()}
	if c.IsInvoke() {
		s.Method = c.Method.Name()
		s.Name = "iface:" + Short(types.TypeString(c.Value.Type(), nil)) + "." + s.Method
		return s
	}
	if f := c.StaticCallee(); f != nil {
		s.Callee = f
		if o := f.Origin(); o != nil {
			s.Name = FuncName(o)
		} else {
			s.Name = FuncName(f)
		}
		s.Method = f.Name()
		return s
	}
	switch v := c.Value.(type) {
	case *ssa.Builtin:
		s.Name = "builtin." + v.Name()
		s.Method = v.Name()
		return s
	case *ssa.UnOp:
		if v.Op == token.MUL {
			if cell := Cell(v.X); cell != nil {
				var fns []*ssa.Function
				other := false
				for _, st := range CellStores(cell) {
					switch x := st.Val.(type) {
					case *ssa.MakeClosure:
						fns = append(fns, x.Fn.(*ssa.Function))
					case *ssa.Function:
						fns = append(fns, x)
					default:
						other = true
					}
				}
				if len(fns) == 1 && !other {
					s.Callee = fns[0]
					s.Name = FuncName(fns[0])
					s.Method = fns[0].Name()
					return s
				}
			}
		}
	case *ssa.MakeClosure:
		s.Callee = v.Fn.(*ssa.Function)
		s.Name = FuncName(s.Callee)
		s.Method = s.Callee.Name()
		return s
	}
	s.Name = "dynamic"
	return s
}

// Sites lists the call instructions of fn, and of its closures when deep.
func Sites(fn *ssa.Function, deep bool) []Site {
	var out []Site
	seen := map[*ssa.Function]bool{}
	var walk func(f *ssa.Function)
	walk = func(f *ssa.Function) {
		if seen[f] {
			return
		}
		for _, in := range instrsX(f, seen) {
			if ci, ok := in.(ssa.CallInstruction); ok {
				out = append(out, ResolveCall(ci))
			}
		}
		if deep {
			for _, a := range f.AnonFuncs {
				walk(a)
			}
		}
	}
	if fn != nil {
		walk(fn)
	}
	return out
}

// SitesNamed filters Sites by callee name (exact short name, or suffix match
// when pattern starts with "*").
func SitesNamed(fn *ssa.Function, deep bool, patterns ...string) []Site {
	var out []Site
	for _, s := range Sites(fn, deep) {
		if MatchName(s.Name, patterns...) {
			out = append(out, s)
		}
	}
	return out
}

func MatchName(name string, patterns ...string) bool {
	for _, p := range patterns {
		if strings.HasPrefix(p, "*") {
			if strings.HasSuffix(name, p[1:]) {
				return true
			}
		} else if name == p {
			return true
		}
	}
	return false
}

// Instrs lists all instructions of fn in block order.
func Instrs(fn *ssa.Function) []ssa.Instruction {
	return instrsX(fn, map[*ssa.Function]bool{})
}

// OwnInstrs is Instrs without the instructions of expanded callees.
func OwnInstrs(fn *ssa.Function) []ssa.Instruction {
	var out []ssa.Instruction
	for _, b := range fn.Blocks {
		if b == fn.Recover {
			continue
		}
		out = append(out, b.Instrs...)
	}
	return out
}

func instrsX(fn *ssa.Function, seen map[*ssa.Function]bool) []ssa.Instruction {
	seen[fn] = true
	var out []ssa.Instruction
	for _, b := range fn.Blocks {
		if b == fn.Recover {
			// synthetic: where a recovered panic resumes (loads the named results and returns);
			// no source statement corresponds to it
			continue
		}
		for _, in := range b.Instrs {
			out = append(out, in)
			if c, ok := in.(*ssa.Call); ok {
				if g := expandedCallee(c); g != nil && !seen[g] {
					// the callee's returns are not returns of fn: they continue after the call
					for _, gi := range instrsX(g, seen) {
						if _, isRet := gi.(*ssa.Return); !isRet {
							out = append(out, gi)
						}
					}
				}
			}
		}
	}
	return out
}

// DeepFuncs returns fn and all closures nested in it.
func DeepFuncs(fn *ssa.Function) []*ssa.Function {
	out := []*ssa.Function{fn}
	for i := 0; i < len(out); i++ {
		out = append(out, out[i].AnonFuncs...)
	}
	return out
}

// ---------------------------------------------------------------- constants

// Unwrap strips conversions and interface boxing.
func Unwrap(v ssa.Value) ssa.Value {
	for {
		switch x := v.(type) {
		case *ssa.MakeInterface:
			v = x.X
		case *ssa.ChangeType:
			v = x.X
		case *ssa.Convert:
			v = x.X
		case *ssa.ChangeInterface:
			v = x.X
		case *ssa.Parameter:
			// a parameter of an expanded callee stands for the argument of its only call
			site := ExpandedInto(x.Parent())
			if site == nil {
				return v
			}
			idx := -1
			for i, p := range x.Parent().Params {
				if p == x {
					idx = i
				}
			}
			if idx < 0 || idx >= len(site.Call.Args) {
				return v
			}
			v = site.Call.Args[idx]
		case *ssa.Call:
			g := expandedCallee(x)
			if g == nil || g.Signature.Results().Len() != 1 {
				return v
			}
			rv := singleReturn(g, 0)
			if rv == nil {
				return v
			}
			v = rv
		case *ssa.Extract:
			c, ok := x.Tuple.(*ssa.Call)
			if !ok {
				return v
			}
			g := expandedCallee(c)
			if g == nil {
				return v
			}
			rv := singleReturn(g, x.Index)
			if rv == nil {
				return v
			}
			v = rv
		default:
			return v
		}
	}
}

func ConstString(v ssa.Value) (string, bool) {
	if c, ok := Unwrap(v).(*ssa.Const); ok && c.Value != nil && c.Value.Kind() == constant.String {
		return constant.StringVal(c.Value), true
	}
	return "", false
}

func ConstInt(v ssa.Value) (int64, bool) {
	if c, ok := Unwrap(v).(*ssa.Const); ok && c.Value != nil && c.Value.Kind() == constant.Int {
		if i, ok := constant.Int64Val(c.Value); ok {
			return i, true
		}
		if u, ok := constant.Uint64Val(c.Value); ok {
			return int64(u), true
		}
	}
	return 0, false
}

func ConstBool(v ssa.Value) (bool, bool) {
	if c, ok := Unwrap(v).(*ssa.Const); ok && c.Value != nil && c.Value.Kind() == constant.Bool {
		return constant.BoolVal(c.Value), true
	}
	return false, false
}

func IsNilConst(v ssa.Value) bool {
	c, ok := v.(*ssa.Const)
	return ok && c.Value == nil
}

// VariadicElems recovers the elements of a variadic argument packed by the
// compiler as `slice(new [N]T)` with one store per index.
func VariadicElems(v ssa.Value) ([]ssa.Value, bool) {
	if c, ok := v.(*ssa.Const); ok && c.Value == nil {
		return nil, true // no variadic arguments
	}
	sl, ok := v.(*ssa.Slice)
	if !ok {
		return nil, false
	}
	al, ok := sl.X.(*ssa.Alloc)
	if !ok {
		return nil, false
	}
	arr, ok := al.Type().Underlying().(*types.Pointer).Elem().Underlying().(*types.Array)
	if !ok {
		return nil, false
	}
	out := make([]ssa.Value, arr.Len())
	for _, r := range *al.Referrers() {
		ia, ok := r.(*ssa.IndexAddr)
		if !ok {
			continue
		}
		i, ok := ConstInt(ia.Index)
		if !ok || i < 0 || i >= arr.Len() {
			return nil, false
		}
		for _, rr := range *ia.Referrers() {
			if st, ok := rr.(*ssa.Store); ok && st.Addr == ia {
				out[i] = st.Val
			}
		}
	}
	for _, e := range out {
		if e == nil {
			return nil, false
		}
	}
	return out, true
}

// CmdName returns the constant command name of a `Put/Do/Send(cmd, args...)`
// style call (first non-receiver argument), lower-cased.
func CmdName(s Site) (string, bool) {
	a := s.Args()
	if len(a) == 0 {
		return "", false
	}
	str, ok := ConstString(a[0])
	return strings.ToLower(str), ok
}

// CmdArgs returns the variadic arguments after the command name.
func CmdArgs(s Site) ([]ssa.Value, bool) {
	a := s.Args()
	if len(a) < 2 {
		return nil, len(a) == 1
	}
	return VariadicElems(a[len(a)-1])
}

// ---------------------------------------------------------------- dominance and paths

func instrIndex(in ssa.Instruction) int {
	for i, x := range in.Block().Instrs {
		if x == in {
			return i
		}
	}
	return -1
}

// Dominates reports whether a executes before b on every path reaching b
// (same function).
func Dominates(a, b ssa.Instruction) bool {
	if a.Parent() != b.Parent() {
		// one of them may run inside an expanded callee of the other's function
		if la, always, ok := liftTo(a, b.Parent()); ok {
			return always && la != b && Dominates(la, b)
		}
		if lb, _, ok := liftTo(b, a.Parent()); ok {
			return a == lb || Dominates(a, lb)
		}
		// or both inside expanded callees of a common caller
		for up := ExpandedInto(a.Parent()); up != nil; up = ExpandedInto(up.Parent()) {
			if lb, _, ok := liftTo(b, up.Parent()); ok {
				la, always, _ := liftTo(a, up.Parent())
				return la != nil && always && la != lb && Dominates(la, lb)
			}
		}
		return false
	}
	if a.Block() == b.Block() {
		return instrIndex(a) < instrIndex(b)
	}
	return a.Block().Dominates(b.Block())
}

// PathFrom searches a path that starts right after `from` (or at the function
// entry when from is nil) and reaches an instruction satisfying target
// without executing one satisfying blocker. It returns the target found.
func PathFrom(fn *ssa.Function, from ssa.Instruction, target, blocker func(ssa.Instruction) bool) ssa.Instruction {
	if len(fn.Blocks) == 0 {
		return nil
	}
	type start struct {
		b *ssa.BasicBlock
		i int
	}
	seen := map[*ssa.BasicBlock]bool{}
	var work []start
	if from == nil {
		work = append(work, start{fn.Blocks[0], 0})
		seen[fn.Blocks[0]] = true
	} else {
		work = append(work, start{from.Block(), instrIndex(from) + 1})
	}
	for len(work) > 0 {
		s := work[len(work)-1]
		work = work[:len(work)-1]
		blocked := false
		for i := s.i; i < len(s.b.Instrs); i++ {
			in := s.b.Instrs[i]
			if target != nil && target(in) {
				return in
			}
			if blocker != nil && blocker(in) {
				blocked = true
				break
			}
		}
		if blocked {
			continue
		}
		for _, nx := range s.b.Succs {
			if !seen[nx] {
				seen[nx] = true
				work = append(work, start{nx, 0})
			}
		}
	}
	return nil
}

// PathFromBlock is PathFrom starting at the first instruction of block b.
func PathFromBlock(b *ssa.BasicBlock, target, blocker func(ssa.Instruction) bool) ssa.Instruction {
	seen := map[*ssa.BasicBlock]bool{b: true}
	work := []*ssa.BasicBlock{b}
	for len(work) > 0 {
		c := work[len(work)-1]
		work = work[:len(work)-1]
		blocked := false
		for _, in := range c.Instrs {
			if target != nil && target(in) {
				return in
			}
			if blocker != nil && blocker(in) {
				blocked = true
				break
			}
		}
		if blocked {
			continue
		}
		for _, nx := range c.Succs {
			if !seen[nx] {
				seen[nx] = true
				work = append(work, nx)
			}
		}
	}
	return nil
}

// MustPass reports whether every path from the function entry to target
// executes an instruction satisfying through first.
func MustPass(fn *ssa.Function, target ssa.Instruction, through func(ssa.Instruction) bool) bool {
	return PathFrom(fn, nil, func(in ssa.Instruction) bool { return in == target }, through) == nil
}

// Is builds an instruction predicate for one instruction.
func Is(x ssa.Instruction) func(ssa.Instruction) bool {
	return func(in ssa.Instruction) bool { return in == x }
}

// IsExit matches instructions that leave the function.
func IsExit(in ssa.Instruction) bool {
	switch in.(type) {
	case *ssa.Return, *ssa.Panic:
		return true
	}
	return false
}

// ---------------------------------------------------------------- branch facts

// Fact is a branch condition known to hold at a program point.
type Fact struct {
	Cond ssa.Value
	Val  bool
	If   *ssa.If
	Res  ssa.Value // on a path: the condition with the phis of the blocks walked through resolved at the time of the branch
	X, Y ssa.Value // on a path, for a comparison: its operands as they resolved at the time of the branch
}

// FactCmp reads a fact as a comparison (see AsCmp), looking through a boolean
// variable that the path had already resolved when it branched on it.
func FactCmp(f Fact) (Cmp, bool) {
	if f.Res != nil {
		if c, ok := AsCmp(f.Res, f.Val); ok {
			if f.X != nil && f.Y != nil {
				c.X, c.Y = f.X, f.Y
			}
			return c, true
		}
	}
	return AsCmp(f.Cond, f.Val)
}

// FactsAt returns the branch conditions that hold whenever block b executes:
// for every dominating `if`, the outcome whose successor is entered only from
// that `if` and dominates b.
func FactsAt(b *ssa.BasicBlock) []Fact {
	var out []Fact
	for d := b.Idom(); d != nil; d = d.Idom() {
		if len(d.Instrs) == 0 {
			continue
		}
		iff, ok := d.Instrs[len(d.Instrs)-1].(*ssa.If)
		if !ok || d.Succs[0] == d.Succs[1] {
			continue
		}
		for k, s := range d.Succs {
			if len(s.Preds) == 1 && (s == b || s.Dominates(b)) {
				out = append(out, Fact{Cond: iff.Cond, Val: k == 0, If: iff})
			}
		}
	}
	// a block of an expanded callee also runs under whatever holds at its only call
	if site := ExpandedInto(b.Parent()); site != nil {
		out = append(out, FactsAt(site.Block())...)
	}
	return derivePhiFacts(out, 0)
}

// derivePhiFacts: a boolean held in a local (`ok := a && b`, `skip := x || y`)
// is a phi of constants and one computed operand. Knowing the phi's value
// rules the constant edges in or out; when exactly one edge can have produced
// the value, that operand has the value too, and whatever holds on that edge
// holds here.
func derivePhiFacts(facts []Fact, depth int) []Fact {
	if depth > 3 {
		return facts
	}
	out := facts
	for _, f := range facts {
		ph, ok := f.Cond.(*ssa.Phi)
		if !ok {
			continue
		}
		var cand []int
		for i, e := range ph.Edges {
			if c, isC := ConstBool(e); isC {
				if c == f.Val {
					cand = append(cand, i)
				}
				continue
			}
			cand = append(cand, i)
		}
		if len(cand) != 1 {
			continue
		}
		e := ph.Edges[cand[0]]
		if _, isC := ConstBool(e); isC {
			continue
		}
		extra := []Fact{{Cond: e, Val: f.Val, If: f.If}}
		extra = append(extra, FactsAt(ph.Block().Preds[cand[0]])...)
		// the predecessor itself may end in the branch that led here
		pred := ph.Block().Preds[cand[0]]
		if iff, isIf := pred.Instrs[len(pred.Instrs)-1].(*ssa.If); isIf && pred.Succs[0] != pred.Succs[1] {
			extra = append(extra, Fact{Cond: iff.Cond, Val: pred.Succs[0] == ph.Block(), If: iff})
		}
		out = append(out, derivePhiFacts(extra, depth+1)...)
	}
	return out
}

// Cmp is a decomposed comparison.
type Cmp struct {
	Op   token.Token
	X, Y ssa.Value
}

// AsCmp decomposes a boolean value into a comparison, folding negations and
// the truth value wanted: AsCmp(v, false) gives the comparison that holds
// when v is false.
func AsCmp(v ssa.Value, val bool) (Cmp, bool) {
	for {
		if u, ok := v.(*ssa.UnOp); ok && u.Op == token.NOT {
			v = u.X
			val = !val
			continue
		}
		break
	}
	b, ok := v.(*ssa.BinOp)
	if !ok {
		return Cmp{}, false
	}
	op := b.Op
	switch op {
	case token.EQL, token.NEQ, token.LSS, token.LEQ, token.GTR, token.GEQ:
	default:
		return Cmp{}, false
	}
	if !val {
		op = map[token.Token]token.Token{token.EQL: token.NEQ, token.NEQ: token.EQL, token.LSS: token.GEQ,
			token.GEQ: token.LSS, token.GTR: token.LEQ, token.LEQ: token.GTR}[op]
	}
	return Cmp{Op: op, X: b.X, Y: b.Y}, true
}

// NilFact reports whether the facts at b include `v == nil` (want=true) or
// `v != nil` (want=false) for a value satisfying isV.
func NilFact(b *ssa.BasicBlock, isV func(ssa.Value) bool, wantNil bool) bool {
	for _, f := range FactsAt(b) {
		c, ok := AsCmp(f.Cond, f.Val)
		if !ok {
			continue
		}
		var other ssa.Value
		if IsNilConst(c.Y) {
			other = c.X
		} else if IsNilConst(c.X) {
			other = c.Y
		} else {
			continue
		}
		if !isV(other) {
			continue
		}
		if (c.Op == token.EQL) == wantNil && (c.Op == token.EQL || c.Op == token.NEQ) {
			return true
		}
	}
	return false
}

// ErrOf returns a predicate matching the error result of a call value
// (the call itself for single results, or the Extract of the last component),
// looking through loads of cells the result was stored in.
func ErrOf(call ssa.Value) func(ssa.Value) bool {
	return func(v ssa.Value) bool {
		seen := map[ssa.Value]bool{}
		var rec func(v ssa.Value) bool
		rec = func(v ssa.Value) bool {
			if seen[v] {
				return false
			}
			seen[v] = true
			switch x := v.(type) {
			case *ssa.Call:
				return x == call
			case *ssa.Extract:
				return x.Tuple == call
			case *ssa.Phi:
				for _, e := range x.Edges {
					if rec(e) {
						return true
					}
				}
			case *ssa.UnOp:
				if x.Op == token.MUL {
					if a, ok := x.X.(*ssa.Alloc); ok {
						// flow-sensitive: only the stores that reach this load
						for _, st := range ReachingStores(x) {
							if rec(st.Val) {
								return true
							}
						}
						_ = a
						return false
					}
					if c := Cell(x.X); c != nil {
						for _, st := range CellStores(c) {
							if rec(st.Val) {
								return true
							}
						}
					}
				}
			}
			return false
		}
		return rec(v)
	}
}

// OnSuccessOf reports whether block b executes only when the error result of
// call was tested and found nil.
func OnSuccessOf(b *ssa.BasicBlock, call ssa.Value) bool {
	return NilFact(b, ErrOf(call), true)
}

// ---------------------------------------------------------------- provenance

// Walk visits v and everything it is computed from (backward slice over
// operands, phis, loads of local cells and of fields of local structs).
// visit returns false to stop descending below a value.
func Walk(v ssa.Value, visit func(ssa.Value) bool) {
	seen := map[ssa.Value]bool{}
	var rec func(v ssa.Value)
	rec = func(v ssa.Value) {
		if v == nil || seen[v] {
			return
		}
		seen[v] = true
		if !visit(v) {
			return
		}
		switch x := v.(type) {
		case *ssa.Phi:
			for _, e := range x.Edges {
				rec(e)
			}
		case *ssa.UnOp:
			if x.Op == token.MUL {
				if c := Cell(x.X); c != nil {
					rec(c) // whole-cell stores and stores into its fields / elements
					return
				}
				// field / element of a local aggregate: follow the stores to the same path
				if fa, ok := x.X.(*ssa.FieldAddr); ok {
					if c := Cell(fa.X); c != nil {
						for _, al := range aliases(c) {
							if refs := al.Referrers(); refs != nil {
								for _, r := range *refs {
									if fa2, ok := r.(*ssa.FieldAddr); ok && fa2.Field == fa.Field {
										for _, rr := range *fa2.Referrers() {
											if st, ok := rr.(*ssa.Store); ok && st.Addr == fa2 {
												rec(st.Val)
											}
										}
									}
								}
							}
							// whole-struct stores
						}
						for _, st := range CellStores(c) {
							rec(st.Val)
						}
						return
					}
				}
			}
			rec(x.X)
		case *ssa.BinOp:
			rec(x.X)
			rec(x.Y)
		case *ssa.Convert:
			rec(x.X)
		case *ssa.ChangeType:
			rec(x.X)
		case *ssa.ChangeInterface:
			rec(x.X)
		case *ssa.MakeInterface:
			rec(x.X)
		case *ssa.TypeAssert:
			rec(x.X)
		case *ssa.Slice:
			rec(x.X)
			rec(x.Low)
			rec(x.High)
		case *ssa.Field:
			rec(x.X)
		case *ssa.FieldAddr:
			rec(x.X)
		case *ssa.IndexAddr:
			rec(x.X)
			rec(x.Index)
		case *ssa.Index:
			rec(x.X)
			rec(x.Index)
		case *ssa.Lookup:
			rec(x.X)
			rec(x.Index)
		case *ssa.Extract:
			rec(x.Tuple)
			// a result of an expanded callee: whatever any of its returns yields there
			if c, ok := x.Tuple.(*ssa.Call); ok {
				if g := expandedCallee(c); g != nil {
					for _, rv := range returnValues(g, x.Index) {
						rec(rv)
					}
				}
			}
		case *ssa.MakeSlice:
			// a slice filled in place: whatever is stored into its elements
			if refs := x.Referrers(); refs != nil {
				for _, r := range *refs {
					if ia, ok := r.(*ssa.IndexAddr); ok && ia.X == ssa.Value(x) {
						for _, rr := range *ia.Referrers() {
							if st, ok := rr.(*ssa.Store); ok && st.Addr == ssa.Value(ia) {
								rec(st.Val)
							}
						}
					}
				}
			}
		case *ssa.FreeVar:
			if b := Binding(x); b != nil {
				rec(b)
			}
		case *ssa.Parameter:
			// a parameter of an expanded callee stands for the argument of its only call
			if u := Unwrap(x); u != ssa.Value(x) {
				rec(u)
			}
		case *ssa.Alloc:
			// address of a local aggregate: everything stored into it or its parts
			for _, al := range aliases(x) {
				refs := al.Referrers()
				if refs == nil {
					continue
				}
				for _, r := range *refs {
					switch y := r.(type) {
					case *ssa.Store:
						if y.Addr == al {
							rec(y.Val)
						}
					case *ssa.IndexAddr:
						for _, rr := range *y.Referrers() {
							if st, ok := rr.(*ssa.Store); ok && st.Addr == y {
								rec(st.Val)
							}
						}
					case *ssa.FieldAddr:
						for _, rr := range *y.Referrers() {
							if st, ok := rr.(*ssa.Store); ok && st.Addr == y {
								rec(st.Val)
							}
						}
					}
				}
			}
		case *ssa.Call:
			if b, ok := x.Call.Value.(*ssa.Builtin); ok && (b.Name() == "append") {
				for _, a := range x.Call.Args {
					rec(a)
				}
			}
			// the call of an expanded callee stands for what the callee returns
			if g := expandedCallee(x); g != nil && g.Signature.Results().Len() == 1 {
				for _, rv := range returnValues(g, 0) {
					rec(rv)
				}
			}
		}
	}
	rec(v)
}

// DependsOn reports whether v is computed from a value satisfying pred.
func DependsOn(v ssa.Value, pred func(ssa.Value) bool) bool {
	found := false
	Walk(v, func(x ssa.Value) bool {
		if found {
			return false
		}
		if pred(x) {
			found = true
			return false
		}
		return true
	})
	return found
}

// Leaves returns the leaf values v is computed from (parameters, call
// results, constants, globals, field loads of non-local objects).
func Leaves(v ssa.Value) []ssa.Value {
	var out []ssa.Value
	Walk(v, func(x ssa.Value) bool {
		if c, ok := x.(*ssa.Call); ok {
			if b, ok := c.Call.Value.(*ssa.Builtin); ok && b.Name() == "append" {
				return true
			}
		}
		// a parameter or the call of an expanded callee is not a leaf: it stands for the argument / the returned value
		if par, ok := x.(*ssa.Parameter); ok && Unwrap(par) != ssa.Value(par) {
			return true
		}
		if c, ok := x.(*ssa.Call); ok && expandedCallee(c) != nil && c.Call.Signature().Results().Len() == 1 {
			return true
		}
		switch x.(type) {
		case *ssa.MakeSlice:
			out = append(out, x)
			return true // and whatever is stored into its elements
		case *ssa.Parameter, *ssa.Call, *ssa.Const, *ssa.Global, *ssa.Function, *ssa.MakeClosure, *ssa.Next, *ssa.Range,
			*ssa.MakeMap, *ssa.MakeChan, *ssa.Select:
			out = append(out, x)
			return false
		}
		return true
	})
	return out
}

// FieldName returns the selected field name of a FieldAddr or Field.
func FieldName(v ssa.Value) string {
	switch x := v.(type) {
	case *ssa.FieldAddr:
		st, ok := deref(x.X.Type()).Underlying().(*types.Struct)
		if ok {
			return st.Field(x.Field).Name()
		}
	case *ssa.Field:
		st, ok := x.X.Type().Underlying().(*types.Struct)
		if ok {
			return st.Field(x.Field).Name()
		}
	}
	return ""
}

func deref(t types.Type) types.Type {
	if p, ok := t.Underlying().(*types.Pointer); ok {
		return p.Elem()
	}
	return t
}

// IsFieldLoad reports whether v reads field `name` (directly or via load of a
// field address) of an object whose type's short name ends with typ.
func IsFieldLoad(v ssa.Value, typ, name string) bool {
	var base ssa.Value
	switch x := v.(type) {
	case *ssa.UnOp:
		if x.Op != token.MUL {
			return false
		}
		fa, ok := x.X.(*ssa.FieldAddr)
		if !ok || FieldName(fa) != name {
			return false
		}
		base = fa.X
	case *ssa.Field:
		if FieldName(x) != name {
			return false
		}
		base = x.X
	case *ssa.FieldAddr:
		if FieldName(x) != name {
			return false
		}
		base = x.X
	default:
		return false
	}
	return typ == "" || strings.HasSuffix(Short(types.TypeString(deref(base.Type()), nil)), typ)
}

// TypeName is the short name of a value's type with pointers removed.
func TypeName(t types.Type) string {
	return Short(types.TypeString(deref(t), nil))
}

// RetVals returns the values a Return can yield for result idx. Functions
// with a defer keep results in a local cell (`*t = v; rundefers; r = *t;
// return r`): the value is then the last store to the cell in the returning
// block, or every store to the cell when the block has none.
func RetVals(ret *ssa.Return, idx int) []ssa.Value {
	if idx >= len(ret.Results) {
		return nil
	}
	v := ret.Results[idx]
	u, ok := v.(*ssa.UnOp)
	if !ok || u.Op != token.MUL {
		return []ssa.Value{v}
	}
	a, ok := u.X.(*ssa.Alloc)
	if !ok {
		return []ssa.Value{v}
	}
	b := ret.Block()
	var last ssa.Value
	for _, in := range b.Instrs {
		if in == ssa.Instruction(u) {
			break
		}
		if st, ok := in.(*ssa.Store); ok && st.Addr == ssa.Value(a) {
			last = st.Val
		}
	}
	if last != nil {
		return FlowVals(last)
	}
	return FlowVals(u)
}

// FlowVals resolves loads of local cells flow-sensitively: a load is replaced
// by the values of the stores that reach it (recursively). A load no store
// reaches (zero value, or a cell only written through its address) yields
// nothing.
func FlowVals(v ssa.Value) []ssa.Value {
	var out []ssa.Value
	seen := map[ssa.Value]bool{}
	var rec func(v ssa.Value)
	rec = func(v ssa.Value) {
		if seen[v] {
			return
		}
		seen[v] = true
		if u, ok := v.(*ssa.UnOp); ok && u.Op == token.MUL {
			if a, ok := u.X.(*ssa.Alloc); ok && a.Comment != "complit" {
				for _, st := range ReachingStores(u) {
					rec(st.Val)
				}
				return
			}
		}
		out = append(out, v)
	}
	rec(v)
	return out
}

// ReachingStores returns the stores to a local cell (in the load's own
// function) that can reach the load without an intervening store to the
// same cell.
func ReachingStores(load *ssa.UnOp) []*ssa.Store {
	a, ok := load.X.(*ssa.Alloc)
	if !ok {
		return nil
	}
	fn := load.Parent()
	var stores []*ssa.Store
	for _, st := range CellStores(a) {
		if st.Parent() == fn {
			stores = append(stores, st)
		}
	}
	isOther := func(self *ssa.Store) func(ssa.Instruction) bool {
		return func(in ssa.Instruction) bool {
			st, ok := in.(*ssa.Store)
			return ok && st != self && st.Addr == ssa.Value(a)
		}
	}
	var out []*ssa.Store
	for _, st := range stores {
		if PathFrom(fn, st, Is(load), isOther(st)) != nil {
			out = append(out, st)
		}
	}
	return out
}

// DependsOnDeep is DependsOn that also looks through calls (receiver and
// arguments of any call the value is computed by).
func DependsOnDeep(v ssa.Value, pred func(ssa.Value) bool) bool {
	found := false
	seen := map[ssa.Value]bool{}
	var rec func(v ssa.Value)
	rec = func(v ssa.Value) {
		if found || v == nil || seen[v] {
			return
		}
		Walk(v, func(x ssa.Value) bool {
			if found {
				return false
			}
			if pred(x) {
				found = true
				return false
			}
			if seen[x] && x != v {
				return false
			}
			seen[x] = true
			if c, ok := x.(*ssa.Call); ok {
				if !c.Call.IsInvoke() {
					if _, isB := c.Call.Value.(*ssa.Builtin); !isB {
						rec2 := c.Call.Value
						if _, isF := rec2.(*ssa.Function); !isF {
							rec(rec2)
						}
					}
				} else {
					rec(c.Call.Value)
				}
				for _, a := range c.Call.Args {
					rec(a)
				}
			}
			return true
		})
	}
	rec(v)
	return found
}

// HoldsInto reports whether ok(facts) is true on every way of reaching block
// b: either the facts dominating b satisfy it, or — when b (or a dominator) is
// a join — every incoming edge does, the branch taken on that edge included.
// This reads the `a || b` guards the compiler lowers to two edges into one
// block.
func HoldsInto(b *ssa.BasicBlock, ok func([]Fact) bool) bool {
	return holdsInto(b, ok, 0)
}

func holdsInto(b *ssa.BasicBlock, ok func([]Fact) bool, depth int) bool {
	if depth > 6 {
		return false
	}
	for d := b; d != nil; d = d.Idom() {
		if ok(FactsAt(d)) {
			return true
		}
		if len(d.Preds) > 1 {
			all := true
			for _, pr := range d.Preds {
				fs := FactsAt(pr)
				if len(pr.Instrs) > 0 {
					if iff, isIf := pr.Instrs[len(pr.Instrs)-1].(*ssa.If); isIf && pr.Succs[0] != pr.Succs[1] {
						fs = append(fs, Fact{Cond: iff.Cond, Val: pr.Succs[0] == d, If: iff})
					}
				}
				if !ok(fs) && !holdsInto(pr, ok, depth+1) {
					all = false
				}
			}
			if all {
				return true
			}
		}
	}
	return false
}

// RetVal is the value a return statement yields for result idx, looking
// through the spill that go/ssa inserts when the function defers something
// (store to the result cell, run defers, load, return). When several values
// can reach the return (a named result assigned on different paths) the raw
// operand is returned; use RetVals or a path for those.
func RetVal(ret *ssa.Return, idx int) ssa.Value {
	if idx >= len(ret.Results) {
		return nil
	}
	vs := RetVals(ret, idx)
	if len(vs) == 1 {
		return vs[0]
	}
	return ret.Results[idx]
}

// Aliases returns the alloc and every free variable bound to it (through any number of closure levels).
func Aliases(a *ssa.Alloc) []ssa.Value { return aliases(a) }
