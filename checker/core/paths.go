package core

import (
	"fmt"
	"go/constant"
	"go/token"
	"go/types"
	"strings"

	"golang.org/x/tools/go/ssa"
)

// Path is one acyclic path through a function's CFG with the phis of the
// visited blocks resolved by the edge taken and the branch outcomes assumed
// or derived along the way. Infeasible combinations of constant-assigned
// flags and repeated comparisons of one value with constants are pruned; this
// is the only path sensitivity used.
type Path struct {
	stop   func(ssa.Value) bool // see ResolvesTo
	Blocks []*ssa.BasicBlock
	Instrs []ssa.Instruction
	Conds  []Fact
	End    ssa.Instruction // Return/Panic, or the jump that closed a cycle back to the start block
	Closed bool            // ended by returning to the start block (loop back edge)

	phi   map[*ssa.Phi]ssa.Value
	sub   map[ssa.Value]ssa.Value   // parameters / captured variables of inlined callees -> the caller's values
	rets  map[*ssa.Call][]ssa.Value // inlined calls -> the values the callee returned on this path
	inl   map[*ssa.Function]bool    // callees already stepped into on this path
	enter map[*ssa.BasicBlock]int   // how often each loop head was entered on this path
	known map[string]bool
	isnil map[string]bool // value -> known to be nil (true) / known to be non-nil (false)
	eq    map[string]constant.Value
	neq   map[string][]constant.Value
	dc    []dEdge         // integer difference constraints (arith.go)
	dseen map[string]bool // values whose definition is already recorded in dc
}

// Resolve replaces phis of visited blocks by the value that flowed in along
// this path; phis of blocks not on the path stay as they are.
func (p *Path) Resolve(v ssa.Value) ssa.Value {
	return p.resolve0(v)
}

// IsNil reports what the path knows about v being nil: a nil constant, a value
// that is non-nil by construction, or a value a branch (or a split return)
// decided.
func (p *Path) IsNil(v ssa.Value) (isNil, known bool) {
	r := p.resolve0(v)
	if c, isC := r.(*ssa.Const); isC {
		return c.Value == nil && isNillable(c.Type()), true
	}
	if nonNilByConstruction(r) || p.wrapsNonNil(r, 0) {
		return false, true
	}
	n, ok := p.isnil[p.canonOf(r)]
	return n, ok
}

func isNillable(t types.Type) bool {
	switch t.Underlying().(type) {
	case *types.Interface, *types.Pointer, *types.Slice, *types.Map, *types.Chan, *types.Signature:
		return true
	}
	return false
}

// ResolvesTo reports whether v, or one of the values it stands for along the path (each step of Resolve),
// satisfies is: for predicates that recognise a value by where it is read from rather than by what was stored there.
func (p *Path) ResolvesTo(v ssa.Value, is func(ssa.Value) bool) bool {
	old := p.stop
	p.stop = is
	r := p.resolve0(v)
	p.stop = old
	return is(r)
}

func (p *Path) resolve0(v ssa.Value) ssa.Value {
	for i := 0; i < 64; i++ {
		if p.stop != nil && p.stop(v) {
			return v
		}
		switch x := v.(type) {
		case *ssa.Phi:
			r, ok := p.phi[x]
			if !ok {
				return v
			}
			v = r
		case *ssa.UnOp:
			// a load of a private local cell (for instance a result spilled because the function
			// defers something): the value last stored into the cell on this path
			st := p.lastStoreBefore(x)
			if st == nil {
				// a variable shared with a closure but assigned exactly once: that value
				if x.Op == token.MUL {
					if cell := Cell(x.X); cell != nil {
						if sts := CellStores(cell); len(sts) == 1 {
							// ... by the function that declares it (a store made by a closure may not have
							// happened yet: the variable then still holds its zero value), and before the load
							st := sts[0]
							if st.Parent() == cell.Parent() && (x.Parent() != cell.Parent() || Dominates(st, x)) {
								v = st.Val
								continue
							}
						}
					}
				}
				return v
			}
			v = st
		case *ssa.Parameter, *ssa.FreeVar:
			r, ok := p.sub[v]
			if !ok || r == v {
				return v
			}
			v = r
		case *ssa.Field:
			// a field of a record that a helper built in a private local variable and returned by value
			ld, ok := p.resolve0(x.X).(*ssa.UnOp)
			if !ok || ld.Op != token.MUL {
				return v
			}
			a, ok := ld.X.(*ssa.Alloc)
			if !ok || !privateRecord(a) {
				return v
			}
			st := p.lastFieldStoreBefore(a, x.Field, ld)
			if st == nil {
				return v
			}
			v = st
		case *ssa.Call:
			res, ok := p.rets[x]
			if !ok || len(res) != 1 {
				return v
			}
			v = res[0]
		case *ssa.Extract:
			c, isCall := x.Tuple.(*ssa.Call)
			if !isCall {
				return v
			}
			res, ok := p.rets[c]
			if !ok || x.Index >= len(res) {
				return v
			}
			v = res[x.Index]
		default:
			return v
		}
	}
	return v
}

// lastStoreBefore: for a load of a cell that is only ever stored to and loaded
// from directly, the value of the last store the path executed before the
// load (nil when the load is not on the path, or nothing was stored yet).
func (p *Path) lastStoreBefore(ld *ssa.UnOp) ssa.Value {
	if ld.Op != token.MUL {
		return nil
	}
	if fa, isFa := ld.X.(*ssa.FieldAddr); isFa {
		if a, isA := fa.X.(*ssa.Alloc); isA && privateRecord(a) {
			return p.lastFieldStoreBefore(a, fa.Field, ld)
		}
		return nil
	}
	a, ok := ld.X.(*ssa.Alloc)
	if !ok {
		// a captured variable read inside a closure the path stepped into: the same cell
		if fv, isFV := ld.X.(*ssa.FreeVar); isFV {
			if c := Cell(fv); c != nil {
				if cl, confined := confinedCell(c); confined {
					return p.lastStoreToConfined(c, cl, ld)
				}
			}
		}
		return nil
	}
	if !privateCell(a) {
		if cl, confined := confinedCell(a); confined {
			return p.lastStoreToConfined(a, cl, ld)
		}
		// a variable shared with a closure: only a store the path made just before the load, with nothing in
		// between that could run other code (no call, no channel operation)
		var last ssa.Value
		for _, in := range p.Instrs {
			if in == ssa.Instruction(ld) {
				return last
			}
			switch x := in.(type) {
			case *ssa.Store:
				if x.Addr == ssa.Value(a) {
					last = x.Val
				}
			case ssa.CallInstruction, *ssa.Send, *ssa.Select, *ssa.RunDefers:
				last = nil
			case *ssa.UnOp:
				if x.Op == token.ARROW {
					last = nil
				}
			}
		}
		return nil
	}
	var last ssa.Value
	for _, in := range p.Instrs {
		if in == ssa.Instruction(ld) {
			return last
		}
		if st, ok := in.(*ssa.Store); ok && st.Addr == ssa.Value(a) {
			last = st.Val
		}
	}
	return nil
}

// confinedCell: a local variable that closures capture, but whose address goes
// nowhere else, and whose capturing closures are only ever called in place
// (`f := func(){…}; …; f()` — never started as a goroutine, deferred, stored,
// returned or handed to another function; the same for closures nested in
// them). Such a variable can be written by nothing but the stores of its
// function and the stores of those closures while they are being called: no
// other call, channel operation or goroutine can reach it. It returns the
// capturing closures.
func confinedCell(a *ssa.Alloc) (map[*ssa.MakeClosure]bool, bool) {
	if v, ok := confinedCellCache[a]; ok {
		return v, v != nil
	}
	closures := map[*ssa.MakeClosure]bool{}
	var okAddr func(addr ssa.Value, depth int) bool
	okAddr = func(addr ssa.Value, depth int) bool {
		refs := addr.Referrers()
		if refs == nil || depth > 4 {
			return false
		}
		for _, r := range *refs {
			switch x := r.(type) {
			case *ssa.Store:
				if x.Addr != addr {
					return false // the address itself is stored somewhere
				}
			case *ssa.UnOp:
				if x.Op != token.MUL {
					return false
				}
			case *ssa.DebugRef:
			case *ssa.MakeClosure:
				uses := x.Referrers()
				if uses == nil {
					return false
				}
				for _, u := range *uses {
					switch c := u.(type) {
					case *ssa.Call:
						if c.Call.Value != ssa.Value(x) {
							return false
						}
						for _, arg := range c.Call.Args {
							if arg == ssa.Value(x) {
								return false
							}
						}
					case *ssa.DebugRef:
					default:
						return false // go, defer, stored, captured by another closure, returned
					}
				}
				closures[x] = true
				fn, isFn := x.Fn.(*ssa.Function)
				if !isFn {
					return false
				}
				for j, b := range x.Bindings {
					if b == addr && (j >= len(fn.FreeVars) || !okAddr(fn.FreeVars[j], depth+1)) {
						return false
					}
				}
			default:
				return false
			}
		}
		return true
	}
	if !okAddr(a, 0) || len(closures) == 0 {
		confinedCellCache[a] = nil
		return nil, false
	}
	confinedCellCache[a] = closures
	return closures, true
}

var confinedCellCache = map[*ssa.Alloc]map[*ssa.MakeClosure]bool{}

// lastStoreToConfined: the value the path last stored into a confined cell
// (see confinedCell) before the load ld: a store of the declaring function, or
// a store of a capturing closure whose call the path stepped into (its
// instructions are on the path). A call of a capturing closure that the path
// did not step into may have written the cell: nothing is known after it.
func (p *Path) lastStoreToConfined(a *ssa.Alloc, closures map[*ssa.MakeClosure]bool, ld *ssa.UnOp) ssa.Value {
	var last ssa.Value
	for _, in := range p.Instrs {
		if in == ssa.Instruction(ld) {
			return last
		}
		switch x := in.(type) {
		case *ssa.Store:
			if x.Addr == ssa.Value(a) {
				last = x.Val
			} else if fv, isFV := x.Addr.(*ssa.FreeVar); isFV && Cell(fv) == a {
				last = x.Val
			}
		case *ssa.Call:
			if mc := closureOf(x.Call.Value); mc != nil && closures[mc] {
				if _, steppedInto := p.rets[x]; !steppedInto {
					last = nil
				}
			}
		}
	}
	return nil
}

// RecordField: ld reads, as a whole, a private record (a struct variable whose
// address goes nowhere) on this path; the result is the value its field holds
// at that read — the last store the path made into the field, through
// whole-record copies of other private records, or the zero value when the
// record was declared on the path and the field never assigned. nil when ld is
// not such a read or the value is unknown.
func (p *Path) RecordField(ld ssa.Value, field int) ssa.Value {
	u, ok := ld.(*ssa.UnOp)
	if !ok || u.Op != token.MUL {
		return nil
	}
	a, ok := u.X.(*ssa.Alloc)
	if !ok || !privateRecord(a) {
		return nil
	}
	return p.lastFieldStoreBefore(a, field, u)
}

// lastFieldStoreBefore: the value the path last stored into one field of a private record before the load
// `before` (of the field or of the whole record); the zero value when the record was allocated on the path
// and the field never assigned; nil when unknown.
func (p *Path) lastFieldStoreBefore(a *ssa.Alloc, field int, before ssa.Instruction) ssa.Value {
	var last ssa.Value
	for _, in := range p.Instrs {
		if in == before {
			return last
		}
		if in == ssa.Instruction(a) {
			last = zeroOfField(a, field)
			continue
		}
		if st, ok := in.(*ssa.Store); ok {
			if st.Addr == ssa.Value(a) {
				// the whole record replaced: by a copy of another private record, or by something unknown
				last = nil
				if ld, isLd := p.resolve0(st.Val).(*ssa.UnOp); isLd && ld.Op == token.MUL {
					if a2, isA := ld.X.(*ssa.Alloc); isA && a2 != a && privateRecord(a2) {
						last = p.lastFieldStoreBefore(a2, field, ld)
					}
				}
			} else if fa, isFa := st.Addr.(*ssa.FieldAddr); isFa && fa.X == ssa.Value(a) && fa.Field == field {
				last = st.Val
			}
		}
	}
	return nil
}

func zeroOfField(a *ssa.Alloc, field int) ssa.Value {
	pt, ok := a.Type().Underlying().(*types.Pointer)
	if !ok {
		return nil
	}
	st, ok := pt.Elem().Underlying().(*types.Struct)
	if !ok || field >= st.NumFields() {
		return nil
	}
	t := st.Field(field).Type()
	b, ok := t.Underlying().(*types.Basic)
	if !ok {
		if isNillable(t) {
			return ssa.NewConst(nil, t)
		}
		return nil
	}
	switch {
	case b.Info()&types.IsBoolean != 0:
		return ssa.NewConst(constant.MakeBool(false), t)
	case b.Info()&types.IsInteger != 0:
		return ssa.NewConst(constant.MakeInt64(0), t)
	case b.Info()&types.IsString != 0:
		return ssa.NewConst(constant.MakeString(""), t)
	}
	return nil
}

// RecordFieldSources lists, flow-insensitively, every value that may be stored into one field of a private
// record: direct stores into the field, and the same field of the records it is copied from as a whole (another
// private record, or the record a statically called helper returns). ok is false when some source is unknown.
// The zero value of a freshly declared record is not listed.
func RecordFieldSources(a *ssa.Alloc, field int) (vals []ssa.Value, ok bool) {
	seen := map[*ssa.Alloc]bool{}
	ok = true
	var whole func(v ssa.Value)
	var rec func(a *ssa.Alloc)
	whole = func(v ssa.Value) {
		switch x := v.(type) {
		case *ssa.Const:
			// a constant of a struct type is the zero value (`T{}` before the fields of a composite literal are
			// stored one by one): like the zero value of a fresh record it is not listed
			if _, isSt := x.Type().Underlying().(*types.Struct); isSt {
				return
			}
		case *ssa.UnOp:
			if a2, isA := x.X.(*ssa.Alloc); isA && x.Op == token.MUL {
				rec(a2)
				return
			}
		case *ssa.Extract:
			if c, isC := x.Tuple.(*ssa.Call); isC {
				if g := c.Call.StaticCallee(); g != nil && len(g.Blocks) > 0 {
					for _, b := range g.Blocks {
						if ret, isR := b.Instrs[len(b.Instrs)-1].(*ssa.Return); isR && x.Index < len(ret.Results) {
							whole(ret.Results[x.Index])
						}
					}
					return
				}
			}
		case *ssa.Call:
			if g := x.Call.StaticCallee(); g != nil && len(g.Blocks) > 0 {
				for _, b := range g.Blocks {
					if ret, isR := b.Instrs[len(b.Instrs)-1].(*ssa.Return); isR && len(ret.Results) == 1 {
						whole(ret.Results[0])
					}
				}
				return
			}
		}
		ok = false
	}
	rec = func(a *ssa.Alloc) {
		if seen[a] {
			return
		}
		seen[a] = true
		if !privateRecord(a) {
			ok = false
			return
		}
		for _, r := range *a.Referrers() {
			switch x := r.(type) {
			case *ssa.Store:
				whole(x.Val)
			case *ssa.FieldAddr:
				if x.Field != field {
					continue
				}
				for _, fr := range *x.Referrers() {
					if st, isSt := fr.(*ssa.Store); isSt {
						vals = append(vals, st.Val)
					}
				}
			}
		}
	}
	rec(a)
	return vals, ok
}

var privateRecordCache = map[*ssa.Alloc]bool{}

// privateRecord: a struct variable whose address goes nowhere: it is only loaded or stored as a whole, and its
// fields are only loaded and stored directly.
func privateRecord(a *ssa.Alloc) bool {
	if v, ok := privateRecordCache[a]; ok {
		return v
	}
	ok := false
	if pt, isP := a.Type().Underlying().(*types.Pointer); isP {
		_, ok = pt.Elem().Underlying().(*types.Struct)
	}
	if refs := a.Referrers(); ok && refs != nil {
		for _, r := range *refs {
			switch x := r.(type) {
			case *ssa.Store:
				if x.Addr != ssa.Value(a) {
					ok = false
				}
			case *ssa.UnOp:
				if x.Op != token.MUL {
					ok = false
				}
			case *ssa.FieldAddr:
				if frefs := x.Referrers(); frefs != nil {
					for _, fr := range *frefs {
						switch y := fr.(type) {
						case *ssa.Store:
							if y.Addr != ssa.Value(x) {
								ok = false
							}
						case *ssa.UnOp:
							if y.Op != token.MUL {
								ok = false
							}
						case *ssa.DebugRef:
						default:
							ok = false
						}
					}
				}
			case *ssa.DebugRef:
			default:
				ok = false
			}
		}
	}
	privateRecordCache[a] = ok
	return ok
}

var privateCellCache = map[*ssa.Alloc]bool{}

// privateCell: every use of the cell is a direct store to it or a direct load
// from it (its address goes nowhere else: no closure, no call, no field access).
func privateCell(a *ssa.Alloc) bool {
	if v, ok := privateCellCache[a]; ok {
		return v
	}
	ok := true
	if refs := a.Referrers(); refs != nil {
		for _, r := range *refs {
			switch x := r.(type) {
			case *ssa.Store:
				if x.Addr != ssa.Value(a) {
					ok = false
				}
			case *ssa.UnOp:
				if x.Op != token.MUL {
					ok = false
				}
			case *ssa.DebugRef:
			default:
				ok = false
			}
		}
	}
	privateCellCache[a] = ok
	return ok
}

func (p *Path) canon(v ssa.Value) string {
	return p.canonOf(p.resolve0(v))
}

// canonOf names an already resolved value.
func (p *Path) canonOf(v ssa.Value) string {
	switch x := v.(type) {
	case *ssa.Const:
		if x.Value == nil {
			return "nil:" + x.Type().String()
		}
		return "c:" + x.Value.ExactString()
	case *ssa.Field:
		return fmt.Sprintf("F(%s,%d)", p.canon(x.X), x.Field)
	case *ssa.Extract:
		return fmt.Sprintf("E(%s,%d)", p.canon(x.Tuple), x.Index)
	case *ssa.ChangeType:
		return p.canon(x.X)
	case *ssa.Convert:
		return fmt.Sprintf("C(%s,%s)", p.canon(x.X), x.Type())
	case *ssa.UnOp:
		if x.Op == token.NOT {
			return "!" + p.canon(x.X)
		}
		if x.Op == token.MUL {
			if k, ok := stableFieldLoad(x); ok {
				return k
			}
		}
	}
	return fmt.Sprintf("%s@%p#%d", v.Name(), v, p.epoch(v))
}

// epoch distinguishes values computed in different iterations of a loop that
// a path walks through more than once: what was learnt about a value of one
// iteration says nothing about the same instruction in the next.
func (p *Path) epoch(v ssa.Value) int {
	in, ok := v.(ssa.Instruction)
	if !ok || in.Block() == nil || len(p.enter) == 0 {
		return 0
	}
	e := 0
	for h, k := range p.enter {
		if h.Parent() != in.Block().Parent() {
			continue // dominance is only defined within one function
		}
		if h == in.Block() || h.Dominates(in.Block()) {
			e += k
		}
	}
	return e
}

// Eval evaluates a boolean value along the path when it is determined by
// constants, earlier branch outcomes, or comparisons with constants.
func (p *Path) Eval(v ssa.Value) (val, ok bool) {
	v = p.Resolve(v)
	if b, ok := ConstBool(v); ok {
		return b, true
	}
	if b, ok := p.known[p.canon(v)]; ok {
		return b, true
	}
	switch x := v.(type) {
	case *ssa.UnOp:
		if x.Op == token.NOT {
			if b, ok := p.Eval(x.X); ok {
				return !b, true
			}
		}
	case *ssa.BinOp:
		switch x.Op {
		case token.LSS, token.LEQ, token.GTR, token.GEQ:
			// ordered comparison of two constants
			ca, aok := p.Resolve(x.X).(*ssa.Const)
			cb, bok := p.Resolve(x.Y).(*ssa.Const)
			if aok && bok && ca.Value != nil && cb.Value != nil && ca.Value.Kind() == cb.Value.Kind() &&
				(ca.Value.Kind() == constant.Int || ca.Value.Kind() == constant.Float || ca.Value.Kind() == constant.String) {
				return constant.Compare(ca.Value, x.Op, cb.Value), true
			}
		}
		if x.Op == token.EQL || x.Op == token.NEQ {
			a, b := p.Resolve(x.X), p.Resolve(x.Y)
			ca, aok := a.(*ssa.Const)
			cb, bok := b.(*ssa.Const)
			var other ssa.Value
			var c *ssa.Const
			switch {
			case aok && bok && ca.Value != nil && cb.Value != nil:
				r := constant.Compare(ca.Value, token.EQL, cb.Value)
				return r == (x.Op == token.EQL), true
			case bok && cb.Value != nil:
				other, c = a, cb
			case aok && ca.Value != nil:
				other, c = b, ca
			case bok || aok:
				// comparison with nil
				o := a
				if aok {
					o = b
				}
				if oc, isC := o.(*ssa.Const); isC && oc.Value == nil {
					return x.Op == token.EQL, true
				}
				if nonNilByConstruction(o) || p.wrapsNonNil(o, 0) {
					return x.Op == token.NEQ, true
				}
				if n, ok := p.isnil[p.canon(o)]; ok {
					return n == (x.Op == token.EQL), true
				}
				return false, false
			default:
				return false, false
			}
			k := p.canon(other)
			if e, ok := p.eq[k]; ok {
				same := constant.Compare(e, token.EQL, c.Value)
				return same == (x.Op == token.EQL), true
			}
			for _, n := range p.neq[k] {
				if constant.Compare(n, token.EQL, c.Value) {
					return x.Op == token.NEQ, true
				}
			}
		}
		return p.evalArith(x)
	}
	return false, false
}

func (p *Path) assume(v ssa.Value, val bool) {
	v = p.Resolve(v)
	p.known[p.canon(v)] = val
	switch x := v.(type) {
	case *ssa.UnOp:
		if x.Op == token.NOT {
			p.assume(x.X, !val)
		}
	case *ssa.BinOp:
		p.assumeArith(x, val)
		if x.Op == token.EQL || x.Op == token.NEQ {
			a, b := p.Resolve(x.X), p.Resolve(x.Y)
			var other ssa.Value
			var c *ssa.Const
			if cb, ok := b.(*ssa.Const); ok && cb.Value != nil {
				other, c = a, cb
			} else if ca, ok := a.(*ssa.Const); ok && ca.Value != nil {
				other, c = b, ca
			} else {
				// comparison with nil
				if cb, ok := b.(*ssa.Const); ok && cb.Value == nil {
					p.isnil[p.canon(a)] = (x.Op == token.EQL) == val
				} else if ca, ok := a.(*ssa.Const); ok && ca.Value == nil {
					p.isnil[p.canon(b)] = (x.Op == token.EQL) == val
				}
				return
			}
			k := p.canon(other)
			if (x.Op == token.EQL) == val {
				p.eq[k] = c.Value
			} else {
				p.neq[k] = append(p.neq[k], c.Value)
			}
		}
	}
}

func (p *Path) clone() *Path {
	q := &Path{
		Blocks: append([]*ssa.BasicBlock(nil), p.Blocks...),
		Instrs: append([]ssa.Instruction(nil), p.Instrs...),
		Conds:  append([]Fact(nil), p.Conds...),
		phi:    make(map[*ssa.Phi]ssa.Value, len(p.phi)),
		sub:    make(map[ssa.Value]ssa.Value, len(p.sub)),
		rets:   make(map[*ssa.Call][]ssa.Value, len(p.rets)),
		inl:    make(map[*ssa.Function]bool, len(p.inl)),
		enter:  make(map[*ssa.BasicBlock]int, len(p.enter)),
		known:  make(map[string]bool, len(p.known)),
		isnil:  make(map[string]bool, len(p.isnil)),
		eq:     make(map[string]constant.Value, len(p.eq)),
		neq:    make(map[string][]constant.Value, len(p.neq)),
		dc:     append([]dEdge(nil), p.dc...),
	}
	if len(p.dseen) > 0 {
		q.dseen = make(map[string]bool, len(p.dseen))
		for k, v := range p.dseen {
			q.dseen[k] = v
		}
	}
	for k, v := range p.phi {
		q.phi[k] = v
	}
	for k, v := range p.sub {
		q.sub[k] = v
	}
	for k, v := range p.rets {
		q.rets[k] = v
	}
	for k, v := range p.inl {
		q.inl[k] = v
	}
	for k, v := range p.enter {
		q.enter[k] = v
	}
	for k, v := range p.known {
		q.known[k] = v
	}
	for k, v := range p.isnil {
		q.isnil[k] = v
	}
	for k, v := range p.eq {
		q.eq[k] = v
	}
	for k, v := range p.neq {
		q.neq[k] = append([]constant.Value(nil), v...)
	}
	return q
}

// Holds reports whether the path assumed or derived a comparison
// `x op c` where x satisfies isX and c satisfies isC.
func (p *Path) Holds(op token.Token, isX func(ssa.Value) bool, isC func(ssa.Value) bool) bool {
	for _, f := range p.Conds {
		c, ok := AsCmp(p.Resolve(f.Cond), f.Val)
		if !ok {
			continue
		}
		x, y := p.Resolve(c.X), p.Resolve(c.Y)
		if c.Op == op && isX(x) && isC(y) {
			return true
		}
		if (op == token.EQL || op == token.NEQ) && c.Op == op && isX(y) && isC(x) {
			return true
		}
	}
	return false
}

// EnumPaths enumerates the acyclic paths that start at instruction index idx
// of block start. A path ends at a Return/Panic, or when it jumps back to
// the start block (Closed). Paths that would re-enter another visited block
// (inner loop iterations) are dropped: the path that leaves the inner loop at
// once stands for them. It returns false when more than limit paths exist.
func EnumPaths(start *ssa.BasicBlock, idx int, limit int, yield func(*Path)) bool {
	return EnumPathsN(start, idx, limit, 1, yield)
}

// EnumPathsN is EnumPaths with every block other than the start block allowed
// on a path up to maxVisits times (2 unrolls each inner loop once, so that
// events inside loop bodies appear on the paths).
func EnumPathsN(start *ssa.BasicBlock, idx int, limit int, maxVisits int, yield func(*Path)) bool {
	return EnumPathsSeed(start, idx, limit, maxVisits, nil, yield)
}

// Assume records a boolean value as known on the path (used to seed a
// hypothesis such as a loop invariant before enumeration).
func (p *Path) Assume(v ssa.Value, val bool) { p.assume(v, val) }

// InlinePolicy decides whether a call is stepped into during path
// enumeration (the callee's instructions and branch outcomes become part of
// the caller's path). nil disables inlining. See DefaultInline.
var InlinePolicy func(call *ssa.Call, callee *ssa.Function) bool

// SplitBoolReturns: a function that returns an undecided boolean expression is
// enumerated as if it branched on it.
var SplitBoolReturns = true

// MaxInlineDepth bounds nested inlining.
var MaxInlineDepth = 3

// Atomic functions are never stepped into, whatever the policy says (rules
// that treat a call as one event register the callee here).
var Atomic = map[*ssa.Function]bool{}

type inlineFrame struct {
	b       *ssa.BasicBlock
	i       int
	call    *ssa.Call
	callee  *ssa.Function
	visited map[*ssa.BasicBlock]int
}

// inlineTarget resolves the callee of a call that may be stepped into.
func inlineTarget(c *ssa.Call) *ssa.Function {
	if InlinePolicy == nil || c.Call.IsInvoke() {
		return nil
	}
	s := ResolveCall(c)
	f := s.Callee
	if f == nil || len(f.Blocks) == 0 || Atomic[f] {
		return nil
	}
	if !InlinePolicy(c, f) {
		return nil
	}
	return f
}

// EnumPathsSeed is EnumPathsN with initial assumptions installed by seed.
func EnumPathsSeed(start *ssa.BasicBlock, idx int, limit int, maxVisits int, seed func(*Path), yield func(*Path)) bool {
	count := 0
	over := false
	var enter func(p *Path, b *ssa.BasicBlock, from *ssa.BasicBlock, i int, visited map[*ssa.BasicBlock]int, frames []inlineFrame)
	var exec func(p *Path, b *ssa.BasicBlock, i int, visited map[*ssa.BasicBlock]int, frames []inlineFrame)
	finish := func(p *Path, end ssa.Instruction, closed bool) {
		p.End = end
		p.Closed = closed
		count++
		if count > limit {
			over = true
			return
		}
		yield(p)
	}
	next := func(p *Path, from, to *ssa.BasicBlock, visited map[*ssa.BasicBlock]int, frames []inlineFrame) {
		if to == start && len(frames) == 0 {
			finish(p, from.Instrs[len(from.Instrs)-1], true)
			return
		}
		if visited[to] >= maxVisits {
			return // inner-loop iteration: represented by the path that leaves the loop
		}
		enter(p, to, from, 0, visited, frames)
	}
	enter = func(p *Path, b *ssa.BasicBlock, from *ssa.BasicBlock, i int, visited map[*ssa.BasicBlock]int, frames []inlineFrame) {
		if over {
			return
		}
		if pathStop != nil && len(frames) == 0 && b != start && pathStop(b) {
			// the rule is not interested in what happens from here on: the path ends at the block's entry
			p.Blocks = append(p.Blocks, b)
			finish(p, b.Instrs[0], false)
			return
		}
		visited[b]++
		defer func() { visited[b]-- }()
		p.Blocks = append(p.Blocks, b)
		if isLoopHead(b) && !(b == start && from == nil) {
			// an integer loop variable starts the iteration with the value that flowed in
			type carried struct {
				ph *ssa.Phi
				in string
			}
			var cs []carried
			// a boolean loop variable that enters the iteration as a constant (a flag set before `goto` /
			// `continue`) is known for this iteration
			type carriedBool struct {
				ph  *ssa.Phi
				val bool
			}
			var bs []carriedBool
			if from != nil {
				for k, pr := range b.Preds {
					if pr != from {
						continue
					}
					for _, in := range b.Instrs {
						ph, ok := in.(*ssa.Phi)
						if !ok {
							break
						}
						if ArithFacts {
							if key, ok := p.term(ph.Edges[k], 0); ok {
								cs = append(cs, carried{ph, key})
							}
						}
						if cb, isB := ConstBool(p.Resolve(ph.Edges[k])); isB {
							bs = append(bs, carriedBool{ph, cb})
						} else if v, known := p.Eval(ph.Edges[k]); known {
							if bt, isBt := ph.Type().Underlying().(*types.Basic); isBt && bt.Kind() == types.Bool {
								bs = append(bs, carriedBool{ph, v})
							}
						}
					}
					break
				}
			}
			p.enter[b]++
			for _, c := range cs {
				p.addEQ(p.canonOf(c.ph), c.in, 0)
			}
			for _, c := range bs {
				p.known[p.canonOf(c.ph)] = c.val
			}
		}
		if from != nil && !isLoopHead(b) {
			// phis of loop heads stay symbolic: the value entering from outside
			// the loop is not the value of later iterations
			pi := -1
			for k, pr := range b.Preds {
				if pr == from {
					pi = k
				}
			}
			for _, in := range b.Instrs {
				ph, ok := in.(*ssa.Phi)
				if !ok {
					break
				}
				if pi >= 0 {
					p.phi[ph] = p.Resolve(ph.Edges[pi])
				}
			}
		}
		exec(p, b, i, visited, frames)
	}
	exec = func(p *Path, b *ssa.BasicBlock, i int, visited map[*ssa.BasicBlock]int, frames []inlineFrame) {
		for ; i < len(b.Instrs); i++ {
			if over {
				return
			}
			in := b.Instrs[i]
			p.Instrs = append(p.Instrs, in)
			switch t := in.(type) {
			case *ssa.Call:
				callee := inlineTarget(t)
				if callee == nil || len(frames) >= MaxInlineDepth {
					continue
				}
				rec := false
				for _, fr := range frames {
					if fr.callee == callee {
						rec = true
					}
				}
				if rec || callee == start.Parent() || (p.inl[callee] && !isSelector(callee)) {
					// a callee is stepped into at most once per path: its parameters then have one
					// binding on the path, so facts about them stay unambiguous. A later execution of the
					// same call (a loop) is an unknown result, not the result of the first one.
					delete(p.rets, t)
					continue
				}
				p.inl[callee] = true
				// bind parameters and captured variables for this activation
				args := t.Call.Args
				for k, par := range callee.Params {
					if k < len(args) {
						p.sub[par] = p.Resolve(args[k])
					}
				}
				if mc := closureOf(t.Call.Value); mc != nil {
					for k, fv := range callee.FreeVars {
						if k < len(mc.Bindings) {
							p.sub[fv] = mc.Bindings[k]
						}
					}
				}
				p.enter[callee.Blocks[0]]++ // a fresh epoch for the callee's values
				nf := append(append([]inlineFrame(nil), frames...), inlineFrame{b: b, i: i, call: t, callee: callee, visited: visited})
				enter(p, callee.Blocks[0], nil, 0, map[*ssa.BasicBlock]int{}, nf)
				return
			case *ssa.Return:
				if n := len(frames); n > 0 {
					fr := frames[n-1]
					res := make([]ssa.Value, len(t.Results))
					for k, rv := range t.Results {
						res[k] = p.Resolve(rv)
					}
					p.rets[fr.call] = res
					p.Blocks = append(p.Blocks, fr.b)
					exec(p, fr.b, fr.i+1, fr.visited, frames[:n-1])
					return
				}
				// `return cond` is `if cond { return true } else { return false }`: a boolean result the
				// path has not decided is split into its two outcomes
				split := false
				if SplitBoolReturns {
					for _, rv := range t.Results {
						if bt, isB := rv.Type().Underlying().(*types.Basic); !isB || bt.Kind() != types.Bool {
							continue
						}
						if _, known := p.Eval(rv); known {
							continue
						}
						cond := p.Resolve(rv)
						for _, outcome := range []bool{true, false} {
							q := p.clone()
							c2, o2 := cond, outcome
							for { // !x == b  is  x == !b
								u, isNot := c2.(*ssa.UnOp)
								if !isNot || u.Op != token.NOT {
									break
								}
								c2, o2 = q.Resolve(u.X), !o2
							}
							q.Conds = append(q.Conds, Fact{Cond: c2, Val: o2})
							q.assume(cond, outcome)
							finish(q, in, false)
						}
						split = true
						break
					}
				}
				if !split {
					finish(p, in, false)
				}
				return
			case *ssa.Panic:
				finish(p, in, false)
				return
			case *ssa.If:
				val, ok := p.Eval(t.Cond)
				for k, s := range b.Succs {
					branch := k == 0
					if ok && val != branch {
						continue
					}
					q := p.clone()
					// `if !x` taken is `x` being false: facts are recorded about x
					fc, fv := t.Cond, branch
					for {
						u, isNot := fc.(*ssa.UnOp)
						if !isNot || u.Op != token.NOT {
							break
						}
						fc, fv = u.X, !fv
					}
					fr, rv := p.Resolve(fc), fv
					for {
						u, isNot := fr.(*ssa.UnOp)
						if !isNot || u.Op != token.NOT {
							break
						}
						fr, rv = p.Resolve(u.X), !rv
					}
					if rv != fv {
						fr = nil // cannot be expressed with the same outcome: leave unresolved
					}
					nf := Fact{Cond: fc, Val: fv, If: t, Res: fr}
					if cmp, isCmp := fr.(*ssa.BinOp); isCmp {
						switch cmp.Op {
						case token.EQL, token.NEQ, token.LSS, token.LEQ, token.GTR, token.GEQ:
							nf.X, nf.Y = p.Resolve(cmp.X), p.Resolve(cmp.Y)
						}
					}
					q.Conds = append(q.Conds, nf)
					if !ok {
						q.assume(t.Cond, branch)
					}
					next(q, b, s, visited, frames)
				}
				return
			case *ssa.Jump:
				next(p, b, b.Succs[0], visited, frames)
				return
			}
		}
	}
	startIsHead := isLoopHead(start)
	p := &Path{phi: map[*ssa.Phi]ssa.Value{}, enter: map[*ssa.BasicBlock]int{}, known: map[string]bool{}, isnil: map[string]bool{}, eq: map[string]constant.Value{}, neq: map[string][]constant.Value{},
		sub: map[ssa.Value]ssa.Value{}, rets: map[*ssa.Call][]ssa.Value{}, inl: map[*ssa.Function]bool{}}
	if startIsHead {
		p.enter[start] = 1 // counted here so that seeded assumptions about the start block's phis keep their key
	}
	if seed != nil {
		seed(p)
	}
	enter(p, start, nil, idx, map[*ssa.BasicBlock]int{}, nil)
	return !over
}

// closureOf finds the MakeClosure a called function value comes from (directly,
// or through a cell that is assigned once).
func closureOf(v ssa.Value) *ssa.MakeClosure {
	for i := 0; i < 8; i++ {
		switch x := v.(type) {
		case *ssa.MakeClosure:
			return x
		case *ssa.UnOp:
			if x.Op != token.MUL {
				return nil
			}
			c := Cell(x.X)
			if c == nil {
				return nil
			}
			st := CellStores(c)
			if len(st) != 1 {
				return nil
			}
			v = st[0].Val
		case *ssa.FreeVar:
			b := Binding(x)
			if b == nil {
				return nil
			}
			v = b
		default:
			return nil
		}
	}
	return nil
}

// LoopHeadOf returns the innermost block that dominates b and is the target
// of a back edge from a block it dominates that can be reached from b
// (the head of the loop containing b), or nil.
func LoopHeadOf(b *ssa.BasicBlock) *ssa.BasicBlock {
	for d := b; d != nil; d = d.Idom() {
		for _, pr := range d.Preds {
			if d.Dominates(pr) && reaches(b, pr) {
				return d
			}
		}
	}
	return nil
}

func reaches(from, to *ssa.BasicBlock) bool {
	seen := map[*ssa.BasicBlock]bool{}
	work := []*ssa.BasicBlock{from}
	for len(work) > 0 {
		b := work[len(work)-1]
		work = work[:len(work)-1]
		if b == to {
			return true
		}
		if seen[b] {
			continue
		}
		seen[b] = true
		work = append(work, b.Succs...)
	}
	return false
}

// NextIter returns, for a Closed path, the value a phi of the start block
// receives for the next iteration.
func (p *Path) NextIter(ph *ssa.Phi) ssa.Value {
	if !p.Closed || len(p.Blocks) == 0 {
		return nil
	}
	last := p.Blocks[len(p.Blocks)-1]
	for i, pr := range ph.Block().Preds {
		if pr == last {
			return p.Resolve(ph.Edges[i])
		}
	}
	return nil
}

// isLoopHead: some predecessor of b is dominated by b (a back edge enters b).
func isLoopHead(b *ssa.BasicBlock) bool {
	for _, p := range b.Preds {
		if b.Dominates(p) {
			return true
		}
	}
	return false
}

// HoldsRaw is Holds without resolving phis of the operands (for facts about
// loop-carried variables, which stay symbolic).
func (p *Path) HoldsRaw(op token.Token, isX func(ssa.Value) bool, isC func(ssa.Value) bool) bool {
	for _, f := range p.Conds {
		c, ok := AsCmp(f.Cond, f.Val)
		if !ok {
			continue
		}
		if c.Op == op && isX(c.X) && isC(c.Y) {
			return true
		}
		if (op == token.EQL || op == token.NEQ) && c.Op == op && isX(c.Y) && isC(c.X) {
			return true
		}
	}
	return false
}

// stableFieldLoad recognises a load of a field reached from a parameter
// through field selections only (p.f.g), of a field the function itself never
// stores to: every such load in one activation reads the same value, so all
// of them share one key regardless of position and loop iteration.
func stableFieldLoad(ld *ssa.UnOp) (string, bool) {
	fa, ok := ld.X.(*ssa.FieldAddr)
	if !ok {
		return "", false
	}
	key := ""
	var base ssa.Value = fa
	for {
		f, ok := base.(*ssa.FieldAddr)
		if !ok {
			break
		}
		key = fmt.Sprintf(".%d%s", f.Field, key)
		base = f.X
	}
	// the base may be a load of the cell a captured parameter/receiver was spilled to
	if u, ok := base.(*ssa.UnOp); ok && u.Op == token.MUL {
		if c := Cell(u.X); c != nil {
			st := CellStores(c)
			if len(st) == 1 {
				base = st[0].Val
			}
		}
	}
	// a struct parameter copied into its local variable and only read from there
	if al, isAl := base.(*ssa.Alloc); isAl {
		var src *ssa.Parameter
		readOnly := true
		if refs := al.Referrers(); refs != nil {
			for _, r := range *refs {
				switch x := r.(type) {
				case *ssa.Store:
					pv, isP := x.Val.(*ssa.Parameter)
					if x.Addr != ssa.Value(al) || !isP || src != nil {
						readOnly = false
					}
					src = pv
				case *ssa.FieldAddr:
					if frefs := x.Referrers(); frefs != nil {
						for _, rr := range *frefs {
							if u, isU := rr.(*ssa.UnOp); !isU || u.Op != token.MUL {
								if _, isDbg := rr.(*ssa.DebugRef); !isDbg {
									readOnly = false
								}
							}
						}
					}
				case *ssa.DebugRef:
				default:
					readOnly = false
				}
			}
		}
		if src != nil && readOnly {
			return fmt.Sprintf("stable(%s@%p%s)", src.Name(), src, key), true
		}
		return "", false
	}
	par, ok := base.(*ssa.Parameter)
	if !ok {
		return "", false
	}
	// no store to the same field (by index and struct type) anywhere in the function or its closures
	fn := ld.Parent()
	root := fn
	for root.Parent() != nil {
		root = root.Parent()
	}
	for _, g := range DeepFuncs(root) {
		for _, b := range g.Blocks {
			for _, in := range b.Instrs {
				st, ok := in.(*ssa.Store)
				if !ok {
					continue
				}
				if f2, ok := st.Addr.(*ssa.FieldAddr); ok && f2.Field == fa.Field && f2.X.Type() == fa.X.Type() {
					return "", false
				}
			}
		}
	}
	return fmt.Sprintf("stable(%s@%p%s)", par.Name(), par, key), true
}

// nilOnlyForNilArg: g has one result and returns nil only when its k-th parameter is nil. Read off g's
// body, nothing is assumed about a name: the entry block tests the parameter against nil, the side taken for
// nil is entered over that edge only, and every return outside the part that side dominates yields a value
// that is non-nil by construction (an error wrapper such as `if err == nil { return nil }; return &Traced{…}`).
var nilOnlyCache = map[*ssa.Function]int{}

func nilOnlyForNilArg(g *ssa.Function) (int, bool) {
	if k, ok := nilOnlyCache[g]; ok {
		return k, k >= 0
	}
	nilOnlyCache[g] = -1
	if len(g.Blocks) == 0 || g.Signature.Results().Len() != 1 || g.Recover != nil {
		return -1, false
	}
	entry := g.Blocks[0]
	iff, ok := entry.Instrs[len(entry.Instrs)-1].(*ssa.If)
	if !ok {
		return -1, false
	}
	cmp, ok := iff.Cond.(*ssa.BinOp)
	if !ok || (cmp.Op != token.EQL && cmp.Op != token.NEQ) {
		return -1, false
	}
	par, other := cmp.X, cmp.Y
	if _, isP := par.(*ssa.Parameter); !isP {
		par, other = other, par
	}
	pv, isP := par.(*ssa.Parameter)
	oc, isC := other.(*ssa.Const)
	if !isP || !isC || oc.Value != nil || !isNillable(pv.Type()) {
		return -1, false
	}
	k := -1
	for i, q := range g.Params {
		if q == pv {
			k = i
		}
	}
	nilSide := entry.Succs[0]
	if cmp.Op == token.NEQ {
		nilSide = entry.Succs[1]
	}
	if k < 0 || len(nilSide.Preds) != 1 || nilSide == entry.Succs[0] && nilSide == entry.Succs[1] {
		return -1, false
	}
	for _, b := range g.Blocks {
		if len(b.Instrs) == 0 {
			continue
		}
		ret, isRet := b.Instrs[len(b.Instrs)-1].(*ssa.Return)
		if !isRet || b == nilSide || nilSide.Dominates(b) {
			continue
		}
		if len(ret.Results) != 1 || !nonNilByConstruction(ret.Results[0]) {
			return -1, false
		}
	}
	nilOnlyCache[g] = k
	return k, true
}

// wrapsNonNil: v is a call of a function of the module that returns nil only for a nil argument, and the
// argument is non-nil on this path.
func (p *Path) wrapsNonNil(v ssa.Value, depth int) bool {
	for i := 0; i < 4; i++ {
		switch x := v.(type) {
		case *ssa.MakeInterface:
			v = x.X
			continue
		case *ssa.ChangeInterface:
			v = x.X
			continue
		}
		break
	}
	c, ok := v.(*ssa.Call)
	if !ok || depth > 3 {
		return false
	}
	g := c.Call.StaticCallee()
	if g == nil || g.Pkg == nil || !strings.HasPrefix(g.Pkg.Pkg.Path(), ModulePath) {
		return false
	}
	k, ok := nilOnlyForNilArg(g)
	if !ok || k >= len(c.Call.Args) {
		return false
	}
	arg := p.resolve0(c.Call.Args[k])
	if nonNilByConstruction(arg) || p.wrapsNonNil(arg, depth+1) {
		return true
	}
	n, known := p.isnil[p.canonOf(arg)]
	return known && !n
}

// nonNilByConstruction: calls that never return nil.
func nonNilByConstruction(v ssa.Value) bool {
	for i := 0; i < 4; i++ {
		switch x := v.(type) {
		case *ssa.MakeInterface:
			v = x.X
			continue
		case *ssa.ChangeInterface:
			v = x.X
			continue
		case *ssa.Alloc, *ssa.MakeClosure, *ssa.MakeMap, *ssa.MakeChan, *ssa.MakeSlice:
			return true
		case *ssa.UnOp:
			// a package-level sentinel error (io.EOF, io.ErrUnexpectedEOF, ErrXxx) that nothing assigns after initialisation
			if g, isG := x.X.(*ssa.Global); isG && x.Op == token.MUL && types.Identical(x.Type(), types.Universe.Lookup("error").Type()) {
				if (strings.HasPrefix(g.Name(), "Err") || g.Name() == "EOF") && globalAssignedOnlyInInit(g) {
					return true
				}
			}
			return false
		case *ssa.Call:
			if f := x.Call.StaticCallee(); f != nil && f.Pkg != nil {
				switch f.Pkg.Pkg.Path() + "." + f.Name() {
				case "fmt.Errorf", "errors.New":
					return true
				case "errors.Join":
					// non-nil as soon as one operand is: a package-level error value, or a non-nil construction
					if len(x.Call.Args) == 1 {
						if els, ok := VariadicElems(x.Call.Args[0]); ok {
							for _, e := range els {
								e = Unwrap(e)
								if ld, isLd := e.(*ssa.UnOp); isLd && ld.Op == token.MUL {
									if _, isG := ld.X.(*ssa.Global); isG {
										return true
									}
								}
								if nonNilByConstruction(e) {
									return true
								}
							}
						}
					}
				}
			}
		}
		return false
	}
	return false
}

// isSelector: a small function that only chooses among its parameters and
// constants (min, max, clamp, "default if zero"): no calls, no stores, and every
// result is a parameter, a constant, or a choice of those. Such a function may
// be stepped into more than once on a path: what it returns resolves to the
// caller's values at the time of the return, and the facts it contributes keep
// the operands as they resolved at the time of the branch.
var selectorCache = map[*ssa.Function]bool{}

func isSelector(f *ssa.Function) bool {
	if v, ok := selectorCache[f]; ok {
		return v
	}
	ok := len(f.Blocks) > 0 && len(f.Blocks) <= 12 && len(f.FreeVars) == 0
	var choice func(v ssa.Value, depth int) bool
	choice = func(v ssa.Value, depth int) bool {
		switch x := v.(type) {
		case *ssa.Parameter, *ssa.Const:
			return true
		case *ssa.Phi:
			if depth > 4 {
				return false
			}
			for _, e := range x.Edges {
				if !choice(e, depth+1) {
					return false
				}
			}
			return true
		}
		return false
	}
	for _, b := range f.Blocks {
		for _, in := range b.Instrs {
			switch x := in.(type) {
			case *ssa.Call, *ssa.Go, *ssa.Defer, *ssa.Store, *ssa.Send, *ssa.MapUpdate, *ssa.Panic, *ssa.Alloc, *ssa.MakeClosure:
				ok = false
			case *ssa.Return:
				for _, rv := range x.Results {
					if !choice(rv, 0) {
						ok = false
					}
				}
			}
		}
	}
	selectorCache[f] = ok
	return ok
}

var globalInitOnly = map[*ssa.Global]bool{}

// globalAssignedOnlyInInit: no function other than its package's initialiser stores to g.
func globalAssignedOnlyInInit(g *ssa.Global) bool {
	if v, ok := globalInitOnly[g]; ok {
		return v
	}
	ok := true
	if refs := g.Referrers(); refs != nil {
		// globals have no referrer lists in go/ssa: fall through to the scan below
		_ = refs
	}
	if g.Pkg != nil {
		for _, m := range g.Pkg.Members {
			f, isF := m.(*ssa.Function)
			if !isF || f.Name() == "init" {
				continue
			}
			for _, h := range DeepFuncs(f) {
				for _, b := range h.Blocks {
					for _, in := range b.Instrs {
						if st, isSt := in.(*ssa.Store); isSt && st.Addr == ssa.Value(g) {
							ok = false
						}
					}
				}
			}
		}
	}
	globalInitOnly[g] = ok
	return ok
}

// pathStop, when set, cuts every path at the entry of a block it accepts (see EnumPathsStop).
var pathStop func(b *ssa.BasicBlock) bool

// EnumPathsStop is EnumPathsN for a rule that only cares about a prefix of the
// function: a path ends (End = first instruction of the block) as soon as it
// enters a block of the start function for which stop answers true. Used to
// keep the number of paths down in long functions made of independent ifs.
func EnumPathsStop(start *ssa.BasicBlock, idx int, limit int, maxVisits int, stop func(b *ssa.BasicBlock) bool, yield func(*Path)) bool {
	old := pathStop
	pathStop = stop
	defer func() { pathStop = old }()
	return EnumPathsSeed(start, idx, limit, maxVisits, nil, yield)
}

// Canon names a value as the path sees it: two syntactically different computations of the same
// field of the same value (or the same stable field load) get the same name.
func (p *Path) Canon(v ssa.Value) string { return p.canon(v) }
