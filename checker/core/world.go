// Package core loads /repo as a type-checked program (go/packages + go/ssa)
// and offers the small analyses the repository-specific rules are written in.
package core

import (
	"fmt"
	"go/ast"
	"go/token"
	"go/types"
	"os"
	"sort"
	"strings"

	"golang.org/x/tools/go/callgraph"
	"golang.org/x/tools/go/callgraph/cha"
	"golang.org/x/tools/go/callgraph/vta"
	"golang.org/x/tools/go/packages"
	"golang.org/x/tools/go/ssa"
	"golang.org/x/tools/go/ssa/ssautil"
)

// ModulePath is the module under analysis.
const ModulePath = "github.com/mgtv-tech/redis-GunYu"

// Unroll is how often a path may pass through one loop body when rules
// enumerate paths with inner loops unrolled (2 in the quick tier, 3 in the
// thorough tier).
var Unroll = 2

// MinPackages is the number of non-test packages confirmed by hand on the
// pinned tree; fewer means the loader did not see the program.
const MinPackages = 30

type World struct {
	Repo  string
	Fset  *token.FileSet
	Pkgs  []*packages.Package
	ByPth map[string]*packages.Package
	Prog  *ssa.Program
	SSA   map[string]*ssa.Package

	funcs   map[string]*ssa.Function // short name -> function (module functions incl. closures)
	cg      *callgraph.Graph
	NumFunc int
}

// Load type-checks every package of the module in repo and builds SSA for
// them. Any load or type error is returned: an analysis that did not see the
// program proves nothing.
func Load(repo string, env []string) (*World, error) {
	fset := token.NewFileSet()
	cfg := &packages.Config{
		Mode: packages.NeedName | packages.NeedFiles | packages.NeedCompiledGoFiles |
			packages.NeedSyntax | packages.NeedTypes | packages.NeedTypesInfo |
			packages.NeedImports | packages.NeedDeps | packages.NeedModule | packages.NeedTypesSizes,
		Dir:   repo,
		Fset:  fset,
		Tests: false,
		Env: append(append(os.Environ(),
			"GOFLAGS=-mod=mod", "GOPROXY=off", "GOSUMDB=off", "GOTOOLCHAIN=local", "GOWORK=off"), env...),
	}
	pkgs, err := packages.Load(cfg, "./...")
	if err != nil {
		return nil, fmt.Errorf("packages.Load: %w", err)
	}
	var errs []string
	packages.Visit(pkgs, nil, func(p *packages.Package) {
		for _, e := range p.Errors {
			errs = append(errs, e.Error())
		}
	})
	if len(errs) > 0 {
		if len(errs) > 10 {
			errs = errs[:10]
		}
		return nil, fmt.Errorf("load/type errors: %s", strings.Join(errs, "; "))
	}
	if len(pkgs) < MinPackages {
		return nil, fmt.Errorf("only %d packages loaded (floor %d)", len(pkgs), MinPackages)
	}
	w := &World{Repo: repo, Fset: fset, Pkgs: pkgs, ByPth: map[string]*packages.Package{}, SSA: map[string]*ssa.Package{}}
	prog, spkgs := ssautil.Packages(pkgs, ssa.InstantiateGenerics)
	w.Prog = prog
	for i, p := range pkgs {
		w.ByPth[p.PkgPath] = p
		if spkgs[i] == nil {
			return nil, fmt.Errorf("no SSA package for %s", p.PkgPath)
		}
		w.SSA[p.PkgPath] = spkgs[i]
	}
	prog.Build()
	w.indexFuncs()
	w.buildExpansion()
	return w, nil
}

// Short strips the module path from a qualified name.
func Short(s string) string {
	s = strings.ReplaceAll(s, ModulePath+"/", "")
	s = strings.ReplaceAll(s, ModulePath+".", "main.")
	return s
}

// FuncName gives the short qualified name of an SSA function:
// "syncer.(*RedisOutput).sendCmdsBatch", "pkg/redis.KeyToSlot",
// closures as "parent$1".
func FuncName(f *ssa.Function) string {
	if f == nil {
		return "<nil>"
	}
	return Short(f.RelString(nil))
}

func (w *World) indexFuncs() {
	w.funcs = map[string]*ssa.Function{}
	var add func(f *ssa.Function)
	add = func(f *ssa.Function) {
		if f == nil {
			return
		}
		n := FuncName(f)
		if _, dup := w.funcs[n]; dup {
			return
		}
		w.funcs[n] = f
		w.NumFunc++
		for _, a := range f.AnonFuncs {
			add(a)
		}
	}
	for _, sp := range w.SSA {
		for _, m := range sp.Members {
			switch m := m.(type) {
			case *ssa.Function:
				add(m)
			case *ssa.Type:
				for _, t := range []types.Type{m.Type(), types.NewPointer(m.Type())} {
					ms := w.Prog.MethodSets.MethodSet(t)
					for i := 0; i < ms.Len(); i++ {
						fn := w.Prog.MethodValue(ms.At(i))
						if fn != nil && fn.Pkg == sp && fn.Synthetic == "" {
							add(fn)
						}
					}
				}
			}
		}
	}
}

// Func returns the module function with the given short name, or nil.
func (w *World) Func(name string) *ssa.Function { return w.funcs[name] }

// Funcs returns all module functions (including closures), sorted by name.
func (w *World) Funcs() []*ssa.Function {
	names := make([]string, 0, len(w.funcs))
	for n := range w.funcs {
		names = append(names, n)
	}
	sort.Strings(names)
	out := make([]*ssa.Function, 0, len(names))
	for _, n := range names {
		out = append(out, w.funcs[n])
	}
	return out
}

// FuncsIn returns the module functions (with closures) of one package path
// (short, e.g. "syncer").
func (w *World) FuncsIn(pkg string) []*ssa.Function {
	var out []*ssa.Function
	for _, f := range w.Funcs() {
		if f.Pkg != nil && Short(f.Pkg.Pkg.Path()) == pkg {
			out = append(out, f)
		} else if f.Pkg == nil && f.Parent() != nil {
			p := f
			for p.Parent() != nil {
				p = p.Parent()
			}
			if p.Pkg != nil && Short(p.Pkg.Pkg.Path()) == pkg {
				out = append(out, f)
			}
		}
	}
	return out
}

// Pkg returns the loaded package with the short path.
func (w *World) Pkg(short string) *packages.Package {
	if p, ok := w.ByPth[ModulePath+"/"+short]; ok {
		return p
	}
	if short == "main" || short == "" {
		return w.ByPth[ModulePath]
	}
	return nil
}

// Pos renders a position relative to the repository root.
func (w *World) Pos(p token.Pos) string {
	if !p.IsValid() {
		return "-"
	}
	ps := w.Fset.Position(p)
	fn := strings.TrimPrefix(ps.Filename, w.Repo+"/")
	return fmt.Sprintf("%s:%d", fn, ps.Line)
}

// CallGraph builds (once) the VTA call graph refined from CHA.
func (w *World) CallGraph() *callgraph.Graph {
	if w.cg == nil {
		all := ssautil.AllFunctions(w.Prog)
		w.cg = vta.CallGraph(all, cha.CallGraph(w.Prog))
	}
	return w.cg
}

// FuncDecl finds the syntax of a named function or method in a package:
// recv is "" for functions, "T" for methods on T or *T.
func (w *World) FuncDecl(pkgShort, recv, name string) (*ast.FuncDecl, *packages.Package) {
	p := w.Pkg(pkgShort)
	if p == nil {
		return nil, nil
	}
	for _, f := range p.Syntax {
		for _, d := range f.Decls {
			fd, ok := d.(*ast.FuncDecl)
			if !ok || fd.Name.Name != name {
				continue
			}
			r := ""
			if fd.Recv != nil && len(fd.Recv.List) == 1 {
				t := fd.Recv.List[0].Type
				if s, ok := t.(*ast.StarExpr); ok {
					t = s.X
				}
				if ix, ok := t.(*ast.IndexExpr); ok {
					t = ix.X
				}
				if id, ok := t.(*ast.Ident); ok {
					r = id.Name
				}
			}
			if r == recv {
				return fd, p
			}
		}
	}
	return nil, p
}
