// Package core loads /repo as a type-checked program (go/packages + go/ssa)
// and offers the small analyses the repository-specific rules are written in.
package core

import (
	"fmt"
	"go/ast"
	"go/token"
	"go/types"
	"os"
	"sort"
	"strings"

	"golang.org/x/tools/go/callgraph"
	"golang.org/x/tools/go/callgraph/cha"
	"golang.org/x/tools/go/callgraph/vta"
	"golang.org/x/tools/go/packages"
	"golang.org/x/tools/go/ssa"
	"golang.org/x/tools/go/ssa/ssautil"
)

// ModulePath is the module under analysis.
const ModulePath = "github.com/mgtv-tech/redis-GunYu"

// Unroll is how often a path may pass through one loop body when rules
// enumerate paths with inner loops unrolled (2 in the quick tier, 3 in the
// thorough tier).
var Unroll = 2

// MinPackages is the number of non-test packages confirmed by hand on the
// pinned tree; fewer means the loader did not see the program.
const MinPackages = 30

type World struct {
	Repo  string
	Fset  *token.FileSet
	Pkgs  []*packages.Package
	ByPth map[string]*packages.Package
	Prog  *ssa.Program
	SSA   map[string]*ssa.Package

	funcs   map[string]*ssa.Function // short name -> function (module functions incl. closures)
	renamed map[string]string        // new name -> known name, for functions recognised as renamed
	cg      *callgraph.Graph
	NumFunc int
}

// Load type-checks every package of the module in repo and builds SSA for
// them. Any load or type error is returned: an analysis that did not see the
// program proves nothing.
func Load(repo string, env []string) (*World, error) {
	fset := token.NewFileSet()
	cfg := &packages.Config{
		Mode: packages.NeedName | packages.NeedFiles | packages.NeedCompiledGoFiles |
			packages.NeedSyntax | packages.NeedTypes | packages.NeedTypesInfo |
			packages.NeedImports | packages.NeedDeps | packages.NeedModule | packages.NeedTypesSizes,
		Dir:   repo,
		Fset:  fset,
		Tests: false,
		Env: append(append(os.Environ(),
			"GOFLAGS=-mod=mod", "GOPROXY=off", "GOSUMDB=off", "GOTOOLCHAIN=local", "GOWORK=off"), env...),
	}
	pkgs, err := packages.Load(cfg, "./...")
	if err != nil {
		return nil, fmt.Errorf("packages.Load: %w", err)
	}
	var errs []string
	packages.Visit(pkgs, nil, func(p *packages.Package) {
		for _, e := range p.Errors {
			errs = append(errs, e.Error())
		}
	})
	if len(errs) > 0 {
		if len(errs) > 10 {
			errs = errs[:10]
		}
		return nil, fmt.Errorf("load/type errors: %s", strings.Join(errs, "; "))
	}
	if len(pkgs) < MinPackages {
		return nil, fmt.Errorf("only %d packages loaded (floor %d)", len(pkgs), MinPackages)
	}
	w := &World{Repo: repo, Fset: fset, Pkgs: pkgs, ByPth: map[string]*packages.Package{}, SSA: map[string]*ssa.Package{}}
	prog, spkgs := ssautil.Packages(pkgs, ssa.InstantiateGenerics)
	w.Prog = prog
	for i, p := range pkgs {
		w.ByPth[p.PkgPath] = p
		if spkgs[i] == nil {
			return nil, fmt.Errorf("no SSA package for %s", p.PkgPath)
		}
		w.SSA[p.PkgPath] = spkgs[i]
	}
	prog.Build()
	w.indexFuncs()
	w.resolveRenames()
	w.buildExpansion()
	return w, nil
}

// Short strips the module path from a qualified name.
func Short(s string) string {
	s = strings.ReplaceAll(s, ModulePath+"/", "")
	s = strings.ReplaceAll(s, ModulePath+".", "main.")
	return s
}

// Pinned lists the named functions (name -> signature) of the tree the rules
// were written against; see World.resolveRenames.
var Pinned map[string]string

// funcAlias maps a function that was renamed since the pinned tree to the name
// the rules know it by.
var funcAlias = map[*ssa.Function]string{}

// Renamed reports the renames that were recognised (new name -> known name).
func (w *World) Renamed() map[string]string { return w.renamed }

// resolveRenames: a known function that is gone, while exactly one function
// unknown to the rule base has the same receiver (or package) and the same
// signature, is taken to be that function under a new name. From then on the
// new function answers to the known name.
func (w *World) resolveRenames() {
	w.renamed = map[string]string{}
	funcAlias = map[*ssa.Function]string{}
	if len(Pinned) == 0 {
		return
	}
	prefix := func(n string) string {
		if i := strings.LastIndex(n, "."); i >= 0 {
			return n[:i]
		}
		return ""
	}
	var unknown []*ssa.Function
	for n, f := range w.funcs {
		if f.Parent() == nil {
			if _, ok := Pinned[n]; !ok {
				unknown = append(unknown, f)
			}
		}
	}
	claimed := map[*ssa.Function]int{}
	match := map[string]*ssa.Function{}
	for n, sig := range Pinned {
		if _, ok := w.funcs[n]; ok {
			continue
		}
		var cands []*ssa.Function
		for _, f := range unknown {
			if prefix(FuncName(f)) == prefix(n) && SigKey(f) == sig {
				cands = append(cands, f)
			}
		}
		if len(cands) == 1 {
			match[n] = cands[0]
			claimed[cands[0]]++
		}
	}
	// second pass: a package-level function turned into a method of the type of one of its parameters (or
	// back): same package, same results, the same parameter types counting the receiver, in any order
	pkgOf := func(n string) string {
		n = strings.TrimPrefix(n, "(")
		n = strings.TrimPrefix(n, "*")
		if i := strings.LastIndex(n, "/"); i >= 0 {
			j := strings.Index(n[i:], ".")
			if j >= 0 {
				return n[:i+j]
			}
			return n
		}
		if j := strings.Index(n, "."); j >= 0 {
			return n[:j]
		}
		return n
	}
	for n, sig := range Pinned {
		if _, ok := w.funcs[n]; ok {
			continue
		}
		if _, done := match[n]; done {
			continue
		}
		var cands []*ssa.Function
		for _, f := range unknown {
			if claimed[f] == 0 && pkgOf(FuncName(f)) == pkgOf(n) && bagSigKey(SigKeyWithRecv(f)) == bagSigKey(sig) {
				cands = append(cands, f)
			}
		}
		if len(cands) == 1 {
			match[n] = cands[0]
			claimed[cands[0]]++
		}
	}
	for n, f := range match {
		if claimed[f] != 1 {
			continue
		}
		w.renamed[FuncName(f)] = n
		delete(w.funcs, FuncName(f))
		funcAlias[f] = n
		w.funcs[n] = f
	}
}

// SigKeyWithRecv is SigKey with the receiver counted as the first parameter.
func SigKeyWithRecv(f *ssa.Function) string {
	k := SigKey(f)
	if recv := f.Signature.Recv(); recv != nil {
		if strings.HasPrefix(k, "()") {
			return "(" + recv.Type().String() + k[1:]
		}
		return "(" + recv.Type().String() + "," + k[1:]
	}
	return k
}

// bagSigKey: a signature key with its parameter list sorted.
func bagSigKey(k string) string {
	i := strings.Index(k, ")(")
	if i < 0 || !strings.HasPrefix(k, "(") {
		return k
	}
	ps := strings.Split(k[1:i], ",")
	sort.Strings(ps)
	return "(" + strings.Join(ps, ",") + k[i:]
}

// FuncName gives the short qualified name of an SSA function:
// "syncer.(*RedisOutput).sendCmdsBatch", "pkg/redis.KeyToSlot",
// closures as "parent$1".
func FuncName(f *ssa.Function) string {
	if f == nil {
		return "<nil>"
	}
	if a, ok := funcAlias[f]; ok {
		return a
	}
	if p := f.Parent(); p != nil {
		// closures of a renamed function keep the known name as their prefix
		root := p
		for root.Parent() != nil {
			root = root.Parent()
		}
		if a, ok := funcAlias[root]; ok {
			return a + strings.TrimPrefix(Short(f.RelString(nil)), Short(root.RelString(nil)))
		}
	}
	return Short(f.RelString(nil))
}

func (w *World) indexFuncs() {
	w.funcs = map[string]*ssa.Function{}
	var add func(f *ssa.Function)
	add = func(f *ssa.Function) {
		if f == nil {
			return
		}
		n := FuncName(f)
		if _, dup := w.funcs[n]; dup {
			return
		}
		w.funcs[n] = f
		w.NumFunc++
		for _, a := range f.AnonFuncs {
			add(a)
		}
	}
	for _, sp := range w.SSA {
		for _, m := range sp.Members {
			switch m := m.(type) {
			case *ssa.Function:
				add(m)
			case *ssa.Type:
				for _, t := range []types.Type{m.Type(), types.NewPointer(m.Type())} {
					ms := w.Prog.MethodSets.MethodSet(t)
					for i := 0; i < ms.Len(); i++ {
						fn := w.Prog.MethodValue(ms.At(i))
						if fn != nil && fn.Pkg == sp && fn.Synthetic == "" {
							add(fn)
						}
					}
				}
			}
		}
	}
}

// Func returns the module function with the given short name, or nil.
func (w *World) Func(name string) *ssa.Function { return w.funcs[name] }

// Funcs returns all module functions (including closures), sorted by name.
func (w *World) Funcs() []*ssa.Function {
	names := make([]string, 0, len(w.funcs))
	for n := range w.funcs {
		names = append(names, n)
	}
	sort.Strings(names)
	out := make([]*ssa.Function, 0, len(names))
	for _, n := range names {
		out = append(out, w.funcs[n])
	}
	return out
}

// FuncsIn returns the module functions (with closures) of one package path
// (short, e.g. "syncer").
func (w *World) FuncsIn(pkg string) []*ssa.Function {
	var out []*ssa.Function
	for _, f := range w.Funcs() {
		if f.Pkg != nil && Short(f.Pkg.Pkg.Path()) == pkg {
			out = append(out, f)
		} else if f.Pkg == nil && f.Parent() != nil {
			p := f
			for p.Parent() != nil {
				p = p.Parent()
			}
			if p.Pkg != nil && Short(p.Pkg.Pkg.Path()) == pkg {
				out = append(out, f)
			}
		}
	}
	return out
}

// Pkg returns the loaded package with the short path.
func (w *World) Pkg(short string) *packages.Package {
	if p, ok := w.ByPth[ModulePath+"/"+short]; ok {
		return p
	}
	if short == "main" || short == "" {
		return w.ByPth[ModulePath]
	}
	return nil
}

// Pos renders a position relative to the repository root.
func (w *World) Pos(p token.Pos) string {
	if !p.IsValid() {
		return "-"
	}
	ps := w.Fset.Position(p)
	fn := strings.TrimPrefix(ps.Filename, w.Repo+"/")
	return fmt.Sprintf("%s:%d", fn, ps.Line)
}

// CallGraph builds (once) the VTA call graph refined from CHA.
func (w *World) CallGraph() *callgraph.Graph {
	if w.cg == nil {
		all := ssautil.AllFunctions(w.Prog)
		w.cg = vta.CallGraph(all, cha.CallGraph(w.Prog))
	}
	return w.cg
}

// FuncDecl finds the syntax of a named function or method in a package:
// recv is "" for functions, "T" for methods on T or *T.
func (w *World) FuncDecl(pkgShort, recv, name string) (*ast.FuncDecl, *packages.Package) {
	p := w.Pkg(pkgShort)
	if p == nil {
		return nil, nil
	}
	for _, f := range p.Syntax {
		for _, d := range f.Decls {
			fd, ok := d.(*ast.FuncDecl)
			if !ok || fd.Name.Name != name {
				continue
			}
			r := ""
			if fd.Recv != nil && len(fd.Recv.List) == 1 {
				t := fd.Recv.List[0].Type
				if s, ok := t.(*ast.StarExpr); ok {
					t = s.X
				}
				if ix, ok := t.(*ast.IndexExpr); ok {
					t = ix.X
				}
				if id, ok := t.(*ast.Ident); ok {
					r = id.Name
				}
			}
			if r == recv {
				return fd, p
			}
		}
	}
	return nil, p
}


// SigKey renders a function's parameter and result types without their names.
func SigKey(f *ssa.Function) string {
	var b strings.Builder
	b.WriteString("(")
	ps := f.Signature.Params()
	for i := 0; i < ps.Len(); i++ {
		if i > 0 {
			b.WriteString(",")
		}
		b.WriteString(ps.At(i).Type().String())
	}
	if f.Signature.Variadic() {
		b.WriteString("...")
	}
	b.WriteString(")(")
	rs := f.Signature.Results()
	for i := 0; i < rs.Len(); i++ {
		if i > 0 {
			b.WriteString(",")
		}
		b.WriteString(rs.At(i).Type().String())
	}
	b.WriteString(")")
	return b.String()
}
