package core

import (
	"fmt"
	"strings"
)

// A parser for the Lua subset used by the scripts embedded in the
// repository (locals, if/elseif/else/end, return, redis.call, == / ~=, not,
// and/or, literals, KEYS[i] / ARGV[i]). Anything else is a parse error, which
// the rules report as undecided.

type LuaExpr struct {
	Kind string // "name", "str", "num", "bool", "nil", "index", "call", "cmp", "not", "logic"
	Val  string // name / literal / operator
	Args []*LuaExpr
}

func (e *LuaExpr) String() string {
	switch e.Kind {
	case "name", "num", "bool", "nil":
		return e.Val
	case "str":
		return "'" + e.Val + "'"
	case "index":
		return e.Args[0].String() + "[" + e.Args[1].String() + "]"
	case "call":
		var a []string
		for _, x := range e.Args {
			a = append(a, x.String())
		}
		return e.Val + "(" + strings.Join(a, ",") + ")"
	case "cmp", "logic":
		return "(" + e.Args[0].String() + " " + e.Val + " " + e.Args[1].String() + ")"
	case "not":
		return "not " + e.Args[0].String()
	}
	return "?"
}

type LuaStmt struct {
	Kind  string // "local", "assign", "call", "return", "if"
	Name  string
	Expr  *LuaExpr
	Conds []*LuaExpr   // if / elseif conditions
	Blks  [][]*LuaStmt // matching blocks; one extra for else (may be nil)
}

type luaTok struct{ kind, val string }

func luaLex(src string) ([]luaTok, error) {
	var out []luaTok
	i := 0
	for i < len(src) {
		c := src[i]
		switch {
		case c == ' ' || c == '\t' || c == '\n' || c == '\r' || c == ';':
			i++
		case c == '-' && i+1 < len(src) && src[i+1] == '-':
			for i < len(src) && src[i] != '\n' {
				i++
			}
		case c == '\'' || c == '"':
			j := i + 1
			for j < len(src) && src[j] != c {
				if src[j] == '\\' {
					j++
				}
				j++
			}
			if j >= len(src) {
				return nil, fmt.Errorf("unterminated string")
			}
			out = append(out, luaTok{"str", src[i+1 : j]})
			i = j + 1
		case c >= '0' && c <= '9':
			j := i
			for j < len(src) && (src[j] >= '0' && src[j] <= '9' || src[j] == '.') {
				j++
			}
			out = append(out, luaTok{"num", src[i:j]})
			i = j
		case c == '_' || c >= 'a' && c <= 'z' || c >= 'A' && c <= 'Z':
			j := i
			for j < len(src) && (src[j] == '_' || src[j] == '.' || src[j] >= 'a' && src[j] <= 'z' || src[j] >= 'A' && src[j] <= 'Z' || src[j] >= '0' && src[j] <= '9') {
				j++
			}
			w := src[i:j]
			switch w {
			case "local", "if", "then", "elseif", "else", "end", "return", "not", "and", "or", "true", "false", "nil":
				out = append(out, luaTok{"kw", w})
			default:
				out = append(out, luaTok{"name", w})
			}
			i = j
		case c == '=' && i+1 < len(src) && src[i+1] == '=':
			out = append(out, luaTok{"op", "=="})
			i += 2
		case c == '~' && i+1 < len(src) && src[i+1] == '=':
			out = append(out, luaTok{"op", "~="})
			i += 2
		case strings.ContainsRune("=()[],", rune(c)):
			out = append(out, luaTok{"p", string(c)})
			i++
		default:
			return nil, fmt.Errorf("unsupported character %q", c)
		}
	}
	return out, nil
}

type luaParser struct {
	t []luaTok
	i int
}

func (p *luaParser) peek() luaTok {
	if p.i < len(p.t) {
		return p.t[p.i]
	}
	return luaTok{"eof", ""}
}
func (p *luaParser) next() luaTok { t := p.peek(); p.i++; return t }
func (p *luaParser) accept(kind, val string) bool {
	t := p.peek()
	if t.kind == kind && t.val == val {
		p.i++
		return true
	}
	return false
}

// ParseLua parses a script of the supported subset.
func ParseLua(src string) ([]*LuaStmt, error) {
	toks, err := luaLex(src)
	if err != nil {
		return nil, err
	}
	p := &luaParser{t: toks}
	b, err := p.block()
	if err != nil {
		return nil, err
	}
	if p.peek().kind != "eof" {
		return nil, fmt.Errorf("unexpected %q", p.peek().val)
	}
	return b, nil
}

func (p *luaParser) block() ([]*LuaStmt, error) {
	var out []*LuaStmt
	for {
		t := p.peek()
		if t.kind == "eof" || t.kind == "kw" && (t.val == "end" || t.val == "else" || t.val == "elseif") {
			return out, nil
		}
		s, err := p.stmt()
		if err != nil {
			return nil, err
		}
		out = append(out, s)
	}
}

func (p *luaParser) stmt() (*LuaStmt, error) {
	t := p.peek()
	switch {
	case t.kind == "kw" && t.val == "local":
		p.next()
		n := p.next()
		if n.kind != "name" {
			return nil, fmt.Errorf("local without a name")
		}
		s := &LuaStmt{Kind: "local", Name: n.val}
		if p.accept("p", "=") {
			e, err := p.expr()
			if err != nil {
				return nil, err
			}
			s.Expr = e
		}
		return s, nil
	case t.kind == "kw" && t.val == "return":
		p.next()
		s := &LuaStmt{Kind: "return"}
		nt := p.peek()
		if !(nt.kind == "eof" || nt.kind == "kw" && (nt.val == "end" || nt.val == "else" || nt.val == "elseif")) {
			e, err := p.expr()
			if err != nil {
				return nil, err
			}
			s.Expr = e
		}
		return s, nil
	case t.kind == "kw" && t.val == "if":
		p.next()
		s := &LuaStmt{Kind: "if"}
		for {
			c, err := p.expr()
			if err != nil {
				return nil, err
			}
			if !p.accept("kw", "then") {
				return nil, fmt.Errorf("expected then")
			}
			b, err := p.block()
			if err != nil {
				return nil, err
			}
			s.Conds = append(s.Conds, c)
			s.Blks = append(s.Blks, b)
			if p.accept("kw", "elseif") {
				continue
			}
			if p.accept("kw", "else") {
				b, err := p.block()
				if err != nil {
					return nil, err
				}
				s.Blks = append(s.Blks, b)
			} else {
				s.Blks = append(s.Blks, nil)
			}
			if !p.accept("kw", "end") {
				return nil, fmt.Errorf("expected end")
			}
			return s, nil
		}
	case t.kind == "name":
		e, err := p.primary()
		if err != nil {
			return nil, err
		}
		if e.Kind == "call" {
			return &LuaStmt{Kind: "call", Expr: e}, nil
		}
		if e.Kind == "name" && p.accept("p", "=") {
			v, err := p.expr()
			if err != nil {
				return nil, err
			}
			return &LuaStmt{Kind: "assign", Name: e.Val, Expr: v}, nil
		}
		return nil, fmt.Errorf("unsupported statement at %q", t.val)
	}
	return nil, fmt.Errorf("unsupported statement at %q", t.val)
}

func (p *luaParser) expr() (*LuaExpr, error) {
	l, err := p.cmp()
	if err != nil {
		return nil, err
	}
	for {
		t := p.peek()
		if t.kind == "kw" && (t.val == "and" || t.val == "or") {
			p.next()
			r, err := p.cmp()
			if err != nil {
				return nil, err
			}
			l = &LuaExpr{Kind: "logic", Val: t.val, Args: []*LuaExpr{l, r}}
			continue
		}
		return l, nil
	}
}

func (p *luaParser) cmp() (*LuaExpr, error) {
	if p.accept("kw", "not") {
		e, err := p.cmp()
		if err != nil {
			return nil, err
		}
		return &LuaExpr{Kind: "not", Args: []*LuaExpr{e}}, nil
	}
	l, err := p.primary()
	if err != nil {
		return nil, err
	}
	t := p.peek()
	if t.kind == "op" {
		p.next()
		r, err := p.primary()
		if err != nil {
			return nil, err
		}
		return &LuaExpr{Kind: "cmp", Val: t.val, Args: []*LuaExpr{l, r}}, nil
	}
	return l, nil
}

func (p *luaParser) primary() (*LuaExpr, error) {
	t := p.next()
	switch t.kind {
	case "str":
		return &LuaExpr{Kind: "str", Val: t.val}, nil
	case "num":
		return &LuaExpr{Kind: "num", Val: t.val}, nil
	case "kw":
		switch t.val {
		case "true", "false":
			return &LuaExpr{Kind: "bool", Val: t.val}, nil
		case "nil":
			return &LuaExpr{Kind: "nil", Val: "nil"}, nil
		}
	case "p":
		if t.val == "(" {
			e, err := p.expr()
			if err != nil {
				return nil, err
			}
			if !p.accept("p", ")") {
				return nil, fmt.Errorf("expected )")
			}
			return e, nil
		}
	case "name":
		e := &LuaExpr{Kind: "name", Val: t.val}
		if p.accept("p", "[") {
			ix, err := p.expr()
			if err != nil {
				return nil, err
			}
			if !p.accept("p", "]") {
				return nil, fmt.Errorf("expected ]")
			}
			return &LuaExpr{Kind: "index", Args: []*LuaExpr{e, ix}}, nil
		}
		if p.accept("p", "(") {
			c := &LuaExpr{Kind: "call", Val: t.val}
			if !p.accept("p", ")") {
				for {
					a, err := p.expr()
					if err != nil {
						return nil, err
					}
					c.Args = append(c.Args, a)
					if p.accept("p", ",") {
						continue
					}
					if !p.accept("p", ")") {
						return nil, fmt.Errorf("expected ) in call")
					}
					break
				}
			}
			return c, nil
		}
		return e, nil
	}
	return nil, fmt.Errorf("unexpected token %q", t.val)
}

// LuaPath is one execution path of a script: the branch conditions taken
// (with locals substituted by their defining expressions), the redis.call
// invocations made and the value returned.
type LuaPath struct {
	Conds []string // normalised condition strings, negated ones prefixed with "not "
	Calls []*LuaExpr
	Ret   string
}

// LuaPaths enumerates the paths of a script.
func LuaPaths(stmts []*LuaStmt) []*LuaPath {
	var out []*LuaPath
	var run func(stmts []*LuaStmt, env map[string]*LuaExpr, p *LuaPath, cont func(env map[string]*LuaExpr, p *LuaPath))
	subst := func(e *LuaExpr, env map[string]*LuaExpr) *LuaExpr { return luaSubst(e, env) }
	run = func(stmts []*LuaStmt, env map[string]*LuaExpr, p *LuaPath, cont func(map[string]*LuaExpr, *LuaPath)) {
		if len(stmts) == 0 {
			cont(env, p)
			return
		}
		s := stmts[0]
		rest := stmts[1:]
		switch s.Kind {
		case "local", "assign":
			env2 := map[string]*LuaExpr{}
			for k, v := range env {
				env2[k] = v
			}
			p2 := *p
			if s.Expr != nil {
				e := subst(s.Expr, env)
				if e.Kind == "call" {
					p2.Calls = append(append([]*LuaExpr{}, p.Calls...), e)
					// the call result is named after its position so that two GETs differ
					e = &LuaExpr{Kind: "name", Val: fmt.Sprintf("result#%d:%s", len(p2.Calls), e.String())}
				}
				env2[s.Name] = e
			} else {
				env2[s.Name] = &LuaExpr{Kind: "nil", Val: "nil"}
			}
			run(rest, env2, &p2, cont)
		case "call":
			p2 := *p
			p2.Calls = append(append([]*LuaExpr{}, p.Calls...), subst(s.Expr, env))
			run(rest, env, &p2, cont)
		case "return":
			p2 := *p
			p2.Ret = "<none>"
			if s.Expr != nil {
				p2.Ret = subst(s.Expr, env).String()
			}
			out = append(out, &p2)
		case "if":
			neg := []string{}
			for i, c := range s.Conds {
				cs := subst(c, env).String()
				p2 := *p
				p2.Conds = append(append(append([]string{}, p.Conds...), neg...), cs)
				run(s.Blks[i], env, &p2, func(env map[string]*LuaExpr, p *LuaPath) { run(rest, env, p, cont) })
				neg = append(neg, "not "+cs)
			}
			p2 := *p
			p2.Conds = append(append([]string{}, p.Conds...), neg...)
			run(s.Blks[len(s.Conds)], env, &p2, func(env map[string]*LuaExpr, p *LuaPath) { run(rest, env, p, cont) })
		}
	}
	run(stmts, map[string]*LuaExpr{}, &LuaPath{}, func(env map[string]*LuaExpr, p *LuaPath) {
		p2 := *p
		p2.Ret = "<fallthrough>"
		out = append(out, &p2)
	})
	return out
}

func luaSubst(e *LuaExpr, env map[string]*LuaExpr) *LuaExpr {
	if e == nil {
		return nil
	}
	if e.Kind == "name" {
		if v, ok := env[e.Val]; ok {
			return v
		}
		return e
	}
	n := &LuaExpr{Kind: e.Kind, Val: e.Val}
	for _, a := range e.Args {
		n.Args = append(n.Args, luaSubst(a, env))
	}
	return n
}
