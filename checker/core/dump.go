package core

import "fmt"

// Dump prints the resolved call sites of a function (debug aid).
func Dump(w *World, name string) {
	fn := w.Func(name)
	if fn == nil {
		fmt.Println("no such function; candidates:")
		for _, f := range w.Funcs() {
			if MatchName(FuncName(f), "*"+name) {
				fmt.Println("  ", FuncName(f))
			}
		}
		return
	}
	for _, s := range Sites(fn, true) {
		cmd, _ := CmdName(s)
		fmt.Printf("%-28s %-60s %s in %s\n", w.Pos(s.Pos()), s.Name, cmd, FuncName(s.Fn))
	}
}

// DumpNames prints all function names (debug aid).
func DumpNames(w *World) {
	for _, f := range w.Funcs() {
		fmt.Println(FuncName(f))
	}
}

// DumpSignatures prints "name<TAB>signature" for all named functions (used to generate the pinned list).
func DumpSignatures(w *World) {
	for _, f := range w.Funcs() {
		if f.Parent() != nil {
			continue
		}
		fmt.Printf("%s\t%s\n", FuncName(f), SigKey(f))
	}
}
