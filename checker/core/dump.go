package core

import (
	"fmt"
	"sort"
	"strings"

	"golang.org/x/tools/go/ssa"
)

// Dump prints the resolved call sites of a function (debug aid).
func Dump(w *World, name string) {
	fn := w.Func(name)
	if fn == nil {
		fmt.Println("no such function; candidates:")
		for _, f := range w.Funcs() {
			if MatchName(FuncName(f), "*"+name) {
				fmt.Println("  ", FuncName(f))
			}
		}
		return
	}
	for _, s := range Sites(fn, true) {
		cmd, _ := CmdName(s)
		fmt.Printf("%-28s %-60s %s in %s\n", w.Pos(s.Pos()), s.Name, cmd, FuncName(s.Fn))
	}
}

// DumpNames prints all function names (debug aid).
func DumpNames(w *World) {
	for _, f := range w.Funcs() {
		fmt.Println(FuncName(f))
	}
}

// DumpSignatures prints "name<TAB>signature" for all named functions (used to generate the pinned list).
func DumpSignatures(w *World) {
	for _, f := range w.Funcs() {
		if f.Parent() != nil {
			continue
		}
		fmt.Printf("%s\t%s\n", FuncName(f), SigKey(f))
	}
}


// DumpSoleCallers prints, for every named function of the module that is
// called statically from exactly one other named function (closures count for
// the function they are nested in), "callee<TAB>caller".
func DumpSoleCallers(w *World) {
	callers := map[string]map[string]bool{}
	for _, f := range w.Funcs() {
		top := f
		for top.Parent() != nil {
			top = top.Parent()
		}
		for _, b := range f.Blocks {
			for _, in := range b.Instrs {
				ci, ok := in.(ssa.CallInstruction)
				if !ok {
					continue
				}
				g := ci.Common().StaticCallee()
				if g == nil || g.Parent() != nil || g.Pkg == nil || !strings.HasPrefix(g.Pkg.Pkg.Path(), ModulePath) {
					continue
				}
				n := FuncName(g)
				if callers[n] == nil {
					callers[n] = map[string]bool{}
				}
				callers[n][FuncName(top)] = true
			}
		}
	}
	var names []string
	for n := range callers {
		names = append(names, n)
	}
	sort.Strings(names)
	for _, n := range names {
		if len(callers[n]) == 1 {
			for c := range callers[n] {
				if c != n {
					fmt.Printf("%s\t%s\n", n, c)
				}
			}
		}
	}
}
