package core

import (
	"encoding/json"
	"fmt"
	"go/token"
	"os"
	"path/filepath"
	"sort"
	"strings"
)

type Status string

const (
	OK         Status = "OK"
	FAIL       Status = "FAIL"
	UNRESOLVED Status = "UNRESOLVED" // anchor not found: the obligation cannot be located, which fails
	UNDECIDED  Status = "UNDECIDED"  // construct written in an idiom the rule cannot read, which fails
	KNOWN      Status = "KNOWN"      // failing instance listed in known_findings.json
	EXCLUDED   Status = "EXCLUDED"   // instance listed, outside the property's quantifier (informational)
)

// Instance is one obligation instance: a rule applied to one construct.
type Instance struct {
	Rule      string `json:"rule"`
	Construct string `json:"construct"` // stable key: function / role, never a line
	Pos       string `json:"pos"`
	Status    Status `json:"status"`
	Msg       string `json:"msg,omitempty"`
}

type Rule struct {
	ID       string `json:"id"`
	Template string `json:"template"`
	Floor    int    `json:"floor"` // minimum instance count confirmed by hand
	Count    int    `json:"instances"`
	Tier     string `json:"tier"`
}

type Report struct {
	Property  string
	Tier      string
	W         *World
	Rules     []*Rule
	Instances []Instance
	cur       *Rule
	Known     []KnownFinding
	analysed  map[string]bool
	CallSites int
	Config    string // non-default build configuration being analysed ("" = default)
	Configs   []string
}

type KnownFinding struct {
	Property  string `json:"property"`
	Rule      string `json:"rule"`
	Construct string `json:"construct"`
	Status    string `json:"status"` // "known" | "fixed"
	Commit    string `json:"commit,omitempty"`
	What      string `json:"what"`
}

func NewReport(w *World, prop, tier string, known []KnownFinding) *Report {
	return &Report{Property: prop, Tier: tier, W: w, Known: known, analysed: map[string]bool{}}
}

// Rule opens a rule; subsequent OK/Fail calls belong to it.
func (r *Report) Rule(id, template string, floor int) {
	for _, ru := range r.Rules {
		if ru.ID == id {
			r.cur = ru
			return
		}
	}
	r.cur = &Rule{ID: id, Template: template, Floor: floor, Tier: r.Tier}
	r.Rules = append(r.Rules, r.cur)
}

// Analysed records that a function body was inspected by some rule.
func (r *Report) Analysed(name string) { r.analysed[name] = true }

func (r *Report) add(st Status, construct string, pos token.Pos, msg string) {
	if r.cur == nil {
		panic("instance outside a rule")
	}
	p := "-"
	if r.W != nil {
		p = r.W.Pos(pos)
	}
	if st == FAIL || st == UNDECIDED || st == UNRESOLVED {
		for _, k := range r.Known {
			if k.Status == "known" && k.Property == r.Property && k.Rule == r.cur.ID && k.Construct == construct {
				st = KNOWN
				msg = k.What + " :: " + msg
			}
		}
	}
	if r.Config != "" {
		construct += "@" + r.Config
	}
	r.cur.Count++
	r.Instances = append(r.Instances, Instance{Rule: r.cur.ID, Construct: construct, Pos: p, Status: st, Msg: msg})
}

func (r *Report) OK(construct string, pos token.Pos, f string, a ...any) {
	r.add(OK, construct, pos, fmt.Sprintf(f, a...))
}
func (r *Report) Fail(construct string, pos token.Pos, f string, a ...any) {
	r.add(FAIL, construct, pos, fmt.Sprintf(f, a...))
}
func (r *Report) Unresolved(construct string, f string, a ...any) {
	r.add(UNRESOLVED, construct, token.NoPos, fmt.Sprintf(f, a...))
}
func (r *Report) Undecided(construct string, pos token.Pos, f string, a ...any) {
	r.add(UNDECIDED, construct, pos, fmt.Sprintf(f, a...))
}
func (r *Report) Excluded(construct string, pos token.Pos, f string, a ...any) {
	r.add(EXCLUDED, construct, pos, fmt.Sprintf(f, a...))
}

// Check is OK when cond holds, FAIL otherwise.
func (r *Report) Check(cond bool, construct string, pos token.Pos, f string, a ...any) bool {
	if cond {
		r.add(OK, construct, pos, "")
	} else {
		r.add(FAIL, construct, pos, fmt.Sprintf(f, a...))
	}
	return cond
}

// Finish applies the instance floors, prints the obligation lines, writes the
// evidence file and returns the process exit code.
func (r *Report) Finish(verifDir string, wall float64, seed int, loadInfo map[string]any) int {
	for _, ru := range r.Rules {
		if ru.Count < ru.Floor {
			r.cur = ru
			r.add(FAIL, "instance-floor", token.NoPos,
				fmt.Sprintf("rule matched %d instance(s), %d were confirmed by hand on the pinned tree: the rule would pass vacuously", ru.Count, ru.Floor))
		}
	}
	sort.SliceStable(r.Instances, func(i, j int) bool {
		if r.Instances[i].Rule != r.Instances[j].Rule {
			return ruleLess(r.Instances[i].Rule, r.Instances[j].Rule)
		}
		return false
	})
	viol := 0
	known := 0
	counts := map[Status]int{}
	for _, in := range r.Instances {
		counts[in.Status]++
		switch in.Status {
		case OK, EXCLUDED:
		case KNOWN:
			known++
			fmt.Printf("KNOWN-FINDING: property=%s rule=%s construct=%s at %s: %s\n", r.Property, in.Rule, in.Construct, in.Pos, in.Msg)
		default:
			viol++
			fmt.Printf("%s rule=%s construct=%s at %s: %s\n", in.Status, in.Rule, in.Construct, in.Pos, in.Msg)
		}
	}
	total := len(r.Instances)
	fmt.Printf("property=%s tier=%s rules=%d obligations=%d ok=%d excluded=%d known=%d failing=%d functions_analysed=%d wall=%.1fs\n",
		r.Property, r.Tier, len(r.Rules), total, counts[OK], counts[EXCLUDED], known, viol, len(r.analysed), wall)

	// evidence
	var samples []Instance
	seen := map[string]bool{}
	for _, in := range r.Instances {
		if !seen[in.Rule] {
			seen[in.Rule] = true
			samples = append(samples, in)
		}
	}
	fa := make([]string, 0, len(r.analysed))
	for n := range r.analysed {
		fa = append(fa, n)
	}
	sort.Strings(fa)
	ev := map[string]any{
		"property_id": r.Property,
		"tier":        r.Tier,
		"seed":        seed,
		"level":       "other",
		"wall_s":      wall,
		"violations":  viol,
		"assumptions": []string{
			"go/types and go/ssa (x/tools v0.29.0) represent /repo's program faithfully",
			"calls leaving the module are leaves with the effect class written in the rule",
			"only the listed necessary structural conditions are decided, not the runtime behaviour the property quantifies over",
		},
		"coverage": map[string]any{
			"explanation":          Explanations[r.Property],
			"obligations":          total,
			"discharged":           counts[OK] + counts[EXCLUDED],
			"known_findings":       known,
			"failing":              viol,
			"exhaustive":           true,
			"rules":                r.Rules,
			"instances":            r.Instances,
			"samples":              samples,
			"functions_analysed":   fa,
			"call_sites_examined":  r.CallSites,
			"load":                 loadInfo,
			"build_configurations": append([]string{"default (linux/amd64, no tags)"}, r.Configs...),
			"checker_cmd":          fmt.Sprintf("bin/gunyucheck -property %s -tier %s", r.Property, r.Tier),
			"trusted_base":         []string{"go/packages", "go/types", "go/ssa", "x/tools v0.29.0 callgraph (cha+vta)", "protocol constants embedded in the checker"},
		},
	}
	_ = os.MkdirAll(filepath.Join(verifDir, "evidence"), 0o755)
	b, _ := json.MarshalIndent(ev, "", " ")
	if err := os.WriteFile(filepath.Join(verifDir, "evidence", r.Property+".json"), b, 0o644); err != nil {
		fmt.Printf("cannot write evidence: %v\n", err)
		return 2
	}
	if viol > 0 {
		_ = os.MkdirAll(filepath.Join(verifDir, "evidence", "violations"), 0o755)
		var bad []Instance
		for _, in := range r.Instances {
			if in.Status != OK && in.Status != EXCLUDED && in.Status != KNOWN {
				bad = append(bad, in)
			}
		}
		vb, _ := json.MarshalIndent(map[string]any{"property": r.Property, "tier": r.Tier, "failing": bad}, "", " ")
		vp := filepath.Join(verifDir, "evidence", "violations", r.Property+".json")
		_ = os.WriteFile(vp, vb, 0o644)
		fmt.Printf("VIOLATION property=%s replay=%s\n", r.Property, vp)
		return 1
	}
	return 0
}

func ruleLess(a, b string) bool {
	pa, pb := strings.Split(a, "."), strings.Split(b, ".")
	if pa[0] != pb[0] || len(pa) < 2 || len(pb) < 2 {
		return a < b
	}
	var x, y int
	fmt.Sscanf(pa[1], "%d", &x)
	fmt.Sscanf(pb[1], "%d", &y)
	if x != y {
		return x < y
	}
	return a < b
}

// LoadKnown reads known_findings.json (committed; never written at run time).
func LoadKnown(path string) ([]KnownFinding, error) {
	b, err := os.ReadFile(path)
	if err != nil {
		if os.IsNotExist(err) {
			return nil, nil
		}
		return nil, err
	}
	var out struct {
		Findings []KnownFinding `json:"findings"`
	}
	if err := json.Unmarshal(b, &out); err != nil {
		return nil, err
	}
	return out.Findings, nil
}

// Explanations holds, per property, what the rules decide and what they do
// not; filled by the rules packages.
var Explanations = map[string]string{}
