package core

import (
	"fmt"
	"go/token"
	"go/types"
	"sort"
	"strings"

	"golang.org/x/tools/go/callgraph"
	"golang.org/x/tools/go/ssa"
)

// Lock modes.
const (
	LockNone = 0
	LockR    = 1
	LockW    = 2
)

// HeldLock is one mutex known to be held at a program point.
type HeldLock struct {
	Key   string // canonical address of the mutex, e.g. "p:#0.mux" (field mux of the receiver)
	Type  string // struct type owning the mutex field, short name
	Field string
	Mode  int
}

// LockState maps canonical mutex keys to held locks.
type LockState map[string]HeldLock

func (s LockState) clone() LockState {
	c := make(LockState, len(s))
	for k, v := range s {
		c[k] = v
	}
	return c
}

// CanonAddr renders the address expression of a value in a form that is the
// same for two syntactically different computations of the same location
// inside one function activation: parameters by position, field selections by
// field name, loads of cells that are stored once by the stored value.
func CanonAddr(v ssa.Value) string {
	for i := 0; i < 32; i++ {
		switch x := v.(type) {
		case *ssa.Parameter:
			return paramKey(x)
		case *ssa.FreeVar:
			if b := Binding(x); b != nil {
				v = b
				continue
			}
			return "fv:" + x.Name()
		case *ssa.FieldAddr:
			return CanonAddr(x.X) + "." + FieldName(x)
		case *ssa.Field:
			return CanonAddr(x.X) + "." + FieldName(x)
		case *ssa.IndexAddr:
			return CanonAddr(x.X) + "[" + CanonAddr(x.Index) + "]"
		case *ssa.Const:
			if x.Value != nil {
				return x.Value.ExactString()
			}
			return "nil"
		case *ssa.UnOp:
			if x.Op == token.MUL {
				if c := Cell(x.X); c != nil {
					st := CellStores(c)
					if len(st) == 1 {
						v = st[0].Val
						continue
					}
					return fmt.Sprintf("cell:%s@%p", c.Comment, c)
				}
				return "*" + CanonAddr(x.X)
			}
		case *ssa.Alloc:
			return fmt.Sprintf("new:%s@%p", x.Comment, x)
		case *ssa.ChangeType:
			v = x.X
			continue
		case *ssa.MakeInterface:
			v = x.X
			continue
		case *ssa.Call:
			// the result of a constructor-like helper: every return is an object the helper has just
			// allocated (and nothing else) — still under construction in the caller
			if freshResult(x, 0) {
				return fmt.Sprintf("new:call@%p", x)
			}
		case *ssa.Extract:
			if c, ok := x.Tuple.(*ssa.Call); ok && freshResult(c, x.Index) {
				return fmt.Sprintf("new:call@%p#%d", c, x.Index)
			}
		}
		break
	}
	return fmt.Sprintf("v:%s@%p", v.Name(), v)
}

// freshResult: result idx of the call is, on every return of the (module-local) callee, an object
// allocated inside the callee (or nil).
func freshResult(c *ssa.Call, idx int) bool {
	g := c.Call.StaticCallee()
	if g == nil || len(g.Blocks) == 0 || Transparent == nil || !Transparent(g) {
		return false
	}
	n := 0
	for _, b := range g.Blocks {
		ret, ok := b.Instrs[len(b.Instrs)-1].(*ssa.Return)
		if !ok || idx >= len(ret.Results) {
			continue
		}
		for _, rv := range RetVals(ret, idx) {
			rv = Unwrap(rv)
			if k, isC := rv.(*ssa.Const); isC && k.Value == nil {
				continue
			}
			if _, isA := rv.(*ssa.Alloc); !isA {
				return false
			}
			n++
		}
	}
	return n > 0
}

// lockOp classifies a call as a mutex operation.
func lockOp(c *ssa.CallCommon) (op string, addr ssa.Value) {
	f := c.StaticCallee()
	if f == nil || f.Pkg == nil || f.Pkg.Pkg.Path() != "sync" || len(c.Args) == 0 {
		return "", nil
	}
	switch f.Name() {
	case "Lock", "RLock", "Unlock", "RUnlock", "TryLock", "TryRLock":
		return f.Name(), c.Args[0]
	}
	return "", nil
}

func mutexOwner(addr ssa.Value) (typ, field string) {
	if fa, ok := addr.(*ssa.FieldAddr); ok {
		return TypeName(fa.X.Type()), FieldName(fa)
	}
	return "", ""
}

// Locksets computes, for every instruction of fn, the mutexes that are held
// on every path reaching it (must-hold, forward dataflow; a deferred unlock
// keeps the lock held until the function returns).
func Locksets(fn *ssa.Function) map[ssa.Instruction]LockState {
	out := map[ssa.Instruction]LockState{}
	if len(fn.Blocks) == 0 {
		return out
	}
	in := map[*ssa.BasicBlock]LockState{fn.Blocks[0]: {}}
	work := []*ssa.BasicBlock{fn.Blocks[0]}
	for len(work) > 0 {
		b := work[0]
		work = work[1:]
		st := in[b].clone()
		for _, ins := range b.Instrs {
			out[ins] = st.clone()
			call, ok := ins.(*ssa.Call)
			if !ok {
				continue
			}
			op, addr := lockOp(&call.Call)
			if op == "" {
				continue
			}
			key := CanonAddr(addr)
			t, f := mutexOwner(addr)
			switch op {
			case "Lock":
				st[key] = HeldLock{key, t, f, LockW}
			case "RLock":
				st[key] = HeldLock{key, t, f, LockR}
			case "Unlock", "RUnlock":
				delete(st, key)
			}
		}
		for _, s := range b.Succs {
			old, seen := in[s]
			var merged LockState
			if !seen {
				merged = st.clone()
			} else {
				merged = LockState{}
				for k, v := range old {
					if w, ok := st[k]; ok {
						if w.Mode < v.Mode {
							v.Mode = w.Mode
						}
						merged[k] = v
					}
				}
			}
			if !seen || len(merged) != len(old) || !sameLocks(merged, old) {
				in[s] = merged
				work = append(work, s)
			}
		}
	}
	return out
}

func sameLocks(a, b LockState) bool {
	if len(a) != len(b) {
		return false
	}
	for k, v := range a {
		if w, ok := b[k]; !ok || w.Mode != v.Mode {
			return false
		}
	}
	return true
}

// GuardSpec says which fields of a struct are guarded by which mutex field of
// the same struct.
type GuardSpec struct {
	Struct string   // short type name, e.g. "syncer.MemoryChannel"
	Mutex  string   // mutex field
	Fields []string // guarded fields
}

// GuardFinding is an access to a guarded field without its lock.
type GuardFinding struct {
	Fn     *ssa.Function
	Instr  ssa.Instruction
	Field  string
	Write  bool
	Base   string
	Held   []string
	Struct string
}

// accessKind: how a field address is used.
func accessKind(fa *ssa.FieldAddr) (read, write bool) {
	refs := fa.Referrers()
	if refs == nil {
		return
	}
	for _, r := range *refs {
		switch x := r.(type) {
		case *ssa.Store:
			if x.Addr == fa {
				write = true
			} else {
				read = true
			}
		case *ssa.UnOp:
			read = true
		default:
			read = true
		}
	}
	return
}

// CheckGuards applies the specs to the functions and returns the accesses made
// without the lock. requires[f] receives, for helper functions that are meant
// to run with the lock held (decided by isHelper), the mode they need on their
// receiver's mutex instead of a finding.
func CheckGuards(funcs []*ssa.Function, specs []GuardSpec, isHelper func(*ssa.Function) bool) (findings []GuardFinding, requires map[*ssa.Function]map[string]int, accesses int) {
	requires = map[*ssa.Function]map[string]int{}
	byStruct := map[string][]GuardSpec{}
	for _, s := range specs {
		byStruct[s.Struct] = append(byStruct[s.Struct], s)
	}
	for _, fn := range funcs {
		var ls map[ssa.Instruction]LockState
		for _, b := range fn.Blocks {
			for _, ins := range b.Instrs {
				fa, ok := ins.(*ssa.FieldAddr)
				if !ok {
					continue
				}
				st := TypeName(fa.X.Type())
				for _, spec := range byStruct[st] {
					fname := FieldName(fa)
					guarded := false
					for _, g := range spec.Fields {
						if g == fname {
							guarded = true
						}
					}
					if !guarded {
						continue
					}
					rd, wr := accessKind(fa)
					if !rd && !wr {
						continue
					}
					base := CanonAddr(fa.X)
					if strings.HasPrefix(base, "new:") {
						continue // object under construction, not shared yet
					}
					accesses++
					if ls == nil {
						ls = Locksets(fn)
					}
					need := LockR
					if wr {
						need = LockW
					}
					key := base + "." + spec.Mutex
					held := ls[ins][key]
					if held.Mode >= need {
						continue
					}
					if isHelper != nil && isHelper(fn) && fn.Signature.Recv() != nil && len(fn.Params) > 0 && base == paramKey(fn.Params[0]) {
						if requires[fn] == nil {
							requires[fn] = map[string]int{}
						}
						if requires[fn][spec.Mutex] < need {
							requires[fn][spec.Mutex] = need
						}
						continue
					}
					var hs []string
					for k, v := range ls[ins] {
						hs = append(hs, fmt.Sprintf("%s(%d)", k, v.Mode))
					}
					sort.Strings(hs)
					findings = append(findings, GuardFinding{fn, ins, fname, wr, base, hs, st})
				}
			}
		}
	}
	return
}

// HelperCallFinding: a helper that needs its receiver's lock is called
// without it.
type HelperCallFinding struct {
	Caller *ssa.Function
	Site   Site
	Mutex  string
	Need   int
	Have   int
}

// CheckHelperCalls verifies that every call of a lock-requiring helper holds
// the helper's receiver mutex in the needed mode; helpers calling helpers on
// their own receiver inherit the requirement (fixed point).
func CheckHelperCalls(funcs []*ssa.Function, requires map[*ssa.Function]map[string]int, isHelper func(*ssa.Function) bool) []HelperCallFinding {
	var out []HelperCallFinding
	changed := true
	for iter := 0; changed && iter < 10; iter++ {
		changed = false
		out = out[:0]
		for _, fn := range funcs {
			var ls map[ssa.Instruction]LockState
			for _, in := range OwnInstrs(fn) {
				ci, isCall := in.(ssa.CallInstruction)
				if !isCall {
					continue
				}
				s := ResolveCall(ci)
				if s.Callee == nil || len(requires[s.Callee]) == 0 || s.Recv() == nil {
					continue
				}
				if ls == nil {
					ls = Locksets(fn)
				}
				base := CanonAddr(s.Recv())
				for mux, need := range requires[s.Callee] {
					held := ls[s.Instr.(ssa.Instruction)][base+"."+mux]
					if held.Mode >= need {
						continue
					}
					if isHelper(fn) && fn.Signature.Recv() != nil && len(fn.Params) > 0 && base == paramKey(fn.Params[0]) {
						if requires[fn] == nil {
							requires[fn] = map[string]int{}
						}
						if requires[fn][mux] < need {
							requires[fn][mux] = need
							changed = true
						}
						continue
					}
					out = append(out, HelperCallFinding{fn, s, mux, need, held.Mode})
				}
			}
		}
	}
	return out
}

// MayLock computes, per function, the (struct type, mutex field) pairs it may
// lock, transitively over the call graph (type level, instance insensitive),
// with a witness call chain for each.
func MayLock(cg *callgraph.Graph, funcs []*ssa.Function) map[*ssa.Function]map[string]string {
	direct := map[*ssa.Function]map[string]string{}
	for _, fn := range funcs {
		released := releasedBefore(fn)
		for _, b := range fn.Blocks {
			for _, ins := range b.Instrs {
				call, ok := ins.(ssa.CallInstruction)
				if !ok {
					continue
				}
				if _, isDefer := ins.(*ssa.Defer); isDefer {
					continue
				}
				op, addr := lockOp(call.Common())
				if op != "Lock" && op != "RLock" {
					continue
				}
				t, f := mutexOwner(addr)
				if t == "" {
					continue
				}
				if released[ins][CanonAddr(addr)] {
					continue // re-acquires a lock this function released itself (it runs with the lock held by its caller)
				}
				if direct[fn] == nil {
					direct[fn] = map[string]string{}
				}
				direct[fn][t+"."+f] = FuncName(fn) + "." + op
			}
		}
	}
	res := map[*ssa.Function]map[string]string{}
	for f, m := range direct {
		res[f] = map[string]string{}
		for k, v := range m {
			res[f][k] = v
		}
	}
	inSet := map[*ssa.Function]bool{}
	for _, f := range funcs {
		inSet[f] = true
	}
	changed := true
	for iter := 0; changed && iter < 50; iter++ {
		changed = false
		for _, fn := range funcs {
			node := cg.Nodes[fn]
			if node == nil {
				continue
			}
			for _, e := range node.Out {
				if _, isGo := e.Site.(*ssa.Go); isGo {
					continue // runs on another goroutine
				}
				if _, isDefer := e.Site.(*ssa.Defer); isDefer {
					// deferred calls run at exit, possibly with locks still held: keep them
				}
				callee := e.Callee.Func
				if !inSet[callee] {
					continue
				}
				for k, chain := range res[callee] {
					if res[fn] == nil {
						res[fn] = map[string]string{}
					}
					if _, ok := res[fn][k]; !ok {
						res[fn][k] = FuncName(fn) + " -> " + chain
						changed = true
					}
				}
			}
		}
	}
	return res
}

// IsMutexType reports whether t is sync.Mutex or sync.RWMutex.
func IsMutexType(t types.Type) bool {
	s := t.String()
	return s == "sync.Mutex" || s == "sync.RWMutex"
}

// releasedBefore computes, per instruction, the mutex keys that the function
// itself unlocked (without having locked them before) on every path to it:
// such a function is written to run with that lock held by its caller, and a
// later Lock of the same key re-acquires it rather than nesting.
func releasedBefore(fn *ssa.Function) map[ssa.Instruction]map[string]bool {
	out := map[ssa.Instruction]map[string]bool{}
	if len(fn.Blocks) == 0 {
		return out
	}
	type st = map[string]bool
	clone := func(a st) st {
		c := st{}
		for k, v := range a {
			c[k] = v
		}
		return c
	}
	in := map[*ssa.BasicBlock]st{fn.Blocks[0]: {}}
	work := []*ssa.BasicBlock{fn.Blocks[0]}
	for len(work) > 0 {
		b := work[0]
		work = work[1:]
		cur := clone(in[b])
		for _, ins := range b.Instrs {
			out[ins] = clone(cur)
			call, ok := ins.(*ssa.Call)
			if !ok {
				continue
			}
			op, addr := lockOp(&call.Call)
			switch op {
			case "Unlock", "RUnlock":
				cur[CanonAddr(addr)] = true
			case "Lock", "RLock":
				delete(cur, CanonAddr(addr))
			}
		}
		for _, s := range b.Succs {
			old, seen := in[s]
			var merged st
			if !seen {
				merged = clone(cur)
			} else {
				merged = st{}
				for k := range old {
					if cur[k] {
						merged[k] = true
					}
				}
			}
			if !seen || len(merged) != len(old) {
				in[s] = merged
				work = append(work, s)
			}
		}
	}
	return out
}

// paramKey names a parameter by its position (the receiver is #0), so that
// keys do not depend on how the source happens to call it.
func paramKey(p *ssa.Parameter) string {
	if fn := p.Parent(); fn != nil {
		for i, q := range fn.Params {
			if q == p {
				return fmt.Sprintf("p:#%d", i)
			}
		}
	}
	return "p:" + p.Name()
}
