package rules

import (
	"fmt"
	"go/token"
	"go/types"
	"os"
	"sort"
	"strings"

	"gunyucheck/core"

	"golang.org/x/tools/go/ssa"
)

func init() {
	All["C14"] = c14
	core.Explanations["C14"] = "Decides necessary structural conditions of 'bidirectional replay resumes from the contiguous committed prefix': " +
		"(R14.1) on every path of the unit dispatcher the marker, the business commands, the recovery record (and the journal index entry) are put on one transaction batcher, in that order, before its single Dispatch; " +
		"(R14.2) every deletion of journal records is dominated by a successful save of the frontier that covers them, in the function or at every call site of the helper that deletes; (R14.3) the frontier advances only inside the loop guarded by presence of the next sequence number, starting at seq+1 and stepping by 1, in the coordinator and in the start-up rebuild; " +
		"(R14.4) the in-memory resume point is stored only after the commit was confirmed (sync: after validated replies, with the unit's seq/offset; frontier modes: after onCommitted succeeded, with the coordinator's frontier); (R14.5) a commit is reported without error only after its replies were validated; " +
		"(R14.6) recovery cleanup collects only journal keys at or below the rebuilt frontier; (R14.7) sync-mode start picks the record with the greatest end offset (ties by mtime). Not decided: the target's request history for every crash point."
}

// dispatchEvents extracts the batcher events on one path of dispatchBisyncUnit-like functions.
type dEvent struct {
	kind string // marker, business, record, index, dispatch, other:<cmd>
	site core.Site
	recv ssa.Value
}

func dispatchEventsOf(p *core.Path) []dEvent {
	var ev []dEvent
	for _, s := range pathSites(p) {
		if !s.Common().IsInvoke() {
			continue
		}
		switch s.Method {
		case "Dispatch":
			ev = append(ev, dEvent{"dispatch", s, p.Resolve(s.Recv())})
		case "Put":
			cmd, isC := core.CmdName(s)
			kind := "business"
			if isC {
				kind = "other:" + cmd
				el, _ := core.CmdArgs(s)
				keyFrom := func(name string) bool {
					if len(el) == 0 {
						return false
					}
					return core.DependsOn(el[0], isResultOf("pkg/redis/checkpoint."+name, -1))
				}
				switch cmd {
				case "set":
					if keyFrom("BisyncMarkerKey") {
						kind = "marker"
					}
				case "hset":
					if len(el) == 0 {
						// hset args...: the record key heads a slice built from record.Key
						kind = "record"
					} else {
						kind = "record"
					}
				case "zadd":
					if keyFrom("BisyncCommitIndexKey") {
						kind = "index"
					}
				}
				if cmd == "hset" {
					// the variadic form `Put("hset", args...)` passes a prepared slice
					kind = "record"
				}
			}
			ev = append(ev, dEvent{kind, s, p.Resolve(s.Recv())})
		}
	}
	return ev
}

// ruleDispatchOrder is R14.1 / R13.1.
func ruleDispatchOrder(w *core.World, r *core.Report, fname, cons string) {
	f := fn(w, r, fname)
	if f == nil {
		return
	}
	bad := ""
	var badPos token.Pos
	n := 0
	okEnum := core.EnumPathsN(f.Blocks[0], 0, 200000, core.Unroll, func(p *core.Path) {
		if bad != "" {
			return
		}
		ev := dispatchEventsOf(p)
		di := -1
		for i, e := range ev {
			if e.kind == "dispatch" {
				di = i
			}
		}
		if di < 0 {
			return
		}
		n++
		var kinds []string
		for _, e := range ev {
			kinds = append(kinds, e.kind)
			if e.recv != ev[di].recv {
				bad, badPos = "a command of the unit is put on a different batcher than the one dispatched: marker, data and recovery record would not commit atomically", e.site.Pos()
				return
			}
		}
		seq := strings.Join(kinds, " ")
		i := 0
		if len(ev) == 0 || ev[0].kind != "marker" {
			bad, badPos = "the first command queued for a unit is not the marker SET (the opposite link recognises a mirrored transaction by its first command): "+seq, ev[0].site.Pos()
			return
		}
		i = 1
		for i < len(ev) && ev[i].kind == "business" {
			i++
		}
		if i >= len(ev) || ev[i].kind != "record" {
			bad, badPos = "the recovery record is not queued after the business commands in the same transaction: "+seq, ev[minInt(i, len(ev)-1)].site.Pos()
			return
		}
		i++
		if i < len(ev) && ev[i].kind == "index" {
			i++
		}
		if i != di {
			bad, badPos = "unexpected command between the recovery record and Dispatch: "+seq, ev[minInt(i, len(ev)-1)].site.Pos()
			return
		}
		if di != len(ev)-1 {
			bad, badPos = "the batcher is used again after Dispatch: "+seq, ev[di+1].site.Pos()
		}
	})
	if !okEnum {
		r.Undecided(cons, f.Pos(), "too many paths")
		return
	}
	r.Check(bad == "" && n > 0, cons, badPos, "%s (dispatching paths=%d)", bad, n)
	ruleAllUnitCommands(w, r, f, cons)
}

// ruleAllUnitCommands: the business Put iterates over unit.Commands itself,
// forward, every element (no re-slicing), and puts (elem.Cmd, elem.Args...).
func ruleAllUnitCommands(w *core.World, r *core.Report, f *ssa.Function, cons string) {
	ok := false
	var pos token.Pos = f.Pos()
	for _, s := range core.Sites(f, false) {
		if s.Method != "Put" || !s.Common().IsInvoke() {
			continue
		}
		if _, isC := core.CmdName(s); isC {
			continue
		}
		pos = s.Pos()
		// the command name: field Cmd of an element &slice[i]
		var ia *ssa.IndexAddr
		core.Walk(s.Args()[0], func(v ssa.Value) bool {
			if x, isIA := v.(*ssa.IndexAddr); isIA && ia == nil {
				ia = x
			}
			return true
		})
		if ia == nil {
			continue
		}
		list := ia.X
		if base, isQueue := consumedFromFront(ia); isQueue {
			list = base
		} else if !forwardRangeIndex(ia.Index) {
			continue
		}
		// the slice is a plain load of unit.Commands
		if core.IsFieldLoad(list, "bisyncReplayUnit", "Commands") && fieldNameOfLoad(s.Args()[0]) == "Cmd" {
			// the arguments come from the same element
			same := core.DependsOnDeep(s.Args()[len(s.Args())-1], func(v ssa.Value) bool { return v == ssa.Value(ia) })
			ok = same
		}
	}
	r.Check(ok, cons+"/all-commands", pos, "the transaction must carry every command of the unit, in order: Put(cmd.Cmd, cmd.Args...) for each element of unit.Commands (no re-slicing, forward)")
}

func minInt(a, b int) int {
	if a < b {
		return a
	}
	return b
}

func c14(w *core.World, r *core.Report) {
	r.Rule("R14.1", "marker ≺ business commands ≺ recovery record (≺ index) on one transaction batcher before its single Dispatch (all paths)", 1)
	ruleDispatchOrder(w, r, "(*syncer.RedisOutput).dispatchBisyncUnit", "dispatchBisyncUnit/one-transaction")

	r.Rule("R14.2", "journal deletion is dominated by a successful save of the covering frontier", 2)
	ruleSaveBeforeDelete(w, r)

	r.Rule("R14.3", "contiguous advance: frontier written only under 'next sequence present', from seq+1 stepping by 1", 2)
	for _, name := range []string{"(*syncer.bisyncFrontierCoordinator).onCommitted", "pkg/redis/checkpoint.RebuildBisyncFrontier"} {
		ruleContiguousAdvance(w, r, name)
	}

	r.Rule("R14.4", "in-memory resume point stored only after confirmation, with the confirmed values, by the senders themselves", 4)
	r.Rule("R14.5", "a commit is reported without error only after its replies were validated", 3)
	ruleConfirmedOnly(w, r)

	r.Rule("R14.10", "sync mode executes a received unit once: an error ends the replay, the unit is not re-run", 1)
	ruleSyncUnitExecutedOnce(w, r)
	r.Rule("R14.11", "a completed full sync leaves a baseline frontier (after removing the replaced position's journal) before its root checkpoint, so that the journal always continues a stored frontier", 2)
	ruleBaselineFrontier(w, r)
	r.Rule("R14.12", "a root checkpoint that overrides the stored frontier removes the journal and then the snapshot it replaces", 2)
	ruleRootOverrideDropsFrontierState(w, r)
	r.Rule("R14.15", "in sync mode the start point is what the target committed: the in-process resume point (last acknowledged unit) is used for a start point only under a test of the replay mode that excludes sync", 1)
	ruleStartPointFromTargetInSyncMode(w, r)
	r.Rule("R14.9", "every valid replay mode is claimed by exactly one recovery format (UsesLatest xor UsesFrontier)", 3)
	ruleModeFamilies(w, r)

	r.Rule("R14.6", "recovery cleanup is bounded by the rebuilt frontier and touches journal keys only", 1)
	if f := fn(w, r, "(*syncer.RedisOutput).cleanupRecoveredBisyncCommitRecords"); f != nil {
		n := 0
		// a collection point: a journal record's key (record.Key, read off a record itself) enters a slice or a
		// map, alone or inside a struct; the lists derived later from what was collected are not record reads
		isRecordKey := func(v ssa.Value) bool {
			ld, ok := v.(*ssa.UnOp)
			if !ok || ld.Op != token.MUL {
				return false
			}
			fa, ok := ld.X.(*ssa.FieldAddr)
			return ok && core.FieldName(fa) == "Key" && strings.HasSuffix(core.TypeName(fa.X.Type()), "BisyncCommitRecord")
		}
		seqBound := func(v ssa.Value) bool {
			for _, a := range argValues(v, f) {
				if fieldNameOfLoad(core.Unwrap(a)) == "UnitSeq" {
					return true
				}
			}
			return false
		}
		for _, g := range reachableFuncs(f) {
			if g != f && !(core.Transparent != nil && core.Transparent(g)) {
				continue
			}
			for _, in := range core.OwnInstrs(g) {
				var elems []ssa.Value
				switch x := in.(type) {
				case *ssa.Call:
					if isBuiltin(x, "append") && len(x.Call.Args) == 2 {
						if els, ok := core.VariadicElems(x.Call.Args[1]); ok {
							elems = els
						}
					}
				case *ssa.MapUpdate:
					elems = []ssa.Value{x.Value}
				case *ssa.Store:
					if _, isIA := x.Addr.(*ssa.IndexAddr); isIA {
						elems = []ssa.Value{x.Val}
					}
				}
				collects := false
				for _, e := range elems {
					core.Walk(e, func(x ssa.Value) bool {
						if isRecordKey(x) {
							collects = true
							return false
						}
						switch y := x.(type) {
						case *ssa.IndexAddr, *ssa.Index, *ssa.Lookup, *ssa.Next, *ssa.Phi:
							return false // what was read back from a collection is not a record read
						case *ssa.Call:
							if _, isB := y.Call.Value.(*ssa.Builtin); !isB {
								return false
							}
						}
						return !collects
					})
				}
				if !collects {
					continue
				}
				n++
				bounded, journal := false, false
				for _, fct := range core.FactsAt(in.Block()) {
					cmp, ok := core.FactCmp(fct)
					if ok && cmp.Op == token.LEQ && fieldNameOfLoad(cmp.X) == "UnitSeq" && seqBound(cmp.Y) {
						bounded = true
					}
					if fct.Val && isResultOf("pkg/redis/checkpoint.IsBisyncCommitKey", -1)(fct.Cond) {
						journal = true
					}
					if !fct.Val {
						if u, ok := fct.Cond.(*ssa.UnOp); ok && u.Op == token.NOT && isResultOf("pkg/redis/checkpoint.IsBisyncCommitKey", -1)(u.X) {
							journal = true
						}
					}
				}
				r.Check(bounded && journal, "cleanupRecoveredBisyncCommitRecords/bounded", in.Pos(), "a key is collected for deletion without 'record.UnitSeq <= frontier.UnitSeq' (bounded=%v) and 'is a journal key' (journal=%v)", bounded, journal)
			}
		}
		if n == 0 {
			r.Fail("cleanupRecoveredBisyncCommitRecords/bounded", f.Pos(), "no key collection found")
		}
	}

	r.Rule("R14.7", "sync-mode start point: greatest end offset wins, ties by mtime", 1)
	if f := fn(w, r, "pkg/redis/checkpoint.LoadBisyncLatestStartRecord"); f != nil {
		// the loop over the per-slot records: the one that parses them
		var parse core.Site
		for _, s := range core.SitesNamed(f, false, "pkg/redis/checkpoint.ParseBisyncCommitRecordMap") {
			parse = s
		}
		var head *ssa.BasicBlock
		if parse.Instr != nil {
			head = core.LoopHeadOf(parse.Instr.Block())
		}
		var best *ssa.Phi
		if head != nil {
			for _, in := range head.Instrs {
				if ph, ok := in.(*ssa.Phi); ok && strings.HasSuffix(ph.Type().String(), "checkpoint.BisyncCommitRecord") {
					best = ph
				}
			}
		}
		if head == nil || best == nil {
			r.Undecided("LoadBisyncLatestStartRecord/best", f.Pos(), "the loop that keeps the best per-slot record was not found")
		} else {
			isCand := func(v ssa.Value) bool {
				e, ok := core.Unwrap(v).(*ssa.Extract)
				return ok && e.Index == 0 && e.Tuple == parse.Value()
			}
			classify := func(p *core.Path, v ssa.Value) string {
				ld, ok := core.Unwrap(p.Resolve(v)).(*ssa.UnOp)
				if !ok || ld.Op != token.MUL {
					return ""
				}
				fa, ok := ld.X.(*ssa.FieldAddr)
				if !ok {
					return ""
				}
				base := core.Unwrap(p.Resolve(fa.X))
				if !isCand(base) && base != ssa.Value(best) {
					return ""
				}
				dim := map[string]string{"EndOffset": "A", "MTime": "B"}[core.FieldName(fa)]
				if dim == "" {
					return "?" + core.FieldName(fa) // some other field of the two records
				}
				if isCand(base) {
					return "c" + dim
				}
				return "b" + dim
			}
			foreign := ""
			replaces := func(p *core.Path) bool {
				nv := p.NextIter(best)
				if nv == nil || !isCand(nv) {
					return false
				}
				// the first matching record replaces "none yet" unconditionally
				if p.Holds(token.EQL, func(v ssa.Value) bool { return v == ssa.Value(best) }, core.IsNilConst) {
					return false
				}
				for _, fct := range p.Conds {
					if c, ok := core.AsCmp(p.Resolve(fct.Cond), fct.Val); ok {
						kx, ky := classify(p, c.X), classify(p, c.Y)
						if strings.HasPrefix(kx, "?") && strings.HasPrefix(ky, "?") {
							foreign = kx[1:]
						}
					}
				}
				return true
			}
			rep, paths, okEnum := orderingTableP(head, replaces, func(p *core.Path, v ssa.Value) string {
				k := classify(p, v)
				if strings.HasPrefix(k, "?") {
					return ""
				}
				return k
			})
			var wrong []string
			names := []string{"<", "=", ">"}
			for a := 0; a < 3; a++ {
				for b := 0; b < 3; b++ {
					want := a == 2 || (a == 1 && b == 2)
					if rep[a][b] != want {
						wrong = append(wrong, "end offset "+names[a]+", mtime "+names[b]+": replaced="+boolStr(rep[a][b]))
					}
				}
			}
			if !okEnum || paths == 0 {
				r.Undecided("LoadBisyncLatestStartRecord/best", f.Pos(), "no path of the loop replaces the best record (paths=%d)", paths)
			} else {
				r.Check(len(wrong) == 0 && foreign == "", "LoadBisyncLatestStartRecord/best", head.Instrs[0].Pos(), "the start record must be the one with the greatest end offset (then newest mtime); comparing anything else (for instance the unit sequence, which restarts after a full sync) resumes from a stale slot record; decided over the nine orderings, wrong for %v, other field compared: %q", wrong, foreign)
			}
		}
	}
	r.Rule("R12.3", "a unit's end offset is the end of its last source command (the EXEC for a source transaction): start offset + decoder offset of the same iteration (shared with C12)", 4)
	ruleOffsetPlumbing(w, r)
	r.Rule("R14.13", "the frontier is rebuilt from the stored snapshot (or none), never from a base made up for the journal", 1)
	ruleRebuildFromStoredSnapshot(w, r)
	r.Rule("R17.4", "a mode migration repoints the namespace index before it retires the old entry: a stop in between must not leave the namespace unfindable (resume point back to 'none') (shared with C17)", 2)
	ruleMigrationOrder(w, r)
	r.Rule("R14.14", "a connection that a routine has left in whichever database it visited last (GetCheckpoint and the other walks over the databases of a stand-alone target) carries no database-dependent command before a database is selected on it again", 10)
	ruleDatabaseAfterWalk(w, r)
}

func ruleSaveBeforeDelete(w *core.World, r *core.Report) {
	isSave := func(in ssa.Instruction) (ssa.Value, bool) {
		c, ok := in.(*ssa.Call)
		if !ok || core.ResolveCall(c).Name != "pkg/redis/checkpoint.SaveBisyncFrontierSnapshot" {
			return nil, false
		}
		return c, true
	}
	// dominatedBySave: instruction x executes only after a Save call whose error was tested nil
	dominatedBySave := func(x ssa.Instruction) bool {
		f := x.Parent()
		for _, in := range core.Instrs(f) {
			sv, ok := isSave(in)
			if !ok {
				continue
			}
			if core.Dominates(in, x) && core.OnSuccessOf(x.Block(), sv) {
				// ... and what was saved is the frontier that covers the records: never the snapshot that was
				// loaded (the very state the records lie beyond)
				if c, isC := sv.(*ssa.Call); isC && len(c.Call.Args) >= 3 {
					if core.DependsOn(c.Call.Args[2], func(v ssa.Value) bool {
						lc, ok := v.(*ssa.Call)
						return ok && core.ResolveCall(lc).Name == "pkg/redis/checkpoint.LoadBisyncFrontierSnapshot"
					}) && !core.DependsOn(c.Call.Args[2], func(v ssa.Value) bool {
						lc, ok := v.(*ssa.Call)
						return ok && core.ResolveCall(lc).Name == "pkg/redis/checkpoint.RebuildBisyncFrontier"
					}) {
						continue
					}
				}
				return true
			}
		}
		return false
	}
	n := 0
	var check func(site core.Site, depth int) (bool, string)
	// positionReplaced: the records do not lie beyond a frontier that is in force, they belong to a position
	// that is being replaced as a whole: (a) by the baseline frontier of a completed full sync — the deletion
	// is followed, on every path to a successful return, by the save of a frontier that was not loaded or
	// rebuilt from the target (order and failure handling: R14.11); (b) by the root checkpoint, on the
	// override edge of the start point (R14.12). A stop in between leaves the old frontier (a) or the root
	// (b) in force: the resume point still ends a committed unit with every earlier unit committed.
	positionReplaced := func(site core.Site) bool {
		okReturn := func(in ssa.Instruction) bool {
			ret, isRet := in.(*ssa.Return)
			return isRet && len(ret.Results) > 0 && core.IsNilConst(ret.Results[len(ret.Results)-1])
		}
		freshSave := func(in ssa.Instruction) bool {
			sv, ok := isSave(in)
			if !ok {
				return false
			}
			c := sv.(*ssa.Call)
			return len(c.Call.Args) >= 3 && !core.DependsOn(c.Call.Args[2], func(v ssa.Value) bool {
				lc, ok := v.(*ssa.Call)
				if !ok {
					return false
				}
				n := core.ResolveCall(lc).Name
				return n == "pkg/redis/checkpoint.LoadBisyncFrontierSnapshot" || n == "pkg/redis/checkpoint.RebuildBisyncFrontier"
			})
		}
		hasSave := false
		for _, in := range core.OwnInstrs(site.Instr.Parent()) {
			if freshSave(in) {
				hasSave = true
			}
		}
		if hasSave && failureReturned(site.Instr.Parent(), site) && core.PathFrom(site.Instr.Parent(), site.Instr, okReturn, freshSave) == nil {
			return true
		}
		for _, fct := range core.FactsAt(site.Instr.Block()) {
			if c, ok := core.Unwrap(fct.Cond).(*ssa.Call); ok && fct.Val && strings.HasSuffix(core.ResolveCall(c).Name, "RedisOutput).bisyncRootCheckpointNewer") {
				return true
			}
		}
		return false
	}
	check = func(site core.Site, depth int) (bool, string) {
		if dominatedBySave(site.Instr) || positionReplaced(site) {
			return true, ""
		}
		if depth > 3 {
			return false, "call chain too deep"
		}
		// helper: every call site of the enclosing function must be dominated by a save
		f := site.Instr.Parent()
		callers := 0
		for _, g := range w.Funcs() {
			for _, s := range core.Sites(g, false) {
				if s.Callee == f {
					callers++
					if ok, why := check(s, depth+1); !ok {
						if why == "" {
							why = "call at " + w.Pos(s.Pos()) + " in " + core.FuncName(g) + " is not preceded by a successful frontier save"
						}
						return false, why
					}
				}
			}
		}
		if callers == 0 {
			return false, "neither the function nor any caller saves the frontier first"
		}
		return true, ""
	}
	for _, f := range w.FuncsIn("syncer") {
		if strings.Contains(core.FuncName(f), "cleanupBisyncNamespace") {
			continue // retiring a whole namespace after migration: ordered by R17.4
		}
		for _, s := range core.SitesNamed(f, false, "pkg/redis/checkpoint.DeleteBisyncCommitKeys") {
			n++
			ok, why := check(s, 0)
			r.Check(ok, shortName(core.FuncName(f))+"/save-before-delete", s.Pos(), "journal records are deleted without the frontier that covers them having been saved successfully first (%s): after a stop the next start rebuilds from the older snapshot and resumes earlier, or finds a journal gap", why)
		}
	}
	if n == 0 {
		r.Fail("journal/save-before-delete", token.NoPos, "no journal deletion site found")
	}
}

func ruleContiguousAdvance(w *core.World, r *core.Report, name string) {
	f := fn(w, r, name)
	if f == nil {
		return
	}
	cons := shortName(name) + "/contiguous"
	// nextSeq phi: init = UnitSeq + 1, step +1
	var next *ssa.Phi
	for _, in := range core.Instrs(f) {
		// the next expected sequence number: the loop variable initialised to <frontier>.UnitSeq + 1
		if ph, ok := in.(*ssa.Phi); ok {
			for _, e := range ph.Edges {
				if b, isB := e.(*ssa.BinOp); isB && b.Op == token.ADD && isConstInt(1)(b.Y) && fieldNameOfLoad(b.X) == "UnitSeq" {
					next = ph
				}
			}
		}
	}
	// or no variable at all: every look-up is keyed by <frontier>.UnitSeq + 1 read afresh
	isNextKey := func(v ssa.Value) bool {
		if next != nil && v == ssa.Value(next) {
			return true
		}
		b, ok := v.(*ssa.BinOp)
		if !ok || b.Op != token.ADD || !isConstInt(1)(b.Y) || fieldNameOfLoad(b.X) != "UnitSeq" {
			return false
		}
		ld, ok := core.Unwrap(b.X).(*ssa.UnOp)
		if !ok {
			return false
		}
		fa, ok := ld.X.(*ssa.FieldAddr)
		return ok && strings.HasSuffix(core.TypeName(fa.X.Type()), "BisyncFrontierSnapshot")
	}
	if next == nil {
		direct := false
		for _, in := range core.Instrs(f) {
			switch t := in.(type) {
			case *ssa.Lookup:
				if t.CommaOk && isNextKey(t.Index) {
					direct = true
				}
			case *ssa.Call:
				for _, a := range t.Call.Args {
					if isNextKey(a) && t.Call.Signature().Results().Len() == 2 {
						direct = true
					}
				}
			}
		}
		if !direct {
			r.Undecided(cons, f.Pos(), "no next sequence number found (neither a loop variable starting at seq+1 nor look-ups keyed by seq+1)")
			return
		}
	}
	okInit, okStep := next == nil, next == nil
	// "the record for the next number was found": the ok of a look-up keyed by it (or, in a
	// `for rec, ok := get(k); ok; rec, ok = get(k)` loop, the variable fed by such look-ups only)
	var isFound func(v ssa.Value, depth int) bool
	isFound = func(v ssa.Value, depth int) bool {
		v = core.Unwrap(v)
		if ph, ok := v.(*ssa.Phi); ok && depth < 3 {
			for _, e := range ph.Edges {
				if !isFound(e, depth+1) {
					return false
				}
			}
			return len(ph.Edges) > 0
		}
		e, ok := v.(*ssa.Extract)
		if !ok || e.Index != 1 {
			return false
		}
		switch t := e.Tuple.(type) {
		case *ssa.Lookup:
			return isNextKey(t.Index)
		case *ssa.Call:
			for _, a := range t.Call.Args {
				if isNextKey(a) {
					return true
				}
			}
		}
		return false
	}
	// ... or `m[k] != nil` for a map whose values can be nil (pointers here): an absent key reads as nil, so a
	// non-nil value was found (nilLookupFound, r7_n3.go)
	factFound := func(fct core.Fact) bool {
		return (fct.Val && isFound(fct.Cond, 0)) || nilLookupFound(fct, isNextKey)
	}
	foundAt := func(b *ssa.BasicBlock) bool {
		for _, fct := range core.FactsAt(b) {
			if factFound(fct) {
				return true
			}
		}
		return false
	}
	var nextEdges []ssa.Value
	if next != nil {
		nextEdges = next.Edges
	}
	for i, e := range nextEdges {
		b, ok := e.(*ssa.BinOp)
		if !ok || b.Op != token.ADD || !isConstInt(1)(b.Y) {
			if e != ssa.Value(next) {
				okStep = false
				r.Fail(cons+"/step", next.Pos(), "the next sequence number is advanced by something other than +1")
				return
			}
			continue
		}
		if b.X == ssa.Value(next) {
			// the step happens only after the record for the current number was found
			if !foundAt(next.Block().Preds[i]) {
				r.Fail(cons+"/step", b.Pos(), "the next sequence number is advanced on a path where the record for the current number was not found: the frontier can pass a missing sequence number (a unit that never committed is skipped on resume)")
				return
			}
			okStep = true
		} else if fieldNameOfLoad(b.X) == "UnitSeq" {
			okInit = true
		}
	}
	// the lookup with nextSeq and the stores to frontier fields under its ok == true
	n := 0
	okStores := true
	var pos token.Pos = f.Pos()
	for _, in := range core.Instrs(f) {
		st, ok := in.(*ssa.Store)
		if !ok {
			continue
		}
		fa, ok := st.Addr.(*ssa.FieldAddr)
		if !ok || !strings.HasSuffix(core.TypeName(fa.X.Type()), "BisyncFrontierSnapshot") {
			continue
		}
		fname := core.FieldName(fa)
		if fname != "UnitSeq" && fname != "Offset" {
			continue
		}
		if _, isComp := fa.X.(*ssa.Alloc); isComp {
			continue // a fresh literal being initialised
		}
		n++
		// dominated by "found" of a lookup keyed by nextSeq
		found := false
		for _, fct := range core.FactsAt(st.Block()) {
			if factFound(fct) {
				found = true
			}
		}
		if !found {
			okStores = false
			pos = st.Pos()
		}
	}
	r.Check(okInit && okStep && okStores && n >= 2, cons, pos, "the frontier may move only while the next sequence number (starting at seq+1, stepping by 1) is present among the committed records; init=%v step=%v guarded-stores=%v (%d)", okInit, okStep, okStores, n)
}

func ruleConfirmedOnly(w *core.World, r *core.Report) {
	// R14.5: execBisyncUnit nil error only after validate == nil
	r.Rule("R14.5", "", 3)
	if f := fn(w, r, "(*syncer.RedisOutput).execBisyncUnit"); f != nil {
		bad := ""
		n := 0
		core.EnumPaths(f.Blocks[0], 0, 10000, func(p *core.Path) {
			ret, ok := p.End.(*ssa.Return)
			if !ok {
				return
			}
			last := core.RetVal(ret, len(ret.Results)-1)
			if !core.IsNilConst(p.Resolve(last)) {
				return
			}
			n++
			val := false
			for _, s := range pathSites(p) {
				if strings.HasSuffix(s.Name, "validateBisyncExecReplies") && !failedOn(p, s.Value()) {
					val = true
				}
			}
			if !val {
				bad = "a unit is reported committed on a path that did not validate the MULTI/QUEUED/EXEC replies"
			}
		})
		r.Check(bad == "" && n > 0, "execBisyncUnit/validated", f.Pos(), "%s", bad)
	}
	// pipeline receiver and parallel workers: onCommitted / error-free result only after validate success
	if f := fn(w, r, "(*syncer.RedisOutput).receiveBisyncPipeline"); f != nil {
		for _, s := range core.SitesNamed(f, false, "(*syncer.bisyncFrontierCoordinator).onCommitted") {
			okV := false
			for _, v := range core.SitesNamed(f, false, "*validateBisyncExecReplies") {
				if core.Dominates(v.Instr, s.Instr) && core.OnSuccessOf(s.Instr.Block(), v.Value()) {
					okV = true
				}
			}
			r.Check(okV, "receiveBisyncPipeline/validated-before-frontier", s.Pos(), "a record reaches the frontier coordinator without its replies having been validated")
		}
	}
	if f := fn(w, r, "(*syncer.RedisOutput).sendBisyncParallel"); f != nil {
		n := 0
		for _, g := range core.DeepFuncs(f)[1:] {
			vs := core.SitesNamed(g, false, "*validateBisyncExecReplies")
			if len(vs) == 0 {
				continue
			}
			for _, s := range core.SitesNamed(g, false, "syncer.sendBisyncCommitResult") {
				// result literal without err field set => must be after validate success
				res := s.Args()[2]
				hasErr := false
				if ld, ok := core.Unwrap(res).(*ssa.UnOp); ok {
					if a, ok := ld.X.(*ssa.Alloc); ok {
						for _, ref := range *a.Referrers() {
							if fa, ok := ref.(*ssa.FieldAddr); ok && core.FieldName(fa) == "err" {
								hasErr = true
							}
						}
					}
				}
				if hasErr {
					continue
				}
				n++
				okV := false
				for _, v := range vs {
					if core.Dominates(v.Instr, s.Instr) && core.OnSuccessOf(s.Instr.Block(), v.Value()) {
						okV = true
					}
				}
				r.Check(okV, "sendBisyncParallel/worker-reports-validated", s.Pos(), "a lane worker reports a commit without error before its replies were validated")
			}
		}
		if n == 0 {
			r.Fail("sendBisyncParallel/worker-reports-validated", f.Pos(), "no success report found in the lane workers")
		}
		// handleResult: onCommitted only under result.err == nil
		for _, g := range core.DeepFuncs(f)[1:] {
			for _, s := range core.SitesNamed(g, false, "(*syncer.bisyncFrontierCoordinator).onCommitted") {
				okE := false
				for _, fct := range core.FactsAt(s.Instr.Block()) {
					c, ok := core.FactCmp(fct)
					if ok && c.Op == token.EQL && core.IsNilConst(c.Y) && fieldNameOfLoad(c.X) == "err" {
						okE = true
					}
				}
				r.Check(okE, "sendBisyncParallel/handleResult-needs-no-error", s.Pos(), "a failed commit result must not advance the frontier")
			}
		}
	}
	// R14.4
	r.Rule("R14.4", "", 4)
	ruleResumePointWriters(w, r)
}

// resumeStore is one write of the in-memory resume point as seen from a
// sender: directly, or through a helper that stores (a field of) one of its
// parameters, in which case the helper's call site stands for the store.
type resumeStore struct {
	field string    // bisyncSeq | bisyncOffset
	name  string    // name of the field the stored value is loaded from ("" = not a field load)
	base  ssa.Value // what that field is loaded from
	at    ssa.Instruction
}

func bisyncStoreField(s core.Site) string {
	if s.Name != "(*sync/atomic.Int64).Store" {
		return ""
	}
	fa, ok := s.Common().Args[0].(*ssa.FieldAddr)
	if !ok {
		return ""
	}
	if n := core.FieldName(fa); n == "bisyncSeq" || n == "bisyncOffset" {
		return n
	}
	return ""
}

func loadedField(v ssa.Value) (string, ssa.Value) {
	switch x := core.Unwrap(v).(type) {
	case *ssa.Field:
		return core.FieldName(x), x.X
	case *ssa.UnOp:
		if x.Op == token.MUL {
			if fa, ok := x.X.(*ssa.FieldAddr); ok {
				return core.FieldName(fa), fa.X
			}
		}
	}
	return "", nil
}

// helperStores describes a function outside the senders that writes the
// resume point from its own parameters only: field -> (parameter index, loaded field name or "").
func helperStores(h *ssa.Function) (map[string][2]interface{}, bool) {
	out := map[string][2]interface{}{}
	for _, s := range core.Sites(h, false) {
		f := bisyncStoreField(s)
		if f == "" {
			continue
		}
		val := s.Common().Args[1]
		name, base := loadedField(val)
		src := core.Unwrap(val)
		if name != "" {
			src = core.Unwrap(base)
		}
		idx := -1
		for i, p := range h.Params {
			if ssa.Value(p) == src {
				idx = i
			}
		}
		if idx < 0 {
			return nil, false
		}
		out[f] = [2]interface{}{idx, name}
	}
	return out, len(out) > 0
}

func ruleResumePointWriters(w *core.World, r *core.Report) {
	allowed := map[string]bool{"(*syncer.RedisOutput).sendBisyncSync": true, "(*syncer.RedisOutput).receiveBisyncPipeline": true, "(*syncer.RedisOutput).sendBisyncParallel": true,
		"(*syncer.RedisOutput).StartPoint": true, "(*syncer.RedisOutput).sendRdb": true, "syncer.NewRedisOutput": true}
	rootOf := func(g *ssa.Function) *ssa.Function {
		for g.Parent() != nil {
			g = g.Parent()
		}
		return g
	}
	helpers := map[*ssa.Function]map[string][2]interface{}{}
	var strangers []string
	var spos token.Pos
	for _, g := range w.FuncsIn("syncer") {
		has := false
		for _, s := range core.Sites(g, false) {
			if bisyncStoreField(s) != "" {
				has = true
				spos = s.Pos()
			}
		}
		if !has || allowed[core.FuncName(rootOf(g))] {
			continue
		}
		// a helper of the package that only the allowed writers call
		if core.Transparent != nil && core.Transparent(rootOf(g)) {
			onlyAllowed := false
			for owner := range allowed {
				if calledOnlyFrom(w, rootOf(g), owner) {
					onlyAllowed = true
				}
			}
			if onlyAllowed {
				continue
			}
		}
		if hs, ok := helperStores(g); ok {
			helpers[g] = hs
		} else {
			strangers = append(strangers, core.FuncName(g))
		}
	}
	r.Check(len(strangers) == 0, "bisync-resume-point/writers", spos, "the in-memory resume point is written, from something other than the caller's arguments, outside the senders' confirmation sites, the start point and the snapshot completion: %v", strangers)

	type spec struct{ fn, confirm string }
	for _, sp := range []spec{
		{"(*syncer.RedisOutput).sendBisyncSync", "(*syncer.RedisOutput).execBisyncUnit"},
		{"(*syncer.RedisOutput).receiveBisyncPipeline", "(*syncer.bisyncFrontierCoordinator).onCommitted"},
		{"(*syncer.RedisOutput).sendBisyncParallel", "(*syncer.bisyncFrontierCoordinator).onCommitted"},
	} {
		f := fn(w, r, sp.fn)
		if f == nil {
			continue
		}
		frontierMode := strings.HasSuffix(sp.confirm, ".onCommitted")
		seen := map[string]bool{}
		for _, g := range core.DeepFuncs(f) {
			var evs []resumeStore
			for _, s := range core.Sites(g, false) {
				if fld := bisyncStoreField(s); fld != "" {
					name, base := loadedField(s.Common().Args[1])
					evs = append(evs, resumeStore{fld, name, base, s.Instr})
					continue
				}
				if hs, ok := helpers[s.Callee]; ok && s.Callee != nil {
					for fld, d := range hs {
						idx, hname := d[0].(int), d[1].(string)
						if idx >= len(s.Common().Args) {
							continue
						}
						arg := s.Common().Args[idx]
						if hname != "" {
							evs = append(evs, resumeStore{fld, hname, arg, s.Instr})
						} else {
							name, base := loadedField(arg)
							evs = append(evs, resumeStore{fld, name, base, s.Instr})
						}
					}
				}
			}
			for _, e := range evs {
				seen[e.field] = true
				confirmed := false
				for _, c := range core.SitesNamed(g, false, sp.confirm) {
					if core.Dominates(c.Instr, e.at) && core.OnSuccessOf(e.at.Block(), c.Value()) {
						confirmed = true
					}
				}
				want := map[string][]string{"bisyncSeq": {"Seq", "UnitSeq"}, "bisyncOffset": {"EndOffset", "Offset"}}[e.field]
				okVal := false
				for _, wn := range want {
					if e.name == wn {
						okVal = true
					}
				}
				if frontierMode {
					// units complete out of order: only the coordinator's contiguous frontier is a resume point
					fromFrontier := false
					b := e.base
					if b != nil {
						if u, ok := core.Unwrap(b).(*ssa.UnOp); ok && u.Op == token.MUL {
							b = u.X
						}
						if fb, ok := b.(*ssa.FieldAddr); ok && core.FieldName(fb) == "frontier" {
							fromFrontier = true
						}
						if fb, ok := core.Unwrap(e.base).(*ssa.Field); ok && core.FieldName(fb) == "frontier" {
							fromFrontier = true
						}
					}
					okVal = okVal && fromFrontier
				}
				r.Check(confirmed && okVal, shortName(sp.fn)+"/"+e.field+"-after-confirmation", e.at.Pos(), "the in-memory resume point (%s) must be stored only after the commit was confirmed (confirmed=%v) and from the confirmed unit (sync mode) or the coordinator's contiguous frontier (pipeline/parallel modes, where units complete out of order) (value ok=%v)", e.field, confirmed, okVal)
			}
		}
		if !seen["bisyncSeq"] || !seen["bisyncOffset"] {
			r.Fail(shortName(sp.fn)+"/resume-point", f.Pos(), "the sender must record both the sequence and the offset of its confirmed progress (found seq=%v offset=%v)", seen["bisyncSeq"], seen["bisyncOffset"])
		}
	}
}

// ---------------------------------------------------------------- R14.9 every replay mode has exactly one recovery format

// ruleModeFamilies: the recovery state of a bidirectional namespace is kept in
// one of two formats: a 'latest' record per slot (UsesLatest) or a frontier
// snapshot plus journal (UsesFrontier). The start-up code asks these predicates
// whether a configured mode can take over a namespace in place or needs a
// migration. For every valid mode exactly one of them must answer true; a mode
// that both (or neither) claims is switched in place into a format it does not
// read, the next start finds no recovery state and falls back to the end of the
// full sync — every unit committed since is replayed again.
func ruleModeFamilies(w *core.World, r *core.Report) {
	latest := fn(w, r, "(pkg/redis/checkpoint.BisyncMode).UsesLatest")
	frontier := fn(w, r, "(pkg/redis/checkpoint.BisyncMode).UsesFrontier")
	valid := fn(w, r, "(pkg/redis/checkpoint.BisyncMode).Valid")
	if latest == nil || frontier == nil || valid == nil {
		return
	}
	// the modes: the string constants Valid accepts
	var modes []string
	for _, in := range core.OwnInstrs(valid) {
		if b, ok := in.(*ssa.BinOp); ok && b.Op == token.EQL {
			for _, v := range []ssa.Value{b.X, b.Y} {
				if s, isS := core.ConstString(v); isS {
					modes = append(modes, s)
				}
			}
		}
	}
	if len(modes) < 3 {
		// ... or the keys of the table it looks the mode up in
		modes = tableKeys(w, valid)
		sort.Strings(modes)
	}
	if len(modes) < 3 {
		r.Undecided("BisyncMode/one-recovery-format", valid.Pos(), "the set of valid modes was not read off Valid() (%d found)", len(modes))
		return
	}
	eval := func(f *ssa.Function, mode string) (res, known bool) {
		if b, ok := foldPredicate(w, f, mode); ok {
			return b, true
		}
		par := ssa.Value(f.Params[0])
		found := false
		core.EnumPathsN(f.Blocks[0], 0, 10000, 1, func(p *core.Path) {
			ret, isRet := p.End.(*ssa.Return)
			if !isRet || ret.Parent() != f || len(ret.Results) != 1 {
				return
			}
			// is the path the one the mode takes?
			for _, fct := range p.Conds {
				c, ok := core.FactCmp(fct)
				if !ok || (c.Op != token.EQL && c.Op != token.NEQ) {
					return // a test this rule cannot evaluate
				}
				x, y := core.Unwrap(p.Resolve(c.X)), core.Unwrap(p.Resolve(c.Y))
				if y == par {
					x, y = y, x
				}
				s, isS := core.ConstString(y)
				if x != par || !isS {
					return
				}
				if (s == mode) != (c.Op == token.EQL) {
					return // not this mode's path
				}
			}
			if b, isB := core.ConstBool(p.Resolve(ret.Results[0])); isB {
				res, found = b, true
			} else if b, ok := p.Eval(ret.Results[0]); ok {
				res, found = b, true
			}
		})
		return res, found
	}
	for _, m := range modes {
		if v, okV := eval(valid, m); okV && !v {
			continue // not a mode a configuration can select
		}
		l, okL := eval(latest, m)
		fr, okF := eval(frontier, m)
		if !okL || !okF {
			r.Undecided("BisyncMode/one-recovery-format/"+m, latest.Pos(), "the predicates could not be evaluated for this mode")
			continue
		}
		r.Check(l != fr, "BisyncMode/one-recovery-format/"+m, latest.Pos(), "mode %q: UsesLatest=%v, UsesFrontier=%v — exactly one recovery format must claim every valid mode", m, l, fr)
	}
}

// ---------------------------------------------------------------- R14.10 sync mode executes a unit once

// ruleSyncUnitExecutedOnce: an error from execBisyncUnit does not mean the
// transaction was not executed: a command failing inside EXEC (a WRONGTYPE after
// the other site wrote a conflicting value) leaves the other commands and the
// 'latest' record applied. Sync mode therefore stops on an error and resumes after
// the unit from its record. Re-running the unit first applies its non-idempotent
// commands again, and the overwritten record shows nothing. On every path of
// sendBisyncSync two executions are separated by a receive of the next unit.
func ruleSyncUnitExecutedOnce(w *core.World, r *core.Report) {
	f := fn(w, r, "(*syncer.RedisOutput).sendBisyncSync")
	if f == nil {
		return
	}
	isUnitChan := func(t types.Type) bool {
		ch, ok := t.Underlying().(*types.Chan)
		return ok && strings.HasSuffix(core.TypeName(ch.Elem()), "bisyncReplayUnit")
	}
	bad := ""
	var pos token.Pos = f.Pos()
	n := 0
	okEnum := core.EnumPathsN(f.Blocks[0], 0, 400000, 2, func(p *core.Path) {
		if bad != "" {
			return
		}
		since := 0
		for _, in := range p.Instrs {
			switch x := in.(type) {
			case *ssa.Select:
				for _, st := range x.States {
					if st.Dir == types.RecvOnly && isUnitChan(st.Chan.Type()) {
						since = 0
					}
				}
			case *ssa.UnOp:
				if x.Op == token.ARROW && isUnitChan(x.X.Type()) {
					since = 0
				}
			case *ssa.Call:
				if strings.HasSuffix(core.ResolveCall(x).Name, ").execBisyncUnit") {
					n++
					since++
					if since > 1 {
						bad, pos = "a unit is executed a second time without a new unit having been received: its transaction may already have been applied by the target (an error inside EXEC does not undo the other commands), non-idempotent commands run twice", x.Pos()
					}
				}
			}
		}
	})
	if !okEnum {
		r.Undecided("sendBisyncSync/unit-executed-once", f.Pos(), "too many paths")
		return
	}
	r.Check(bad == "" && n > 0, "sendBisyncSync/unit-executed-once", pos, "%s", bad)
}

// consumedFromFront recognises `for q := list; len(q) > 0; q = q[1:] { … q[0] … }`: the element address is
// &q[0] of a loop variable that starts as the list and drops exactly its first element per round, the loop
// running while something is left. It returns the list.
func consumedFromFront(ia *ssa.IndexAddr) (ssa.Value, bool) {
	ph, ok := ia.X.(*ssa.Phi)
	if !ok || len(ph.Edges) != 2 || !isConstInt(0)(ia.Index) {
		return nil, false
	}
	var base ssa.Value
	step := false
	for _, e := range ph.Edges {
		if sl, isSl := e.(*ssa.Slice); isSl && sl.X == ssa.Value(ph) && sl.Low != nil && isConstInt(1)(sl.Low) && sl.High == nil && sl.Max == nil {
			step = true
		} else {
			base = e
		}
	}
	if !step || base == nil {
		return nil, false
	}
	// the loop condition, in the variable's block: len(q) > 0 (or != 0), the body on its true edge
	b := ph.Block()
	iff, ok := b.Instrs[len(b.Instrs)-1].(*ssa.If)
	if !ok {
		return nil, false
	}
	c, ok := core.AsCmp(iff.Cond, true)
	if !ok || !(c.Op == token.GTR || c.Op == token.NEQ) || !isConstInt(0)(c.Y) {
		return nil, false
	}
	lc, ok := c.X.(*ssa.Call)
	if !ok || !isBuiltin(lc, "len") || lc.Call.Args[0] != ssa.Value(ph) {
		return nil, false
	}
	if !(b.Succs[0] == ia.Block() || b.Succs[0].Dominates(ia.Block())) {
		return nil, false
	}
	return base, true
}

// ---------------------------------------------------------------- R14.11 / R14.12 the stored frontier state always belongs to the position in force

// callsInto: f, or a function of its package it reaches by static calls (closures included), calls target.
func callsInto(f *ssa.Function, target string) bool {
	if f == nil || len(f.Blocks) == 0 {
		return false
	}
	for _, g := range reachableFuncs(f) {
		if len(core.SitesNamed(g, false, target)) > 0 {
			return true
		}
	}
	return false
}

// ruleBaselineFrontier (R14.11): the journal of committed units is readable
// only relative to a stored frontier (or from sequence 1). A full sync that
// completes in a frontier mode must therefore leave a frontier at its end
// offset before the root checkpoint says "the snapshot is in": otherwise a stop
// that leaves a later unit journalled while the first one is in flight makes
// every following start fail with ErrBisyncJournalGap — the link never resumes
// (W28). What the journal still holds belongs to the position the full sync
// replaces and is numbered in the same space: it is removed before the
// baseline is stored, so that a record left above a hole cannot be chained onto
// the units that follow the snapshot.
func ruleBaselineFrontier(w *core.World, r *core.Report) {
	f := fn(w, r, "(*syncer.RedisOutput).sendRdb")
	if f == nil {
		return
	}
	const save = "pkg/redis/checkpoint.SaveBisyncFrontierSnapshot"
	const del = "pkg/redis/checkpoint.DeleteBisyncCommitKeys"
	var root core.Site
	for _, s := range core.Sites(f, false) {
		if s.Instr.Parent() == f && strings.HasSuffix(s.Name, "RedisOutput).setCheckpoint") {
			root = s
		}
	}
	if root.Instr == nil {
		r.Unresolved("sendRdb/root-checkpoint", "the root checkpoint write of a completed full sync was not found")
		return
	}
	isSave := func(in ssa.Instruction) bool {
		ci, ok := in.(ssa.CallInstruction)
		if !ok {
			return false
		}
		s := core.ResolveCall(ci)
		return s.Name == save || callsInto(s.Callee, save)
	}
	// the guard: `if ro.bisyncEnabled()` whose true edge leads to the root checkpoint
	var guard *ssa.If
	for _, b := range f.Blocks {
		iff, ok := b.Instrs[len(b.Instrs)-1].(*ssa.If)
		if !ok {
			continue
		}
		c, ok := core.Unwrap(iff.Cond).(*ssa.Call)
		if !ok || !strings.HasSuffix(core.ResolveCall(c).Name, "RedisOutput).bisyncEnabled") {
			continue
		}
		if b.Dominates(root.Instr.Block()) {
			guard = iff // the innermost one wins: blocks are visited in order, later ones are nearer
		}
	}
	if guard == nil {
		r.Fail("sendRdb/baseline-frontier-before-root", root.Pos(), "no bidirectional branch precedes the root checkpoint of a completed full sync: in the frontier modes nothing stores a frontier for the journal to continue from")
		return
	}
	isRoot := func(in ssa.Instruction) bool { return in == root.Instr }
	esc := core.PathFromBlock(guard.Block().Succs[0], isRoot, isSave)
	var saveSite core.Site
	for _, s := range core.Sites(f, false) {
		if s.Instr.Parent() == f && isSave(s.Instr) {
			saveSite = s
		}
	}
	okFail := saveSite.Instr != nil && failureReturned(f, saveSite)
	r.Check(esc == nil && okFail, "sendRdb/baseline-frontier-before-root", root.Pos(), "in bidirectional mode the root checkpoint of a completed full sync is written on a path that did not store a frontier at the snapshot's end (or went on after failing to): with the first unit in flight and a later one journalled, a stop before the first frontier flush leaves a journal no start can read (ErrBisyncJournalGap on every restart) (path without it: %v, failure ends the full sync: %v)", esc != nil, okFail)
	// the old journal goes first, in the function that stores the baseline
	okOrder, found := false, false
	var pos token.Pos = f.Pos()
	for _, g := range reachableFuncs(f) {
		for _, s := range core.SitesNamed(g, false, save) {
			if s.Instr.Parent() != g {
				continue
			}
			found = true
			pos = s.Pos()
			for _, j := range core.Sites(g, false) {
				if j.Instr.Parent() != g || !(j.Name == del || callsInto(j.Callee, del)) {
					continue
				}
				if core.Dominates(j.Instr, s.Instr) && failureReturned(g, j) {
					okOrder = true
				}
			}
		}
	}
	if !found {
		return
	}
	r.Check(okOrder, "sendRdb/baseline-after-journal-drop", pos, "the baseline frontier continues the sequence numbers of the position the full sync replaces; the journal records of that position must be removed (successfully) before it is stored, otherwise a record left above a hole is chained onto the units that follow the snapshot and a never-committed unit is skipped")
}

// ruleRootOverrideDropsFrontierState (R14.12): when the root checkpoint is
// newer than the stored frontier the replay resumes from the root and numbers
// its units from 1 again. The frontier snapshot and the journal left on the
// target number the units of the abandoned position; a later start would chain
// new records onto them (or an old record onto new ones) and resume behind a
// unit that was never committed (W29). On the override edge of
// bisyncStartPoint every path to a successful return removes the journal and
// the snapshot, the snapshot last.
func ruleRootOverrideDropsFrontierState(w *core.World, r *core.Report) {
	f := fn(w, r, "(*syncer.RedisOutput).bisyncStartPoint")
	if f == nil {
		return
	}
	const del = "pkg/redis/checkpoint.DeleteBisyncCommitKeys"
	dropsSnapshot := func(g *ssa.Function) (core.Site, *ssa.Function) {
		for _, h := range reachableFuncs(g) {
			for _, s := range core.Sites(h, false) {
				if s.Instr.Parent() != h || s.Method != "Do" {
					continue
				}
				if cmd, ok := core.CmdName(s); !ok || cmd != "del" {
					continue
				}
				a := s.Args()
				if core.DependsOn(a[len(a)-1], isResultOf("pkg/redis/checkpoint.BisyncFrontierKey", -1)) {
					return s, h
				}
			}
		}
		return core.Site{}, nil
	}
	n := 0
	// the start point itself and the helpers of the package its phases may live in
	var blocks []*ssa.BasicBlock
	for _, g := range reachableFuncs(f) {
		if g == f || (g.Parent() == nil && core.Transparent != nil && core.Transparent(g)) {
			blocks = append(blocks, g.Blocks...)
		}
	}
	top := f
	for _, b := range blocks {
		f := b.Parent()
		_ = top
		iff, ok := b.Instrs[len(b.Instrs)-1].(*ssa.If)
		if !ok {
			continue
		}
		c, ok := core.Unwrap(iff.Cond).(*ssa.Call)
		if !ok || !strings.HasSuffix(core.ResolveCall(c).Name, "RedisOutput).bisyncRootCheckpointNewer") {
			continue
		}
		// the override of a rebuilt frontier (the 'latest' records of sync mode are overwritten in place and
		// chosen by offset: nothing is chained onto them)
		rebuilt := false
		for _, rs := range core.SitesNamed(f, false, "pkg/redis/checkpoint.RebuildBisyncFrontier") {
			if rs.Instr.Parent() == f && core.Dominates(rs.Instr, iff) {
				rebuilt = true
			}
		}
		if !rebuilt {
			// the rebuild may be the last step of a phase of its own that leaves early when a load fails: then it is
			// not "always run" by that helper's call, yet every path that gets as far as this decision ran it
			rebuilt = everyPathToPasses(f, b, func(s core.Site) bool {
				return s.Name == "pkg/redis/checkpoint.RebuildBisyncFrontier"
			})
		}
		if !rebuilt {
			continue
		}
		n++
		var drop core.Site
		isDrop := func(in ssa.Instruction) bool {
			ci, ok := in.(ssa.CallInstruction)
			if !ok {
				return false
			}
			s := core.ResolveCall(ci)
			if s.Callee == nil || !callsInto(s.Callee, del) {
				return false
			}
			if snap, _ := dropsSnapshot(s.Callee); snap.Instr == nil {
				return false
			}
			drop = s
			return true
		}
		okReturn := func(in ssa.Instruction) bool {
			ret, isRet := in.(*ssa.Return)
			if !isRet || len(ret.Results) == 0 {
				return false
			}
			return core.IsNilConst(ret.Results[len(ret.Results)-1])
		}
		esc := core.PathFromBlock(b.Succs[0], okReturn, isDrop)
		okFail := drop.Instr != nil && failureReturned(f, drop)
		if os.Getenv("GC_DEBUG") == "R14.12" {
			fmt.Fprintln(os.Stderr, "DEBUG drop", drop.Instr, drop.Name, drop.Instr != nil)
		}
		r.Check(esc == nil && okFail, "bisyncStartPoint/root-override-drops-frontier-state", c.Pos(), "the root checkpoint takes over (unit numbering restarts at 1) on a path that leaves the old frontier snapshot or its journal on the target, or goes on after failing to remove them: a later start chains new journal records onto the old sequence numbers and resumes behind a unit that was never committed (path without removal: %v, failure stops the start: %v)", esc != nil, okFail)
		if drop.Instr != nil {
			// the snapshot goes last: while it exists an interrupted removal is repeated by the next start
			snap, h := dropsSnapshot(drop.Callee)
			last := false
			if snap.Instr != nil {
				for _, j := range core.Sites(h, false) {
					if j.Instr.Parent() == h && j.Callee != nil && callsInto(j.Callee, del) && core.Dominates(j.Instr, snap.Instr) && failureReturned(h, j) {
						last = true
					}
				}
			}
			r.Check(last, "bisyncStartPoint/root-override-snapshot-last", drop.Pos(), "the frontier snapshot must be removed after the journal (and only when that succeeded): a journal left without the snapshot its numbers continue cannot be read by the next start")
		}
	}
	if n == 0 {
		r.Fail("bisyncStartPoint/root-override-drops-frontier-state", f.Pos(), "the root-override decision was not found")
	}
}
