package rules

import (
	"go/constant"
	"go/token"
	"go/types"

	"golang.org/x/tools/go/ssa"
)

// A bit-level normal form for the shift/xor/mask expressions of a table-driven
// CRC step. A value is
//
//	lin ⊕ tab[idx]
//
// where every bit of lin (and of idx) is the XOR of a set of input bits (or
// the constant 1), and at most one table look-up takes part. Shifts by
// constants, xor, masking with constants, truncating and zero-extending
// conversions and calls of small pure helpers keep this form, so two ways of
// writing the same step (`tab[byte(crc>>8)^b]`, `tab[((crc>>8)^uint16(b))&0xff]`,
// the step in a helper of its own) have the same normal form. Nothing is
// executed: the form is computed from the expression tree.

type bvBits [64]uint64 // bit j -> set of input bit ids (as a mask); id 63 is the constant 1

type bv struct {
	w      int
	lin    bvBits
	tab    *ssa.Global // table looked up (nil: none)
	tabIdx *bv         // its index
	tabW   int         // bits of the table entry that take part (from bit 0)
}

const bvOne = 63

type bvEnv struct {
	leaf func(v ssa.Value) (first, width int, ok bool) // input bits of a leaf value
	sub  map[ssa.Value]ssa.Value                       // parameters of helpers being followed -> arguments
	deep int
}

func bvWidth(t types.Type) (w int, unsigned, ok bool) {
	b, isB := t.Underlying().(*types.Basic)
	if !isB || b.Info()&types.IsInteger == 0 {
		return 0, false, false
	}
	unsigned = b.Info()&types.IsUnsigned != 0
	switch b.Kind() {
	case types.Int8, types.Uint8:
		return 8, unsigned, true
	case types.Int16, types.Uint16:
		return 16, unsigned, true
	case types.Int32, types.Uint32:
		return 32, unsigned, true
	}
	return 64, unsigned, true
}

func (e *bvEnv) norm(v ssa.Value) (*bv, bool) {
	if s, ok := e.sub[v]; ok {
		return e.norm(s)
	}
	w, unsigned, ok := bvWidth(v.Type())
	if !ok {
		return nil, false
	}
	if first, lw, isLeaf := e.leaf(v); isLeaf {
		out := &bv{w: w}
		for j := 0; j < lw && j < w; j++ {
			out.lin[j] = 1 << uint(first+j)
		}
		return out, true
	}
	switch x := v.(type) {
	case *ssa.Const:
		if x.Value == nil || x.Value.Kind() != constant.Int {
			return nil, false
		}
		u, exact := constant.Uint64Val(x.Value)
		if !exact {
			return nil, false
		}
		out := &bv{w: w}
		for j := 0; j < w; j++ {
			if u&(1<<uint(j)) != 0 {
				out.lin[j] = 1 << bvOne
			}
		}
		return out, true
	case *ssa.Convert:
		in, ok := e.norm(x.X)
		if !ok {
			return nil, false
		}
		_, inUnsigned, _ := bvWidth(x.X.Type())
		out := *in
		out.w = w
		if w < in.w {
			for j := w; j < 64; j++ {
				out.lin[j] = 0
			}
			if out.tab != nil && out.tabW > w {
				out.tabW = w
			}
			return &out, true
		}
		if w > in.w && !inUnsigned {
			// sign extension: only of a value whose top bit is known to be 0
			if in.lin[in.w-1] != 0 || (in.tab != nil && in.tabW >= in.w) {
				return nil, false
			}
		}
		return &out, true
	case *ssa.ChangeType:
		return e.norm(x.X)
	case *ssa.BinOp:
		switch x.Op {
		case token.SHL, token.SHR:
			k, ok := constShift(x.Y)
			if !ok {
				return nil, false
			}
			in, ok := e.norm(x.X)
			if !ok || in.tab != nil {
				return nil, false
			}
			if x.Op == token.SHR && !unsigned && in.lin[in.w-1] != 0 {
				return nil, false // arithmetic shift of a possibly negative value
			}
			out := &bv{w: w}
			for j := 0; j < w; j++ {
				src := j - k
				if x.Op == token.SHR {
					src = j + k
				}
				if src >= 0 && src < w {
					out.lin[j] = in.lin[src]
				}
			}
			return out, true
		case token.XOR:
			a, ok1 := e.norm(x.X)
			b, ok2 := e.norm(x.Y)
			if !ok1 || !ok2 || (a.tab != nil && b.tab != nil) {
				return nil, false
			}
			out := &bv{w: w}
			for j := 0; j < w; j++ {
				out.lin[j] = a.lin[j] ^ b.lin[j]
			}
			if a.tab != nil {
				out.tab, out.tabIdx, out.tabW = a.tab, a.tabIdx, a.tabW
			} else if b.tab != nil {
				out.tab, out.tabIdx, out.tabW = b.tab, b.tabIdx, b.tabW
			}
			return out, true
		case token.AND:
			val, mask := x.X, x.Y
			if _, isC := mask.(*ssa.Const); !isC {
				val, mask = mask, val
			}
			mc, isC := mask.(*ssa.Const)
			if !isC || mc.Value == nil || mc.Value.Kind() != constant.Int {
				return nil, false
			}
			m, exact := constant.Uint64Val(mc.Value)
			if !exact {
				return nil, false
			}
			in, ok := e.norm(val)
			if !ok {
				return nil, false
			}
			out := *in
			out.w = w
			for j := 0; j < 64; j++ {
				if j >= w || m&(1<<uint(j)) == 0 {
					out.lin[j] = 0
				}
			}
			if out.tab != nil {
				// only a mask of the form 2^n-1 keeps the "low tabW bits of the entry" shape
				n := 0
				for n < 64 && m&(1<<uint(n)) != 0 {
					n++
				}
				if m>>uint(n) != 0 && n < out.tabW {
					return nil, false
				}
				if n < out.tabW {
					out.tabW = n
				}
			}
			return &out, true
		}
		return nil, false
	case *ssa.UnOp:
		if x.Op != token.MUL {
			return nil, false
		}
		ia, ok := x.X.(*ssa.IndexAddr)
		if !ok {
			return nil, false
		}
		g, ok := ia.X.(*ssa.Global)
		if !ok {
			return nil, false
		}
		idx, ok := e.norm(ia.Index)
		if !ok || idx.tab != nil {
			return nil, false
		}
		return &bv{w: w, tab: g, tabIdx: idx, tabW: w}, true
	case *ssa.Call:
		// a small pure helper: one block, one return value
		callee := x.Call.StaticCallee()
		if callee == nil || x.Call.IsInvoke() || len(callee.Blocks) != 1 || e.deep > 3 {
			return nil, false
		}
		blk := callee.Blocks[0]
		ret, ok := blk.Instrs[len(blk.Instrs)-1].(*ssa.Return)
		if !ok || len(ret.Results) != 1 {
			return nil, false
		}
		for _, in := range blk.Instrs {
			switch in.(type) {
			case *ssa.Store, *ssa.Call, *ssa.Go, *ssa.Defer, *ssa.Send, *ssa.MapUpdate, *ssa.Panic:
				return nil, false
			}
		}
		sub := &bvEnv{leaf: e.leaf, sub: map[ssa.Value]ssa.Value{}, deep: e.deep + 1}
		for k, v := range e.sub {
			sub.sub[k] = v
		}
		for i, par := range callee.Params {
			if i < len(x.Call.Args) {
				sub.sub[par] = x.Call.Args[i]
			}
		}
		return sub.norm(ret.Results[0])
	}
	return nil, false
}

func constShift(v ssa.Value) (int, bool) {
	for {
		if c, ok := v.(*ssa.Convert); ok {
			v = c.X
			continue
		}
		break
	}
	c, ok := v.(*ssa.Const)
	if !ok || c.Value == nil || c.Value.Kind() != constant.Int {
		return 0, false
	}
	n, exact := constant.Int64Val(c.Value)
	if !exact || n < 0 || n > 63 {
		return 0, false
	}
	return int(n), true
}
