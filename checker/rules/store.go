package rules

import (
	"fmt"
	"os"
	"strconv"
	"go/constant"
	"go/token"
	"go/types"
	"sort"
	"strings"

	"gunyucheck/core"

	"golang.org/x/tools/go/ssa"
)

func init() {
	All["C05"] = c05
	core.Explanations["C05"] = "Decides necessary structural conditions of 'the local cache returns exactly the bytes written, at the offsets written' (byte equality under all interleavings is runtime behaviour and not decided): " +
		"(R05.1) guarded-by tables: every read/write of the listed fields of MemoryChannel, appendBlob, dataSet, dataSetAof, dataSetRdb and the pipe happens with the owning mutex held in a sufficient mode (must-hold lockset per instruction), lock-requiring helpers are called with the lock held (requirement propagated through helpers), and no function calls, while holding a mutex exclusively, into code that locks the same mutex again (self-deadlock, whole-program call graph); " +
		"(R05.2) check-then-acquire in one critical section for both backends; (R05.3) collection respects references: a memory segment is removed only when closed, unreferenced and not the live one; a disk segment only when its reference count is zero; " +
		"(R05.4) the memory backend appends a writer only at the last segment's right edge; (R05.5) readers hand references over acquire-before-release; (R05.6) a reset closes every blob with the error before dropping the lists; " +
		"(R05.7) the cached snapshot is offered only through the 'all bytes present and log continues it' predicate, and removing a snapshot segment clears 'replayable'; (R05.8) the disk reader rotates to the file named by its own right edge and advances its edge by exactly the bytes read; " +
		"(R05.9) a freshly opened disk segment is positioned right behind its header as the last file operation of openFile on every successful return, a logical offset maps to headerSize + (offset − left), and GetReader seeks to the requested offset before publishing the reader; (R08.1, shared with C08) the disk snapshot is committed only when every announced byte was written; " +
		"(R05.10) the snapshot and the log stay joined: the disk collector removes no log file on a path that keeps a referenced snapshot, the memory backend stops offering the snapshot when the log no longer starts at its offset."
	All["C08"] = c08
	core.Explanations["C08"] = "Decides necessary structural conditions of 'after an unclean stop the disk cache serves only bytes it truly holds': " +
		"(R08.1) the snapshot's temporary file is renamed only under 'bytes written == announced size', after Sync and Close, and the written-byte count advances only after a successful write; the other edge removes the temporary; (R08.2) the directory scan ignores temporary snapshots (constant false) and empty segments; " +
		"(R08.3) gap truncation runs before the data set is published, compares neighbouring segments' edges, and on a gap keeps the newest run and drops the snapshot; (R08.4) with verification enabled a segment is checked before it is served and the check returns a corrupted-error on size or checksum mismatch on every path; completed snapshots are checked too; " +
		"(R08.5) the segment header is finalised (checksum, size) and written at offset 0 before Sync/Close; (R08.6) contiguity includes the snapshot/log joint; (R08.7) opening a reader with verification cannot dead-lock on the storer's own mutex (see R05.1). Not decided: the set of torn directory images."
}

var guardSpecs = []core.GuardSpec{
	{Struct: "syncer.MemoryChannel", Mutex: "mux", Fields: []string{"runId", "totalSize", "rdb", "rdbWriter", "aofSegs", "aofWriter", "spaceNotify"}},
	{Struct: "syncer.appendBlob", Mutex: "mu", Fields: []string{"data", "closed", "err", "notify"}},
	{Struct: "pkg/store.dataSet", Mutex: "mux", Fields: []string{"rdb", "aofSegs", "aofMap"}},
	{Struct: "pkg/store.dataSetAof", Mutex: "mux", Fields: []string{"size", "writer", "readers"}},
	{Struct: "pkg/store.dataSetRdb", Mutex: "mux", Fields: []string{"writer", "readers"}},
	{Struct: "pkg/io/pipe.pipe", Mutex: "mu", Fields: []string{"rerr", "werr"}},
}

// guardExceptions: accesses confirmed benign by reading the code, each with its reason and a
// machine-checked side condition.
var guardExceptions = map[string]string{
	// key: function|struct.field
	"(*pkg/store.dataSet).TruncateGap|pkg/store.dataSet.aofSegs": "writes under the read lock, but on a data set that is not published yet: sole caller is initDataSet, before the pointer is stored",
	"(*pkg/store.dataSet).TruncateGap|pkg/store.dataSet.rdb":     "as above",
	"(*pkg/store.dataSet).TruncateGap|pkg/store.dataSet.aofMap":  "as above",
	"(*pkg/store.dataSet).getRange|pkg/store.dataSet.rdb":        "helper called with ds.mux held by InRange and Range (checked as a helper requirement)",
	"(*pkg/store.dataSet).getRange|pkg/store.dataSet.aofSegs":    "as above",
}

func storeFuncs(w *core.World) []*ssa.Function {
	var fs []*ssa.Function
	fs = append(fs, w.FuncsIn("pkg/store")...)
	fs = append(fs, w.FuncsIn("pkg/io/pipe")...)
	for _, f := range w.FuncsIn("syncer") {
		pos := w.Pos(f.Pos())
		if strings.Contains(pos, "memory_channel.go") || strings.Contains(pos, "channel.go") {
			fs = append(fs, f)
		}
	}
	return fs
}

func isLockedHelper(f *ssa.Function) bool {
	n := f.Name()
	if strings.HasSuffix(n, "Locked") || n == "getRange" {
		return true
	}
	return inferredHelpers[f]
}

// inferredHelpers: unexported methods all of whose uses are plain static calls from the analysed
// functions. Such a method may rely on its callers for the lock: what it needs becomes a requirement
// checked at every one of its call sites (CheckHelperCalls), which is as strong as checking the
// method alone and does not depend on its name.
var inferredHelpers = map[*ssa.Function]bool{}

func inferLockedHelpers(w *core.World, funcs []*ssa.Function) {
	inferredHelpers = map[*ssa.Function]bool{}
	in := map[*ssa.Function]bool{}
	for _, f := range funcs {
		in[f] = true
	}
	calls := map[*ssa.Function]int{}
	bad := map[*ssa.Function]bool{}
	for _, g := range w.Funcs() {
		for _, ins := range core.OwnInstrs(g) {
			if ci, ok := ins.(ssa.CallInstruction); ok {
				s := core.ResolveCall(ci)
				if s.Callee != nil && in[s.Callee] {
					_, isCall := ins.(*ssa.Call)
					if !isCall || !in[g] {
						bad[s.Callee] = true // go/defer, or a caller outside the analysed set
					}
					calls[s.Callee]++
				}
			}
			// a method value or a function value: uses that are not calls
			for _, op := range ins.Operands(nil) {
				if op == nil || *op == nil {
					continue
				}
				if fv, ok := (*op).(*ssa.Function); ok && in[fv] {
					if ci, isCall := ins.(ssa.CallInstruction); !isCall || ci.Common().Value != fv {
						bad[fv] = true
					}
				}
				if mc, ok := (*op).(*ssa.MakeClosure); ok {
					// a bound method value: the wrapper carries the method's object
					if wr, ok := mc.Fn.(*ssa.Function); ok && wr.Synthetic != "" && wr.Object() != nil {
						for f := range in {
							if f.Object() == wr.Object() {
								bad[f] = true
							}
						}
					}
				}
			}
		}
	}
	for _, f := range funcs {
		if f.Signature.Recv() == nil || f.Object() == nil || f.Object().Exported() || calls[f] == 0 || bad[f] {
			continue
		}
		if strings.Contains(f.Name(), "$") {
			continue
		}
		inferredHelpers[f] = true
	}
}

func ruleGuardedBy(w *core.World, r *core.Report) {
	funcs := storeFuncs(w)
	inferLockedHelpers(w, funcs)
	findings, requires, accesses := core.CheckGuards(funcs, guardSpecs, isLockedHelper)
	r.CallSites += accesses
	seen := map[string]bool{}
	for _, f := range findings {
		key := core.FuncName(f.Fn) + "|" + f.Struct + "." + f.Field
		if seen[key] {
			continue
		}
		seen[key] = true
		if reason, ok := guardExceptions[key]; ok {
			// side condition for TruncateGap: sole caller is initDataSet
			if strings.Contains(key, "TruncateGap") {
				callers := map[string]bool{}
				for _, g := range w.Funcs() {
					for _, s := range core.Sites(g, true) {
						if s.Callee == f.Fn {
							callers[core.FuncName(g)] = true
						}
					}
				}
				if len(callers) != 1 || !callers["(*pkg/store.Storer).initDataSet"] {
					r.Fail("guarded-by/"+key, f.Instr.Pos(), "exception no longer applies: TruncateGap is called from %v (it writes the segment list under a read lock, which is only harmless on an unpublished data set)", callers)
					continue
				}
			}
			r.Excluded("guarded-by/"+key, f.Instr.Pos(), "%s", reason)
			continue
		}
		mode := "read"
		if f.Write {
			mode = "written"
		}
		r.Fail("guarded-by/"+key, f.Instr.Pos(), "%s.%s is %s without %s.%s held in a sufficient mode (held here: %v): concurrent readers/collectors see a torn segment list or offset", f.Struct, f.Field, mode, f.Base, muxOf(f.Struct), f.Held)
	}
	if len(findings) == 0 || allExcepted(findings) {
		r.OK("guarded-by/tables", token.NoPos, "%d accesses to guarded fields checked", accesses)
	}
	if accesses < 150 {
		r.Fail("guarded-by/coverage", token.NoPos, "only %d accesses to guarded fields were seen (about 300 on the pinned tree): the tables no longer match the code", accesses)
	}
	// helpers are called with the lock held
	hc := core.CheckHelperCalls(funcs, requires, isLockedHelper)
	for _, h := range hc {
		r.Fail("locked-helper/"+core.FuncName(h.Caller)+"->"+h.Site.Method, h.Site.Pos(), "%s needs its receiver's %s held (mode %d) but is called with mode %d", h.Site.Method, h.Mutex, h.Need, h.Have)
	}
	nh := 0
	for range requires {
		nh++
	}
	r.Check(len(hc) == 0 && nh >= 8, "locked-helper/calls", token.NoPos, "%d lock-requiring helpers found, %d bad call sites", nh, len(hc))
}

func allExcepted(fs []core.GuardFinding) bool {
	for _, f := range fs {
		if _, ok := guardExceptions[core.FuncName(f.Fn)+"|"+f.Struct+"."+f.Field]; !ok {
			return false
		}
	}
	return true
}

func muxOf(st string) string {
	for _, s := range guardSpecs {
		if s.Struct == st {
			return s.Mutex
		}
	}
	return "?"
}

// ruleNoSelfDeadlock: while a mutex is held exclusively (or a write lock is
// requested while it is read-held), no call may reach code that locks the
// same mutex field of the same struct type again.
func ruleNoSelfDeadlock(w *core.World, r *core.Report, cons string) {
	funcs := storeFuncs(w)
	cg := w.CallGraph()
	may := core.MayLock(cg, w.Funcs())
	n := 0
	bad := 0
	for _, fn := range funcs {
		var ls map[ssa.Instruction]core.LockState
		for _, s := range core.Sites(fn, false) {
			if _, isGo := s.Instr.(*ssa.Go); isGo {
				continue
			}
			if op := strings.TrimPrefix(s.Name, "(*sync."); op != s.Name {
				continue
			}
			if ls == nil {
				ls = core.Locksets(fn)
			}
			held := ls[s.Instr.(ssa.Instruction)]
			if len(held) == 0 {
				continue
			}
			n++
			// callees
			var callees []*ssa.Function
			if s.Callee != nil {
				callees = append(callees, s.Callee)
			} else if node := cg.Nodes[fn]; node != nil {
				for _, e := range node.Out {
					if e.Site == s.Instr {
						callees = append(callees, e.Callee.Func)
					}
				}
			}
			for _, callee := range callees {
				for _, h := range held {
					chain, locks := may[callee][h.Type+"."+h.Field]
					if !locks || h.Type == "" {
						continue
					}
					// same instance? when the callee is a method on the very object whose lock is held, or the
					// object is handed to it; otherwise (another instance of the type) it is not a re-entry
					base := strings.TrimSuffix(h.Key, "."+h.Field)
					same := false
					for _, a := range s.Common().Args {
						if core.CanonAddr(a) == base {
							same = true
						}
					}
					if s.Common().IsInvoke() && core.CanonAddr(s.Common().Value) == base {
						same = true
					}
					if !same {
						continue
					}
					if h.Mode != core.LockW && !strings.Contains(chain, ".Lock") {
						// read-held and the callee read-locks again: tolerated by RWMutex unless a writer queues; not reported
						continue
					}
					bad++
					r.Fail(cons+"/"+core.FuncName(fn)+"->"+s.Method, s.Pos(), "%s.%s is held exclusively here and the call reaches code that locks it again (%s): the goroutine blocks on itself for ever", h.Type, h.Field, chain)
				}
			}
		}
	}
	r.Check(bad == 0 && n > 20, cons, token.NoPos, "%d calls made with a lock held were examined", n)
}

func c05(w *core.World, r *core.Report) {
	r.Rule("R05.1", "guarded-by tables (must-hold lockset), lock-requiring helpers, no re-entrant locking", 3)
	ruleGuardedBy(w, r)
	ruleNoSelfDeadlock(w, r, "no-self-deadlock")

	r.Rule("R05.2", "range check, lookup and reference acquisition in one critical section", 2)
	ruleCheckThenAcquire(w, r)

	r.Rule("R05.3", "collection respects references", 3)
	ruleGcRespectsRefs(w, r)

	r.Rule("R05.4", "memory writer continuity", 1)
	if f := fn(w, r, "(*syncer.MemoryChannel).NewAofWritter"); f != nil {
		ok := false
		for _, in := range core.Instrs(f) {
			c, isC := in.(*ssa.Call)
			if !isC {
				continue
			}
			if b, isB := c.Call.Value.(*ssa.Builtin); !isB || b.Name() != "append" || !strings.HasSuffix(c.Type().String(), "memorySegment") {
				continue
			}
			// reachable only when the list is empty or offset == last.right()
			bad := false
			core.EnumPaths(f.Blocks[0], 0, 10000, func(p *core.Path) {
				on := false
				for _, i2 := range p.Instrs {
					if i2 == ssa.Instruction(c) {
						on = true
					}
				}
				if !on {
					return
				}
				empty := false
				cont := false
				for _, fct := range p.Conds {
					cm, okc := core.FactCmp(fct)
					if !okc {
						continue
					}
					if cm.Op == token.LEQ && isConstInt(0)(cm.Y) {
						empty = true
					}
					if cm.Op == token.EQL && isConstInt(0)(cm.Y) {
						if lc, isL := core.Unwrap(p.Resolve(cm.X)).(*ssa.Call); isL && isBuiltin(lc, "len") {
							empty = true
						}
					}
					if cm.Op == token.EQL && (cm.X == ssa.Value(f.Params[2]) || cm.Y == ssa.Value(f.Params[2])) {
						other := cm.Y
						if cm.Y == ssa.Value(f.Params[2]) {
							other = cm.X
						}
						if isResultOf("(*syncer.memorySegment).right", -1)(other) {
							cont = true
						}
					}
				}
				if !empty && !cont {
					bad = true
				}
			})
			ok = !bad
		}
		r.Check(ok, "MemoryChannel.NewAofWritter/continuity", f.Pos(), "a log writer may be appended only when the log is empty or starts at the last segment's right edge")
	}

	r.Rule("R05.5", "reference hand-over: acquire the next segment before releasing the current one", 2)
	for _, name := range []string{"(*syncer.MemoryChannel).copyAofFrom", "syncer.copyRdbFrom"} {
		f := fn(w, r, name)
		if f == nil {
			continue
		}
		ok := false
		for _, a := range core.SitesNamed(f, false, "(*syncer.memorySegment).acquire") {
			for _, rel := range core.SitesNamed(f, false, "(*syncer.memorySegment).release") {
				if a.Instr.Block() == rel.Instr.Block() && core.Dominates(a.Instr, rel.Instr) {
					ok = true
				}
			}
		}
		// a deferred release covers every exit
		def := false
		for _, g := range core.DeepFuncs(f)[1:] {
			if len(core.SitesNamed(g, false, "(*syncer.memorySegment).release")) > 0 {
				def = true
			}
		}
		r.Check(ok && def, shortName(name)+"/handover", f.Pos(), "the next segment must be acquired before the current one is released (otherwise it can be collected in between), and a deferred release must cover every exit")
	}

	r.Rule("R05.6", "reset invalidates readers before dropping the lists", 1)
	if f := fn(w, r, "(*syncer.MemoryChannel).resetDataLocked"); f != nil {
		closes := core.SitesNamed(f, false, "(*syncer.appendBlob).close")
		var dropAof, dropRdb ssa.Instruction
		for _, in := range core.Instrs(f) {
			if st, ok := in.(*ssa.Store); ok && core.IsNilConst(st.Val) {
				if fa, ok := st.Addr.(*ssa.FieldAddr); ok {
					switch core.FieldName(fa) {
					case "aofSegs":
						dropAof = st
					case "rdb":
						dropRdb = st
					}
				}
			}
		}
		ok := len(closes) >= 2 && dropAof != nil && dropRdb != nil
		if ok {
			// every drop is preceded by a loop closing the blobs with the error parameter
			for _, c := range closes {
				if len(c.Args()) != 1 || c.Args()[0] != ssa.Value(f.Params[1]) {
					ok = false
				}
			}
			if core.PathFrom(f, dropAof, func(in ssa.Instruction) bool {
				for _, c := range closes {
					if in == c.Instr {
						return true
					}
				}
				return false
			}, nil) != nil {
				ok = false
			}
		}
		r.Check(ok, "MemoryChannel.resetDataLocked/close-before-drop", f.Pos(), "every buffered blob must be closed with the reset error before the segment lists are dropped, so that open readers fail instead of waiting for ever")
	}

	r.Rule("R05.7", "snapshot offered only while whole and continued by its log", 3)
	ruleSnapshotOffer(w, r)

	r.Rule("R05.8", "disk reader rotation follows its own right edge", 2)
	ruleReaderRotation(w, r)

	r.Rule("R05.9", "segment reader positioning: a freshly opened segment is read from right behind its header, a logical offset maps to headerSize + (offset - left), GetReader seeks to the requested offset before publishing and reports it", 5)
	ruleReaderPositioning(w, r)
	ruleReaderLeft(w, r)
	r.Rule("R08.1", "snapshot commit point (shared with C08): a snapshot becomes offerable only when every announced byte was written", 3)
	ruleRdbCommit(w, r)
	r.Rule("R08.2", "after a restart the disk cache offers only what was completely received: the directory scan ignores temporary snapshots and empty segments (shared with C08)", 3)
	ruleScan(w, r)
	r.Rule("R05.12", "memory backend: a snapshot stays cached when its writer finishes only if every announced byte arrived (the commit point of the disk backend, R08.1, has a memory sibling)", 1)
	ruleMemorySnapshotCommit(w, r)
	r.Rule("R05.11", "one writer per log: the running writer is closed before its successor's file is created", 1)
	ruleWriterReplacement(w, r)
	r.Rule("R05.10", "snapshot and log stay joined under collection", 3)
	ruleJointUnderGc(w, r)
	r.Rule("R05.13", "the bytes a disk writer has written are credited to the segment that holds them: reported before the writer can rotate", 1)
	ruleWriteCreditedBeforeRotation(w, r)
	r.Rule("R05.14", "a finishing memory log writer removes only its own empty segment (by identity, never by position)", 1)
	ruleFinishRemovesOwnSegment(w, r)
	r.Rule("R05.15", "every log segment starts with a fresh running checksum (reset at every rotation)", 1)
	ruleOpenFileResetsChecksum(w, r)
	r.Rule("R05.16", "after a restart the newest-segment marker is the last element of the sorted segment list", 1)
	ruleNewestSegmentFromSortedList(w, r)
	r.Rule("R06.8", "the disk cache re-reads its directory whenever a run id is (re)confirmed: the in-memory data set lists a snapshot from the first byte of its transfer, and only the re-read removes one whose transfer broke off (shared with C06; seed C05-14)", 2)
	ruleCacheRefreshed(w, r)
	r.Rule("R05.17", "a log segment that is handed a writer is marked as being written at that point: a reader with verification on is not refused a segment whose offsets are reported valid (converse of R08.8)", 2)
	ruleWriterImpliesMarker(w, r)
}

func ruleCheckThenAcquire(w *core.World, r *core.Report) {
	if f := fn(w, r, "(*syncer.MemoryChannel).NewReader"); f != nil {
		ls := core.Locksets(f)
		ok := true
		n := 0
		for _, s := range core.Sites(f, false) {
			switch s.Name {
			case "(*syncer.MemoryChannel).inRangeLocked", "(*syncer.MemoryChannel).indexContinuousAofLocked", "(*syncer.memorySegment).acquire":
				n++
				if ls[s.Instr.(ssa.Instruction)]["p:#0.mux"].Mode < core.LockR {
					ok = false
				}
			}
		}
		// no unlock between the range test and the acquire
		unlocks := 0
		for _, s := range core.Sites(f, false) {
			if _, isDefer := s.Instr.(*ssa.Defer); !isDefer && (s.Name == "(*sync.RWMutex).RUnlock" || s.Name == "(*sync.RWMutex).Unlock") {
				unlocks++
			}
		}
		r.Check(ok && n >= 4 && unlocks == 0, "MemoryChannel.NewReader/one-critical-section", f.Pos(), "range test, segment lookup and acquire must happen under one uninterrupted hold of the channel mutex (calls=%d, explicit unlocks=%d)", n, unlocks)
	}
	if f := fn(w, r, "(*pkg/store.Storer).GetReader"); f != nil {
		ls := core.Locksets(f)
		ok := true
		n := 0
		for _, s := range core.Sites(f, false) {
			switch s.Name {
			case "(*pkg/store.dataSet).InRange", "(*pkg/store.dataSet).IndexAof", "(*pkg/store.dataSetAof).AddReader", "(*pkg/store.dataSetRdb).AddReader":
				n++
				if ls[s.Instr.(ssa.Instruction)]["p:#0.mux"].Mode < core.LockR {
					ok = false
				}
			}
		}
		// the collector excludes readers: gcDataSet holds s.mux exclusively around gcLogs
		gcOK := false
		if g := w.Func("(*pkg/store.Storer).gcDataSet"); g != nil {
			gl := core.Locksets(g)
			for _, s := range core.SitesNamed(g, false, "(*pkg/store.dataSet).gcLogs") {
				if gl[s.Instr.(ssa.Instruction)]["p:#0.mux"].Mode == core.LockW {
					gcOK = true
				}
			}
		}
		r.Check(ok && n >= 4 && gcOK, "Storer.GetReader/one-critical-section", f.Pos(), "range test, lookup and AddReader must run under the storer mutex (shared), and the collector must hold it exclusively (calls=%d, collector exclusive=%v)", n, gcOK)
	}
}

func ruleGcRespectsRefs(w *core.World, r *core.Report) {
	// memory: removal of aofSegs[0] under closed && readers==0 && not current
	if f := fn(w, r, "(*syncer.MemoryChannel).gcLocked"); f != nil {
		n := 0
		for _, in := range core.Instrs(f) {
			st, ok := in.(*ssa.Store)
			if !ok {
				continue
			}
			fa, ok := st.Addr.(*ssa.FieldAddr)
			if !ok {
				continue
			}
			name := core.FieldName(fa)
			if name != "aofSegs" && name != "segments" {
				continue
			}
			sl, ok := st.Val.(*ssa.Slice)
			if !ok || !isConstInt(1)(sl.Low) || sl.High != nil {
				r.Fail("MemoryChannel.gcLocked/"+name, st.Pos(), "the collector must remove a prefix only (list[1:])")
				continue
			}
			n++
			// on every path of the function that does the removal (the collector, or a helper written for
			// it) the three conditions have been established before the store
			closed, unref, notCur := true, true, true
			paths := 0
			g := st.Parent()
			okEnum := core.EnumPathsN(g.Blocks[0], 0, 200000, 2, func(p *core.Path) {
				on := false
				for _, pi := range p.Instrs {
					if pi == ssa.Instruction(st) {
						on = true
					}
				}
				if !on {
					return
				}
				paths++
				c1, c2, c3 := false, false, name == "segments"
				for _, fct := range factsBefore(p, st) {
					cond := p.Resolve(fct.Cond)
					if fct.Val && isResultOf("(*syncer.appendBlob).isClosed", -1)(cond) {
						c1 = true
					}
					c, ok := core.FactCmp(fct)
					if !ok {
						continue
					}
					x, y := p.Resolve(c.X), p.Resolve(c.Y)
					if c.Op == token.EQL && isConstInt(0)(y) && isResultOf("(*sync/atomic.Int32).Load", -1)(x) {
						c2 = true
					}
					if c.Op == token.NEQ && (isResultOf("(*syncer.MemoryAofWriter).currentSegment", -1)(y) || isResultOf("(*syncer.MemoryAofWriter).currentSegment", -1)(x)) {
						c3 = true
					}
					if c.Op == token.EQL && core.IsNilConst(y) && core.IsFieldLoad(core.Unwrap(x), "MemoryChannel", "aofWriter") {
						c3 = true
					}
				}
				closed, unref, notCur = closed && c1, unref && c2, notCur && c3
			})
			if !okEnum || paths == 0 {
				r.Undecided("MemoryChannel.gcLocked/"+name, st.Pos(), "paths to the removal could not be enumerated (%d)", paths)
				continue
			}
			r.Check(closed && unref && notCur, "MemoryChannel.gcLocked/"+name, st.Pos(), "a segment may be collected only when its blob is closed (%v), no reader holds it (%v) and it is not the writer's current segment (%v)", closed, unref, notCur)
		}
		if n < 2 {
			r.Fail("MemoryChannel.gcLocked/removals", f.Pos(), "expected log and snapshot segment removal sites")
		}
	}
	// disk: file removal under Ref()==0 / rwRef==0
	if f := fn(w, r, "(*pkg/store.dataSet).gcLogs"); f != nil {
		n := 0
		for _, s := range core.SitesNamed(f, false, "os.RemoveAll") {
			n++
			isRdb := core.DependsOn(s.Args()[0], isResultOf("pkg/store.rdbFilePath", -1))
			ok := false
			for _, fct := range core.FactsAt(s.Instr.Block()) {
				c, okc := core.FactCmp(fct)
				if !okc {
					continue
				}
				if isRdb && c.Op == token.EQL && isConstInt(0)(c.Y) && isResultOf("(*sync/atomic.Int32).Load", -1)(c.X) {
					ok = true
				}
				if !isRdb && c.Op == token.LEQ && isConstInt(0)(c.Y) && isResultOf("(*pkg/store.dataSetAof).Ref", -1)(c.X) {
					ok = true
				}
			}
			what := "log segment"
			if isRdb {
				what = "snapshot"
			}
			r.Check(ok, "dataSet.gcLogs/remove-"+strings.ReplaceAll(what, " ", "-"), s.Pos(), "a %s file is removed without its reference count having been found zero on this path: an open reader or writer loses its file", what)
		}
		if n < 2 {
			r.Fail("dataSet.gcLogs/removals", f.Pos(), "expected snapshot and log file removal sites")
		}
	}
}

func ruleSnapshotOffer(w *core.World, r *core.Report) {
	// every read of memoryRdb.replayable outside the predicate and the collector goes through rdbReplayableLocked
	readers := map[string]bool{}
	for _, f := range w.FuncsIn("syncer") {
		for _, in := range core.Instrs(f) {
			fa, ok := in.(*ssa.FieldAddr)
			if !ok || core.FieldName(fa) != "replayable" {
				continue
			}
			rd, _ := accessOf(fa)
			if rd {
				readers[core.FuncName(f)] = true
			}
		}
	}
	okReaders := true
	for n := range readers {
		if n != "(*syncer.MemoryChannel).rdbReplayableLocked" {
			okReaders = false
		}
	}
	var rs []string
	for n := range readers {
		rs = append(rs, n)
	}
	sort.Strings(rs)
	r.Check(okReaders && len(readers) == 1, "memoryRdb.replayable/readers", token.NoPos, "the 'snapshot is whole' flag must be consulted only through the offering predicate (which also requires the log to continue the snapshot); read directly in %v", rs)
	// the four offering sites use the predicate
	for _, name := range []string{"(*syncer.MemoryChannel).GetRdb", "(*syncer.MemoryChannel).NewReader", "(*syncer.MemoryChannel).rangeLocked", "(*syncer.MemoryChannel).inRangeLocked"} {
		f := fn(w, r, name)
		if f == nil {
			continue
		}
		uses := len(core.SitesNamed(f, false, "(*syncer.MemoryChannel).rdbReplayableLocked")) > 0
		// any use of rdb.left / rdb.size / firstSegment must be dominated by the predicate being true
		bad := false
		for _, in := range core.Instrs(f) {
			fa, ok := in.(*ssa.FieldAddr)
			if !ok || !strings.HasSuffix(core.TypeName(fa.X.Type()), "syncer.memoryRdb") {
				continue
			}
			okP := false
			for _, fct := range core.FactsAt(fa.Block()) {
				if isResultOf("(*syncer.MemoryChannel).rdbReplayableLocked", -1)(fct.Cond) && fct.Val {
					okP = true
				}
			}
			// also accept when the block is only reachable with the predicate true via short-circuit (checked by FactsAt above)
			if !okP {
				bad = true
			}
		}
		r.Check(uses && !bad, shortName(name)+"/offers-through-predicate", f.Pos(), "the cached snapshot's offset/size/segments are used on a path that did not pass the offering predicate")
	}
	// removing a snapshot segment clears replayable
	if f := fn(w, r, "(*syncer.MemoryChannel).gcLocked"); f != nil {
		ok := false
		for _, in := range core.Instrs(f) {
			st, isSt := in.(*ssa.Store)
			if !isSt {
				continue
			}
			fa, isFa := st.Addr.(*ssa.FieldAddr)
			if !isFa || core.FieldName(fa) != "segments" {
				continue
			}
			for _, i2 := range st.Block().Instrs {
				if s2, ok2 := i2.(*ssa.Store); ok2 {
					if fa2, ok3 := s2.Addr.(*ssa.FieldAddr); ok3 && core.FieldName(fa2) == "replayable" {
						if b, isB := core.ConstBool(s2.Val); isB && !b {
							ok = true
						}
					}
				}
			}
		}
		r.Check(ok, "MemoryChannel.gcLocked/partial-snapshot-not-replayable", f.Pos(), "removing a snapshot segment must clear the 'replayable' flag on the same path")
	}
	// the predicate itself: replayable && (no log || contiguous log starts at or before the snapshot offset)
	if f := fn(w, r, "(*syncer.MemoryChannel).rdbReplayableLocked"); f != nil {
		bad := ""
		n := 0
		core.EnumPaths(f.Blocks[0], 0, 1000, func(p *core.Path) {
			ret, ok := p.End.(*ssa.Return)
			if !ok {
				return
			}
			v, known := p.Eval(ret.Results[0])
			if known && !v {
				return
			}
			n++
			whole := false
			for _, fct := range p.Conds {
				if fieldNameOfLoad(core.Unwrap(p.Resolve(fct.Cond))) == "replayable" && fct.Val {
					whole = true
				}
			}
			joined := false
			if known && v {
				// true: on the "no log yet" path, or where the comparison of the contiguous log's left edge
				// with the snapshot offset held
				for _, fct := range p.Conds {
					if c, ok := core.FactCmp(fct); ok && c.Op == token.EQL && isConstInt(0)(c.Y) {
						joined = true
					}
					if b, ok := core.Unwrap(p.Resolve(fct.Cond)).(*ssa.BinOp); ok && fct.Val && (b.Op == token.LEQ || b.Op == token.EQL) && fieldNameOfLoad(b.X) == "left" && fieldNameOfLoad(b.Y) == "left" {
						joined = true
					}
				}
			} else {
				// the returned expression compares the contiguous log's left edge with the snapshot offset
				core.Walk(p.Resolve(ret.Results[0]), func(x ssa.Value) bool {
					if b, ok := x.(*ssa.BinOp); ok && (b.Op == token.LEQ || b.Op == token.EQL) && fieldNameOfLoad(b.X) == "left" && fieldNameOfLoad(b.Y) == "left" {
						joined = true
					}
					return true
				})
			}
			if !whole || !joined {
				bad = "the offering predicate can answer true without 'all snapshot bytes present' and 'the log (if any) still starts at the snapshot offset'"
			}
		})
		r.Check(bad == "" && n > 0, "MemoryChannel.rdbReplayableLocked/spec", f.Pos(), "%s", bad)
	}
}

func accessOf(fa *ssa.FieldAddr) (read, write bool) {
	if fa.Referrers() == nil {
		return
	}
	for _, ref := range *fa.Referrers() {
		switch x := ref.(type) {
		case *ssa.Store:
			if x.Addr == fa {
				write = true
			} else {
				read = true
			}
		default:
			read = true
		}
	}
	return
}

func ruleReaderRotation(w *core.World, r *core.Report) {
	rd := fn(w, r, "(*pkg/store.AofRotateReader).read")
	if rd != nil {
		n := 0
		for _, s := range core.SitesNamed(rd, false, "(*pkg/store.AofRotateReader).tryReadNextFile") {
			n++
			r.Check(core.IsFieldLoad(core.Unwrap(s.Args()[0]), "AofRotateReader", "right"), "AofRotateReader.read/next-file-is-right-edge", s.Pos(), "after reaching the end of a rotated segment the reader must open the segment that starts at its own right edge; opening any other one (for instance the newest) silently skips the segments in between")
		}
		if n == 0 {
			r.Fail("AofRotateReader.read/next-file-is-right-edge", rd.Pos(), "no rotation to the next file")
		}
		// right += n exactly
		ok := false
		for _, in := range core.Instrs(rd) {
			st, isSt := in.(*ssa.Store)
			if !isSt {
				continue
			}
			if fa, isFa := st.Addr.(*ssa.FieldAddr); isFa && core.FieldName(fa) == "right" {
				if b, isB := st.Val.(*ssa.BinOp); isB && b.Op == token.ADD && core.IsFieldLoad(b.X, "AofRotateReader", "right") {
					ok = core.DependsOn(b.Y, func(v ssa.Value) bool { return isResultOf("(*os.File).Read", 0)(v) })
				}
			}
		}
		r.Check(ok, "AofRotateReader.read/right-advances-by-n", rd.Pos(), "the reader's right edge must advance by exactly the bytes returned")
	}
	if f := fn(w, r, "(*pkg/store.AofRotateReader).tryReadNextFile"); f != nil {
		okStat, okOpen := false, false
		for _, s := range core.SitesNamed(f, false, "pkg/store.aofFilePath") {
			if core.IsFieldLoad(core.Unwrap(s.Args()[1]), "AofRotateReader", "right") {
				okStat = true
			}
		}
		for _, s := range core.SitesNamed(f, false, "(*pkg/store.AofRotateReader).openFile") {
			if core.Unwrap(s.Args()[0]) == ssa.Value(f.Params[1]) {
				okOpen = true
			}
		}
		r.Check(okStat && okOpen, "AofRotateReader.tryReadNextFile/same-offset", f.Pos(), "the file probed and the file opened must both be the one named by the offset handed in (the reader's right edge)")
	}
}

func ruleJointUnderGc(w *core.World, r *core.Report) {
	// disk: on a path of gcLogs that keeps a referenced snapshot although the size limit is exceeded, no log file is removed
	if f := fn(w, r, "(*pkg/store.dataSet).gcLogs"); f != nil {
		var aofRemoves []ssa.Instruction
		for _, s := range core.SitesNamed(f, false, "os.RemoveAll") {
			if core.DependsOn(s.Args()[0], isResultOf("pkg/store.aofFilePath", -1)) {
				aofRemoves = append(aofRemoves, s.Instr)
			}
		}
		bad := ""
		n := 0
		okEnum := core.EnumPathsN(f.Blocks[0], 0, 400000, core.Unroll, func(p *core.Path) {
			if bad != "" {
				return
			}
			// snapshot kept because referenced: rwRef.Load() == 0 assumed false
			pinned := false
			for _, fct := range p.Conds {
				c, ok := core.FactCmp(fct)
				if ok && c.Op == token.NEQ && isConstInt(0)(c.Y) && isResultOf("(*sync/atomic.Int32).Load", -1)(p.Resolve(c.X)) {
					// the load is of rdb.rwRef
					if call, isC := p.Resolve(c.X).(*ssa.Call); isC {
						if fa, isFa := call.Call.Args[0].(*ssa.FieldAddr); isFa && strings.HasSuffix(core.TypeName(fa.X.Type()), "dataSetRdb") {
							pinned = true
						}
					}
				}
			}
			if !pinned {
				return
			}
			n++
			for _, in := range p.Instrs {
				for _, rm := range aofRemoves {
					if in == rm {
						bad = "the collector keeps a referenced snapshot but removes log segments on the same pass: the offset right after the snapshot stays 'valid' while the bytes that continue it are gone"
					}
				}
			}
		})
		if !okEnum {
			r.Undecided("dataSet.gcLogs/pinned-snapshot-keeps-log", f.Pos(), "too many paths")
		} else {
			r.Check(bad == "" && n > 0, "dataSet.gcLogs/pinned-snapshot-keeps-log", f.Pos(), "%s (paths with a pinned snapshot=%d)", bad, n)
		}
		// the same for a snapshot that is kept because the size test spared it: on every
		// arithmetically possible path that removes a log segment the snapshot is gone
		// (it was absent, or the path dropped it from the index)
		bad2, removing := "", 0
		var pos2 token.Pos = f.Pos()
		okEnum = core.EnumPathsN(f.Blocks[0], 0, 400000, core.Unroll, func(p *core.Path) {
			if bad2 != "" {
				return
			}
			removes := false
			for _, in := range p.Instrs {
				for _, rm := range aofRemoves {
					if in == rm {
						removes = true
					}
				}
			}
			if !removes {
				return
			}
			removing++
			// the snapshot: absent from the start, or un-indexed on the path
			for _, in := range p.Instrs {
				if st, ok := in.(*ssa.Store); ok {
					if fa, isFa := st.Addr.(*ssa.FieldAddr); isFa && core.FieldName(fa) == "rdb" && strings.HasSuffix(core.TypeName(fa.X.Type()), "dataSet") {
						if c, isC := st.Val.(*ssa.Const); isC && c.Value == nil {
							return
						}
					}
				}
			}
			for _, fct := range p.Conds {
				c, ok := core.FactCmp(fct)
				if !ok {
					continue
				}
				x := p.Resolve(c.X)
				if strings.HasSuffix(core.TypeName(x.Type()), "dataSetRdb") {
					if kc, isC := c.Y.(*ssa.Const); isC && kc.Value == nil && c.Op == token.EQL {
						return // no snapshot
					}
				}
			}
			if os.Getenv("GUNYU_DEBUG") != "" {
				for _, l := range p.DumpArith() {
					fmt.Println("DEBUG dc", l)
				}
				for _, fct := range p.Conds {
					if c, ok := core.FactCmp(fct); ok {
						fmt.Println("DEBUG cond", c.Op, p.Resolve(c.X).String(), "|", p.Resolve(c.Y).String(), w.Pos(fct.Cond.Pos()))
					} else {
						fmt.Println("DEBUG cond", fct.Val, fct.Cond.String(), w.Pos(fct.Cond.Pos()))
					}
				}
			}
			bad2 = "the collector removes log segments on a pass that keeps the snapshot indexed: the size test spared the snapshot although the log that continues it is being deleted, so the offset right after the snapshot stays 'valid' while its bytes are gone"
			for _, in := range p.Instrs {
				for _, rm := range aofRemoves {
					if in == rm {
						pos2 = in.Pos()
					}
				}
			}
		})
		if !okEnum {
			r.Undecided("dataSet.gcLogs/log-removal-implies-snapshot-removal", f.Pos(), "too many paths")
		} else {
			r.Check(bad2 == "" && removing > 0, "dataSet.gcLogs/log-removal-implies-snapshot-removal", pos2, "%s (paths removing a log segment=%d)", bad2, removing)
		}
	}
	// memory: see R05.7 (offering predicate requires the log to start at the snapshot offset)
	if f := fn(w, r, "(*syncer.MemoryChannel).rdbReplayableLocked"); f != nil {
		uses := len(core.SitesNamed(f, false, "(*syncer.MemoryChannel).continuousAofStartIndexLocked")) > 0
		r.Check(uses, "MemoryChannel.rdbReplayableLocked/log-joint", f.Pos(), "the memory backend must stop offering the snapshot once the contiguous log no longer starts at the snapshot's offset")
	}
}

// ------------------------------------------------------------------ C08

func c08(w *core.World, r *core.Report) {
	r.Rule("R08.1", "snapshot commit point: rename only under written == announced, after Sync and Close; written count advances after a successful write", 3)
	ruleRdbCommit(w, r)
	r.Rule("R08.2", "directory scan ignores temporary snapshots and empty segments", 3)
	ruleScan(w, r)
	r.Rule("R08.3", "gap truncation before publication keeps the newest run and drops the snapshot", 3)
	r.Rule("R08.6", "contiguity includes the snapshot/log joint", 1)
	ruleTruncateGap(w, r)
	r.Rule("R08.4", "verification on open when enabled; corrupted-error on size or checksum mismatch on every path; only a segment that is still being written is exempt", 4)
	ruleVerifyOnOpen(w, r)
	r.Rule("R08.5", "segment header finalised at close: header fields ≺ Seek(0) ≺ Write(header) ≺ Sync/Close", 1)
	ruleCloseAof(w, r)
	r.Rule("R08.8", "the 'still being written' marker that exempts a segment from verification is given only together with a writer", 1)
	ruleWriterMarker(w, r)
	r.Rule("R08.7", "opening a reader with verification cannot block on the storer's own mutex", 1)
	ruleNoSelfDeadlock(w, r, "no-self-deadlock")
	r.Rule("R08.9", "every data set built from a directory goes through the gap truncation and the snapshot/log joint test", 1)
	ruleScanAlwaysTruncates(w, r)
	r.Rule("R08.10", "a snapshot is 'still being written' (not verified) only when it exists under its temporary name", 1)
	ruleWritingOnlyForTmpName(w, r)
	r.Rule("R08.11", "the snapshot verification answers 'not corrupted' only on a path that established computed checksum == stored checksum (or the file is too short to hold a body)", 1)
	ruleSnapshotChecksumSpec(w, r)
	r.Rule("R08.12", "the verification switch travels through the store unweakened: every parameter or field that carries it from GetReader to the opens is set to the carrier of the setting function itself, and is set before the object is used", 6)
	ruleSwitchUnweakened(w, r)
}

func ruleRdbCommit(w *core.World, r *core.Report) {
	if f := fn(w, r, "(*pkg/store.RdbWriter).closeRdb"); f != nil {
		var ren, rem core.Site
		for _, s := range core.Sites(f, false) {
			switch s.Name {
			case "os.Rename":
				ren = s
			case "os.Remove":
				rem = s
			}
		}
		if ren.Instr == nil || rem.Instr == nil {
			r.Fail("RdbWriter.closeRdb/commit", f.Pos(), "rename/remove of the temporary snapshot not found")
		} else {
			isPumped := func(v ssa.Value) bool {
				c, ok := core.Unwrap(v).(*ssa.Call)
				if !ok || core.ResolveCall(c).Name != "(*sync/atomic.Int64).Load" {
					return false
				}
				fa, ok := c.Call.Args[0].(*ssa.FieldAddr)
				return ok && core.FieldName(fa) == "pumped"
			}
			isSize := func(v ssa.Value) bool { return core.IsFieldLoad(core.Unwrap(v), "RdbWriter", "rdbSize") }
			okRen, okRem := false, false
			for _, fct := range core.FactsAt(ren.Instr.Block()) {
				if c, ok := core.FactCmp(fct); ok && c.Op == token.EQL && isPumped(c.X) && isSize(c.Y) {
					okRen = true
				}
			}
			for _, fct := range core.FactsAt(rem.Instr.Block()) {
				if c, ok := core.FactCmp(fct); ok && c.Op == token.NEQ && isPumped(c.X) && isSize(c.Y) {
					okRem = true
				}
			}
			syncClose := false
			var sy, cl ssa.Instruction
			for _, s := range core.Sites(f, false) {
				if s.Name == "(*os.File).Sync" {
					sy = s.Instr
				}
				if s.Name == "(*os.File).Close" {
					cl = s.Instr
				}
			}
			if sy != nil && cl != nil && core.Dominates(sy, cl) && core.Dominates(cl, ren.Instr) {
				syncClose = true
			}
			r.Check(okRen && okRem && syncClose, "RdbWriter.closeRdb/commit", ren.Pos(), "the temporary snapshot may be renamed only when written bytes == announced size (%v), after Sync ≺ Close (%v); otherwise it must be removed (%v)", okRen, syncClose, okRem)
		}
	}
	if f := fn(w, r, "(*pkg/store.RdbWriter).ingest"); f != nil {
		// the remaining-bytes counter is decremented only on the success edge of write
		var wr core.Site
		for _, s := range core.SitesNamed(f, false, "(*pkg/store.RdbWriter).write") {
			wr = s
		}
		ok := false
		n := 0
		for _, in := range core.Instrs(f) {
			b, isB := in.(*ssa.BinOp)
			if !isB || b.Op != token.SUB {
				continue
			}
			ph, isPhi := b.X.(*ssa.Phi)
			if !isPhi {
				continue
			}
			// the remaining-bytes counter: the loop variable initialised from the announced size
			fromSize := false
			for _, e := range ph.Edges {
				if core.IsFieldLoad(core.Unwrap(e), "RdbWriter", "rdbSize") {
					fromSize = true
				}
			}
			if !fromSize {
				continue
			}
			n++
			ok = wr.Instr != nil && core.Dominates(wr.Instr, b) && core.OnSuccessOf(b.Block(), wr.Value())
		}
		r.Check(ok && n == 1, "RdbWriter.ingest/count-after-write", f.Pos(), "the count that decides the rename must advance only after the bytes reached the temporary file (after a successful write), not when they were read from the source")
		// pumped = announced - remaining
		okP := false
		for _, s := range core.SitesNamed(f, false, "(*sync/atomic.Int64).Store") {
			if fa, isFa := s.Common().Args[0].(*ssa.FieldAddr); isFa && core.FieldName(fa) == "pumped" {
				if b, isB := s.Common().Args[1].(*ssa.BinOp); isB && b.Op == token.SUB && core.IsFieldLoad(core.Unwrap(b.X), "RdbWriter", "rdbSize") {
					okP = true
				}
			}
		}
		r.Check(okP, "RdbWriter.ingest/pumped", f.Pos(), "written bytes must be recorded as announced size − remaining")
	}
}

func ruleScan(w *core.World, r *core.Report) {
	f := fn(w, r, "(*pkg/store.Storer).initDataSet")
	if f != nil {
		okConst := false
		okSize := true
		nSizeFuncs := 0
		nScanSites, nScanFalse := 0, 0
		for _, g := range reachableFuncs(f) {
			for _, s := range core.SitesNamed(g, false, "pkg/store.ParseRdbFile") {
				if s.Instr.Parent() != g {
					continue
				}
				nScanSites++
				if b, isB := core.ConstBool(s.Args()[1]); isB && !b {
					nScanFalse++
				}
			}
			// every path of the scan callback that indexes a segment has established size > 0 (directly, or
			// through a helper that answers nil for an empty segment)
			isAppend := func(in ssa.Instruction) bool {
				c, isC := in.(*ssa.Call)
				if !isC {
					return false
				}
				b, isB := c.Call.Value.(*ssa.Builtin)
				return isB && b.Name() == "append" && strings.HasSuffix(c.Type().String(), "dataSetAof")
			}
			has, scans := false, false
			for _, in := range core.OwnInstrs(g) {
				if isAppend(in) {
					has = true
				}
			}
			for _, in := range core.Instrs(g) { // the size may be read in a helper written for the scan
				if c, isC := in.(*ssa.Call); isC && c.Call.IsInvoke() && c.Call.Method.Name() == "Size" && strings.HasSuffix(c.Call.Value.Type().String(), "FileInfo") {
					scans = true
				}
			}
			if has && scans {
				nSizeFuncs++
				all, n := true, 0
				core.EnumPaths(g.Blocks[0], 0, 100000, func(p *core.Path) {
					indexed := false
					for _, in := range p.Instrs {
						if isAppend(in) {
							indexed = true
						}
					}
					if !indexed {
						return
					}
					n++
					pos := false
					for _, fct := range p.Conds {
						if cm, ok := core.AsCmp(p.Resolve(fct.Cond), fct.Val); ok && cm.Op == token.GTR && isConstInt(0)(cm.Y) {
							pos = true
						}
					}
					if !pos {
						all = false
					}
				})
				okSize = okSize && all && n > 0
			}
		}
		okSize = okSize && nSizeFuncs > 0
		okConst = nScanSites > 0 && nScanFalse == nScanSites
		r.Check(okConst, "initDataSet/ignores-temporary-snapshots", f.Pos(), "the scan must not accept '*.rdb.tmp' files (ParseRdbFile(name, false))")
		r.Check(okSize, "initDataSet/ignores-empty-segments", f.Pos(), "a segment must be indexed only when it holds data (size > 0)")
	}
	if g := fn(w, r, "pkg/store.ParseRdbFile"); g != nil {
		// the tmp branch is guarded by the includeTmpRdb parameter
		ok := false
		for _, in := range core.Instrs(g) {
			st, isSt := in.(*ssa.Store)
			if !isSt {
				continue
			}
			if fa, isFa := st.Addr.(*ssa.FieldAddr); isFa && core.FieldName(fa) == "tmp" {
				for _, fct := range core.FactsAt(st.Block()) {
					if fct.Val && core.Unwrap(fct.Cond) == ssa.Value(g.Params[1]) {
						ok = true
					}
				}
			}
		}
		r.Check(ok, "ParseRdbFile/tmp-needs-flag", g.Pos(), "a temporary snapshot name may be accepted only when the caller asked for temporaries")
	}
}

func ruleTruncateGap(w *core.World, r *core.Report) {
	f := fn(w, r, "(*pkg/store.dataSet).TruncateGap")
	if f == nil {
		return
	}
	r.Rule("R08.3", "", 3)
	// called in initDataSet before the data set is returned
	if g := w.Func("(*pkg/store.Storer).initDataSet"); g != nil {
		r.Check(len(core.SitesNamed(g, false, "(*pkg/store.dataSet).TruncateGap")) == 1, "initDataSet/truncates-before-publication", g.Pos(), "gaps must be truncated while the directory is scanned, before the data set is published")
	}
	// neighbour comparison: Left() of element i against Right() of element i-1 (as != or as ==)
	type gapCmp struct {
		b   *ssa.BinOp
		idx ssa.Value // the index i
	}
	var gaps []gapCmp
	elemIndex := func(v ssa.Value) ssa.Value { // v = aofSegs[k]  ->  k
		ld, ok := core.Unwrap(v).(*ssa.UnOp)
		if !ok || ld.Op != token.MUL {
			return nil
		}
		ia, ok := ld.X.(*ssa.IndexAddr)
		if !ok {
			return nil
		}
		return ia.Index
	}
	recvOf := func(v ssa.Value, method string) ssa.Value {
		c, ok := core.Unwrap(v).(*ssa.Call)
		if !ok || core.ResolveCall(c).Name != "(*pkg/store.dataSetAof)."+method || len(c.Call.Args) == 0 {
			return nil
		}
		return c.Call.Args[0]
	}
	for _, in := range core.Instrs(f) {
		b, ok := in.(*ssa.BinOp)
		if !ok || (b.Op != token.NEQ && b.Op != token.EQL) {
			continue
		}
		l, rr := recvOf(b.X, "Left"), recvOf(b.Y, "Right")
		if l == nil || rr == nil {
			l, rr = recvOf(b.Y, "Left"), recvOf(b.X, "Right")
		}
		if l == nil || rr == nil {
			continue
		}
		li, ri := elemIndex(l), elemIndex(rr)
		if li == nil || ri == nil {
			continue
		}
		if sub, ok := ri.(*ssa.BinOp); ok && sub.Op == token.SUB && sub.X == li && isConstInt(1)(sub.Y) {
			gaps = append(gaps, gapCmp{b, li})
		}
	}
	if len(gaps) == 0 {
		r.Fail("TruncateGap/neighbour-comparison", f.Pos(), "no comparison of a segment's left edge with its predecessor's right edge")
		return
	}
	gapIf := gaps[0].b
	r.OK("TruncateGap/neighbour-comparison", gapIf.Pos(), "")
	// every path that cuts the list cuts it at an index where that comparison found a gap, and the
	// snapshot (which lies before every segment) stops being indexed on the same path
	keepNew, dropRdb := false, true
	cuts := 0
	core.EnumPathsN(f.Blocks[0], 0, 200000, core.Unroll, func(p *core.Path) {
		var low ssa.Value
		nilRdb := false
		for _, in := range p.Instrs {
			st, ok := in.(*ssa.Store)
			if !ok {
				continue
			}
			fa, ok := st.Addr.(*ssa.FieldAddr)
			if !ok {
				continue
			}
			switch core.FieldName(fa) {
			case "aofSegs":
				if sl, ok := st.Val.(*ssa.Slice); ok && sl.Low != nil && sl.High == nil {
					low = sl.Low
				}
			case "rdb":
				if core.IsNilConst(st.Val) {
					nilRdb = true
				}
			}
		}
		if low == nil {
			return
		}
		cuts++
		atGap := false
		for _, fct := range p.Conds {
			for _, g := range gaps {
				if fct.Cond != ssa.Value(g.b) {
					continue
				}
				isGap := (g.b.Op == token.NEQ) == fct.Val
				if isGap && core.Unwrap(p.Resolve(low)) == core.Unwrap(p.Resolve(g.idx)) {
					atGap = true
				}
			}
		}
		if atGap {
			keepNew = true
		} else {
			keepNew, cuts = false, -1000000
		}
		if !nilRdb {
			dropRdb = false
		}
	})
	if cuts <= 0 {
		keepNew = false
	}
	// R08.6 joint (computed first: a joint test after the loop also disposes of a snapshot left indexed by the gap branch)
	joint := false
	for _, in := range core.Instrs(f) {
		b, ok := in.(*ssa.BinOp)
		if !ok || b.Op != token.NEQ {
			continue
		}
		l := isResultOf("(*pkg/store.dataSetAof).Left", -1)(b.X) || isResultOf("(*pkg/store.dataSetAof).Left", -1)(b.Y)
		rl := fieldNameOfLoad(b.X) == "left" || fieldNameOfLoad(b.Y) == "left" || isResultOf("(*pkg/store.dataSetRdb).Left", -1)(b.X) || isResultOf("(*pkg/store.dataSetRdb).Left", -1)(b.Y)
		if !(l && rl) || b == gapIf {
			continue
		}
		// its true edge clears the snapshot
		for _, i2 := range core.Instrs(f) {
			st, ok := i2.(*ssa.Store)
			if !ok || !core.IsNilConst(st.Val) {
				continue
			}
			if fa, ok := st.Addr.(*ssa.FieldAddr); ok && core.FieldName(fa) == "rdb" {
				for _, fct := range core.FactsAt(st.Block()) {
					if fct.Val && fct.Cond == ssa.Value(b) {
						joint = true
					}
				}
			}
		}
	}
	r.Rule("R08.3", "", 3)
	r.Check(keepNew && (dropRdb || joint), "TruncateGap/gap-branch", gapIf.Pos(), "on a gap the data set must keep only the newest contiguous run (kept=%v) and must stop indexing the snapshot that lies before the gap, either in the gap branch (%v) or through the snapshot/log joint test that follows (%v)", keepNew, dropRdb, joint)
	r.Rule("R08.6", "", 1)
	r.Check(joint, "TruncateGap/snapshot-log-joint", f.Pos(), "when a directory is opened the snapshot's offset must be compared with the first kept log segment and the snapshot dropped on inequality; otherwise the reported range spans bytes that are not there")
}

func ruleVerifyOnOpen(w *core.World, r *core.Report) {
	if f := fn(w, r, "(*pkg/store.AofRotateReader).openFile"); f != nil {
		// with the switch on, the check runs and a failed check fails the open (decided on paths, so
		// that the phases of the open may live in helpers)
		ok, sawFail := true, false
		isSw := func(v ssa.Value) bool { return core.IsFieldLoad(core.Unwrap(v), "AofRotateReader", "verifyCrc") }
		okEnum0 := core.EnumPathsN(f.Blocks[0], 0, 100000, core.Unroll, func(p *core.Path) {
			ret, isRet := p.End.(*ssa.Return)
			if !isRet || ret.Parent() != f {
				return
			}
			for _, s := range pathSites(p) {
				if s.Name != "(*pkg/store.AofRotateReader).isCorrupted" {
					continue
				}
				if !pathAssumed(p, isSw, true) {
					continue
				}
				if failedOn(p, s.Value()) {
					sawFail = true
					if pathNil(p, ret.Results[len(ret.Results)-1]) {
						ok = false
					}
				}
			}
		})
		ok = ok && sawFail && okEnum0
		r.Check(ok, "AofRotateReader.openFile/verifies", f.Pos(), "with verification enabled every segment must be checked when it is opened and a failed check must fail the open")
		// ... every segment: on no path does a successful open skip the check unless verification is off
		// (a reader that remembers "already verified" serves the segments it rotates into unchecked)
		bad := ""
		var pos token.Pos = f.Pos()
		n := 0
		isSwitch := func(v ssa.Value) bool { return core.IsFieldLoad(core.Unwrap(v), "AofRotateReader", "verifyCrc") }
		okEnum := core.EnumPathsN(f.Blocks[0], 0, 100000, core.Unroll, func(p *core.Path) {
			ret, isRet := p.End.(*ssa.Return)
			if !isRet || ret.Parent() != f || bad != "" || !pathNil(p, ret.Results[len(ret.Results)-1]) {
				return
			}
			n++
			if pathAssumed(p, isSwitch, false) {
				return
			}
			for _, s := range pathSites(p) {
				if s.Name == "(*pkg/store.AofRotateReader).isCorrupted" {
					return
				}
			}
			bad, pos = "a segment is opened successfully without having been checked on a path that did not establish that verification is off", ret.Pos()
		})
		if !okEnum {
			r.Undecided("AofRotateReader.openFile/verifies-every-segment", f.Pos(), "too many paths")
		} else {
			r.Check(bad == "" && n > 0, "AofRotateReader.openFile/verifies-every-segment", pos, "%s", bad)
		}
	}
	// the switch that reaches the store is the operator's: it derives from the configuration's VerifyCrc and
	// from nothing that is never assigned
	nCalls := 0
	for _, g := range w.Funcs() {
		if g.Pkg != nil && strings.HasSuffix(g.Pkg.Pkg.Path(), "pkg/store") {
			continue
		}
		for _, s := range core.SitesNamed(g, false, "(*pkg/store.Storer).GetReader") {
			if s.Instr.Parent() != g {
				continue
			}
			a := s.Args()
			if len(a) < 2 {
				continue
			}
			nCalls++
			fromConfig, dead := false, ""
			core.Walk(a[1], func(v ssa.Value) bool {
				ld, ok := v.(*ssa.UnOp)
				if !ok || ld.Op != token.MUL {
					return true
				}
				// every field on the access path must be assigned somewhere in the module
				for fa, ok := ld.X.(*ssa.FieldAddr); ok; fa, ok = fa.X.(*ssa.FieldAddr) {
					tn := core.TypeName(fa.X.Type())
					if strings.Contains(tn, "config.") && strings.EqualFold(core.FieldName(fa), "VerifyCrc") {
						fromConfig = true
					}
					if !strings.Contains(tn, "config.") {
						if !fieldEverStored(w, fa) {
							dead = tn + "." + core.FieldName(fa)
						}
						// carried in a field of the channel's own configuration: what is assigned to it
						for _, sv := range fieldStoredValues(w, fa) {
							if core.DependsOn(sv, func(x ssa.Value) bool {
								l, isL := x.(*ssa.UnOp)
								if !isL || l.Op != token.MUL {
									return false
								}
								f2, isF := l.X.(*ssa.FieldAddr)
								return isF && strings.Contains(core.TypeName(f2.X.Type()), "config.") && strings.EqualFold(core.FieldName(f2), "VerifyCrc")
							}) {
								fromConfig = true
							}
						}
					}
				}
				return true
			})
			name := shortName(core.FuncName(g))
			r.Check(fromConfig && dead == "", name+"/verification-switch-from-config", s.Pos(), "the verification switch handed to the store must be the configured one (from config: %v; read through a field that nothing ever assigns: %q): otherwise verification is silently off whatever the operator configured", fromConfig, dead)
		}
	}
	if nCalls == 0 {
		r.Fail("GetReader/verification-switch-from-config", token.NoPos, "no caller of the store's GetReader found")
	}
	if f := fn(w, r, "(*pkg/store.AofRotateReader).isCorrupted"); f != nil {
		bad := ""
		n := 0
		core.EnumPathsN(f.Blocks[0], 0, 100000, core.Unroll, func(p *core.Path) {
			ret, ok := p.End.(*ssa.Return)
			if !ok || bad != "" {
				return
			}
			// a path on which the function can answer "not corrupted": it returns nil, or an error value of
			// which the path knows nothing (`return err` for the last step)
			if isNil, known := p.IsNil(ret.Results[0]); known && !isNil {
				return
			}
			n++
			live := pathAssumed(p, func(v ssa.Value) bool {
				c, ok := core.Unwrap(v).(*ssa.Call)
				return ok && c.Call.IsInvoke() && c.Call.Method.Name() == "hasWriter"
			}, true)
			if live {
				return
			}
			sizeOK, crcOK := false, false
			for _, fct := range p.Conds {
				c, ok := core.FactCmp(fct)
				if !ok || c.Op != token.EQL {
					continue
				}
				if core.DependsOn(p.Resolve(c.X), isResultOf("*littleEndian).Uint32", -1)) || core.DependsOn(p.Resolve(c.Y), isResultOf("*littleEndian).Uint32", -1)) {
					sizeOK = true
				}
				if isIfaceCallName(core.Unwrap(p.Resolve(c.X)), "Sum64") || isIfaceCallName(core.Unwrap(p.Resolve(c.Y)), "Sum64") {
					crcOK = true
				}
			}
			if !sizeOK || !crcOK {
				bad = "a closed segment passes verification on a path that did not establish recorded size == file size (" + boolStr(sizeOK) + ") and recorded checksum == computed checksum (" + boolStr(crcOK) + ")"
			}
		})
		r.Check(bad == "" && n >= 2, "AofRotateReader.isCorrupted/spec", f.Pos(), "%s", bad)
	}
	// the only segment exempt from verification is one that is still being written: hasWriter must mean exactly "size still open"
	if f := fn(w, r, "(*pkg/store.Storer).hasWriter"); f != nil {
		bad := ""
		var pos token.Pos = f.Pos()
		n := 0
		for _, in := range core.Instrs(f) {
			ret, ok := in.(*ssa.Return)
			if !ok || len(ret.Results) != 1 {
				continue
			}
			for _, v := range core.RetVals(ret, 0) {
				n++
				if b, isC := core.ConstBool(v); isC && !b {
					continue
				}
				okOpen := false
				if be, isB := core.Unwrap(v).(*ssa.BinOp); isB && be.Op == token.EQL {
					x, y := core.Unwrap(be.X), core.Unwrap(be.Y)
					if k, isK := core.ConstInt(x); isK && k == -1 {
						x, y = y, x
					}
					if k, isK := core.ConstInt(y); isK && k == -1 && isResultOf("(*pkg/store.dataSetAof).Size", -1)(x) {
						okOpen = true
					}
				}
				if !okOpen {
					bad, pos = "hasWriter answers true for something other than 'the segment's size is still open (-1)': such a segment is served without its size and checksum being verified", ret.Pos()
				}
			}
		}
		r.Check(bad == "" && n >= 2, "Storer.hasWriter/only-open-segment", pos, "%s", bad)
	}
	if f := fn(w, r, "pkg/store.newRdbReader"); f != nil {
		ok := false
		for _, s := range core.SitesNamed(f, false, "(*pkg/store.RdbReader).checkHeader") {
			ok = failureReturned(f, s)
		}
		r.Check(ok, "newRdbReader/verifies-completed-snapshot", f.Pos(), "a completed snapshot must be verified when verification is enabled, and a failed check must fail the open")
	}
}

func boolStr(b bool) string {
	if b {
		return "yes"
	}
	return "no"
}

// failureReturned: on the err != nil edge of call s the function returns a non-nil error.
func failureReturned(f *ssa.Function, s core.Site) bool {
	v := s.Value()
	if v == nil {
		return false
	}
	for _, in := range core.Instrs(f) {
		ret, ok := in.(*ssa.Return)
		if !ok {
			continue
		}
		// the call's error handed on as it is (`return f(x)`)
		if e := core.ErrOf(v); e != nil && len(ret.Results) > 0 {
			for _, rv := range core.RetVals(ret, len(ret.Results)-1) {
				if e(rv) {
					return true
				}
			}
		}
		if !core.NilFact(ret.Block(), core.ErrOf(v), false) {
			continue
		}
		last := len(ret.Results) - 1
		for _, rv := range core.RetVals(ret, last) {
			if !core.IsNilConst(rv) {
				return true
			}
		}
	}
	return false
}

func ruleCloseAof(w *core.World, r *core.Report) {
	f := fn(w, r, "(*pkg/store.AofRotater).closeAof")
	if f == nil {
		return
	}
	var put64, put32, seek, write ssa.Instruction
	for _, s := range core.Sites(f, false) {
		switch {
		case strings.HasSuffix(s.Name, "littleEndian).PutUint64"):
			put64 = s.Instr
		case strings.HasSuffix(s.Name, "littleEndian).PutUint32"):
			put32 = s.Instr
		case s.Name == "(*os.File).Seek":
			if isConstInt(0)(s.Args()[0]) {
				seek = s.Instr
			}
		case s.Name == "(*os.File).Write":
			write = s.Instr
		}
	}
	ok := put64 != nil && put32 != nil && seek != nil && write != nil &&
		core.Dominates(put64, seek) && core.Dominates(put32, seek) && core.Dominates(seek, write)
	// Sync and Close happen in the closure called after the write
	syncAfter := false
	for _, s := range core.Sites(f, false) {
		g := s.Callee
		if g == nil || len(g.Blocks) == 0 || write == nil {
			continue
		}
		// a closure or a method that syncs and closes the file, called after the write
		if len(core.SitesNamed(g, false, "(*os.File).Sync")) > 0 && len(core.SitesNamed(g, false, "(*os.File).Close")) > 0 && core.Dominates(write, s.Instr) {
			syncAfter = true
		}
	}
	if !syncAfter && write != nil {
		// or inline: Write ≺ Sync ≺ Close
		for _, sy := range core.SitesNamed(f, false, "(*os.File).Sync") {
			for _, cl := range core.SitesNamed(f, false, "(*os.File).Close") {
				if core.Dominates(write, sy.Instr) && core.Dominates(sy.Instr, cl.Instr) {
					syncAfter = true
				}
			}
		}
	}
	r.Check(ok && syncAfter, "AofRotater.closeAof/header-finalised", f.Pos(), "the header must be filled (checksum, size), written at offset 0 and only then synced and closed (order ok=%v, sync/close after write=%v)", ok, syncAfter)
}

// ---------------------------------------------------------------- R05.9 segment reader positioning

// fileMovers returns the methods of AofRotateReader that (transitively, within
// the type) read or seek the reader's file: calling one leaves the file
// position undefined for the caller.
func fileMovers(w *core.World) map[*ssa.Function]bool {
	movers := map[*ssa.Function]bool{}
	var ms []*ssa.Function
	for _, f := range w.FuncsIn("pkg/store") {
		if strings.HasPrefix(core.FuncName(f), "(*pkg/store.AofRotateReader).") {
			ms = append(ms, f)
		}
	}
	for changed := true; changed; {
		changed = false
		for _, f := range ms {
			if movers[f] {
				continue
			}
			for _, s := range core.Sites(f, false) {
				if s.Name == "(*os.File).Read" || s.Name == "(*os.File).Seek" || (s.Callee != nil && movers[s.Callee]) {
					movers[f] = true
					changed = true
					break
				}
			}
		}
	}
	return movers
}

func ruleReaderPositioning(w *core.World, r *core.Report) {
	var hdr int64 = -1
	if p := w.Pkg("pkg/store"); p != nil {
		if c, ok := p.Types.Scope().Lookup("headerSize").(*types.Const); ok {
			if v, ok := constant.Int64Val(c.Val()); ok {
				hdr = v
			}
		}
	}
	if hdr <= 0 {
		r.Unresolved("pkg/store.headerSize", "constant headerSize not found")
		return
	}
	isHdr := func(v ssa.Value) bool { c, ok := core.ConstInt(core.Unwrap(v)); return ok && c == hdr }
	isZero := func(v ssa.Value) bool { c, ok := core.ConstInt(core.Unwrap(v)); return ok && c == 0 }
	movers := fileMovers(w)

	// (a) openFile leaves the file right behind the header on every successful return
	if f := fn(w, r, "(*pkg/store.AofRotateReader).openFile"); f != nil {
		bad := ""
		var badPos token.Pos = f.Pos()
		nret := 0
		okEnum := core.EnumPathsN(f.Blocks[0], 0, 100000, core.Unroll, func(p *core.Path) {
			ret, isRet := p.End.(*ssa.Return)
			if !isRet || ret.Parent() != f || bad != "" || !pathNil(p, ret.Results[len(ret.Results)-1]) {
				return
			}
			nret++
			// the last operation of the path that moves the file
			var last *core.Site
			sites := pathSites(p)
			for k := range sites {
				s := sites[k]
				if s.Name == "(*os.File).Seek" || s.Name == "(*os.File).Read" || (s.Callee != nil && movers[s.Callee] && s.Callee != f) {
					last = &sites[k]
				}
			}
			okRet := false
			if last != nil && last.Name == "(*os.File).Seek" {
				if a := last.Args(); len(a) >= 2 && isHdr(p.Resolve(a[0])) && isZero(p.Resolve(a[1])) && !failedOn(p, last.Value()) {
					okRet = true
				}
			}
			if !okRet {
				bad, badPos = "a successful return is reached without the file having been positioned at headerSize as the last file operation (a verification pass or header read before it leaves the position elsewhere, or at 0)", ret.Pos()
			}
		})
		if !okEnum {
			bad = "too many paths"
		}
		r.Check(bad == "" && nret >= 1, "AofRotateReader.openFile/positioned-behind-header", badPos, "%s", bad)
	}

	// (b) Seek maps a logical offset to headerSize + (offset - left) and moves the right edge by the same distance
	if f := fn(w, r, "(*pkg/store.AofRotateReader).Seek"); f != nil {
		okPos, okRight := false, false
		var dis ssa.Value
		for _, s := range core.SitesNamed(f, false, "(*os.File).Seek") {
			a := s.Args()
			if len(a) < 2 || !isZero(a[1]) {
				continue
			}
			if b, ok := core.Unwrap(a[0]).(*ssa.BinOp); ok && b.Op == token.ADD {
				x, y := core.Unwrap(b.X), core.Unwrap(b.Y)
				if isHdr(y) {
					x, y = y, x
				}
				if isHdr(x) {
					if d, ok := y.(*ssa.BinOp); ok && d.Op == token.SUB && core.Unwrap(d.X) == ssa.Value(f.Params[1]) && core.IsFieldLoad(core.Unwrap(d.Y), "AofRotateReader", "left") {
						okPos = true
						dis = d
					}
				}
			}
		}
		for _, in := range core.Instrs(f) {
			st, isSt := in.(*ssa.Store)
			if !isSt {
				continue
			}
			if fa, isFa := st.Addr.(*ssa.FieldAddr); isFa && core.FieldName(fa) == "right" {
				if b, isB := st.Val.(*ssa.BinOp); isB && b.Op == token.ADD && core.IsFieldLoad(core.Unwrap(b.X), "AofRotateReader", "right") && dis != nil && core.Unwrap(b.Y) == dis {
					okRight = true
				}
			}
		}
		r.Check(okPos && okRight, "AofRotateReader.Seek/logical-to-file", f.Pos(), "a logical offset must map to file position headerSize + (offset − left) (%v) and the reader's right edge must move by the same distance (%v)", okPos, okRight)
	}

	// (c) GetReader positions a fresh segment reader at the requested offset before publishing it
	if f := fn(w, r, "(*pkg/store.Storer).GetReader"); f != nil {
		ok := false
		var pos token.Pos = f.Pos()
		for _, mk := range core.SitesNamed(f, false, "pkg/store.NewAofRotateReader") {
			pos = mk.Pos()
			for _, sk := range core.SitesNamed(f, false, "(*pkg/store.AofRotateReader).Seek") {
				if !core.Dominates(mk.Instr, sk.Instr) || core.Unwrap(sk.Args()[0]) != ssa.Value(f.Params[1]) {
					continue
				}
				pub := true
				for _, ad := range core.SitesNamed(f, false, "(*pkg/store.dataSetAof).AddReader") {
					if !core.Dominates(sk.Instr, ad.Instr) || !core.OnSuccessOf(ad.Instr.Block(), sk.Value()) {
						pub = false
					}
				}
				ok = pub
			}
		}
		r.Check(ok, "Storer.GetReader/seek-to-requested-offset", pos, "a new segment reader must be moved to the requested offset, with the result tested, before it is registered and returned")
	}
}

// ruleReaderLeft: the position a cache reader reports (Reader.Left) is what
// the replay adds decoder offsets to; for a log reader it must be the
// requested offset (the reader is seeked there), for a snapshot reader the
// snapshot's own offset.
func ruleReaderLeft(w *core.World, r *core.Report) {
	f := fn(w, r, "(*pkg/store.Storer).GetReader")
	if f == nil {
		return
	}
	n := 0
	for _, in := range core.Instrs(f) {
		st, ok := in.(*ssa.Store)
		if !ok {
			continue
		}
		fa, ok := st.Addr.(*ssa.FieldAddr)
		if !ok || core.FieldName(fa) != "left" || !strings.HasSuffix(core.TypeName(fa.X.Type()), "pkg/store.Reader") {
			continue
		}
		n++
		v := core.Unwrap(st.Val)
		// which kind of reader is being filled in on this path?
		afterAof, afterRdb := false, false
		for _, s := range core.Sites(f, false) {
			if s.Instr.Block() == nil || !core.Dominates(s.Instr, st) {
				continue
			}
			switch s.Name {
			case "pkg/store.NewAofRotateReader":
				afterAof = true
			case "pkg/store.NewRdbReader":
				afterRdb = true
			}
		}
		switch {
		case afterAof && !afterRdb:
			r.Check(v == ssa.Value(f.Params[1]), "Storer.GetReader/log-reader-left", st.Pos(), "a log reader is positioned at the requested offset, so the position it reports must be the requested offset; reporting the segment's start shifts every replayed item's offset (and the stored resume position) back by the distance into the segment")
		case afterRdb && !afterAof:
			r.Check(isResultOf("(*pkg/store.dataSetRdb).Left", -1)(v), "Storer.GetReader/snapshot-reader-left", st.Pos(), "a snapshot reader must report the snapshot's own offset")
		default:
			r.Undecided("Storer.GetReader/reader-left", st.Pos(), "cannot tell which kind of reader this position belongs to")
		}
	}
	if n < 2 {
		r.Fail("Storer.GetReader/reader-left", f.Pos(), "expected the reader's reported position to be set for the log and the snapshot reader (found %d)", n)
	}
}


// ---------------------------------------------------------------- R05.11 writer replacement

// ruleWriterReplacement: segment files are named after their left offset, and
// closing a writer that has not received a byte removes its (header-only) file.
// A successor that starts at the same offset must therefore be created after
// the running writer was closed; the other order lets the close remove the file
// the new writer is appending to, while the range keeps growing.
func ruleWriterReplacement(w *core.World, r *core.Report) {
	n := 0
	for _, f := range w.Funcs() {
		if f.Pkg == nil || !strings.HasSuffix(f.Pkg.Pkg.Path(), "pkg/store") || f.Parent() != nil {
			continue
		}
		for _, s := range core.SitesNamed(f, false, "pkg/store.NewAofWriter") {
			if s.Instr.Parent() != f {
				continue // seen through an expanded helper: judged where it is written
			}
			n++
			closed := false
			for _, c := range core.SitesNamed(f, false, "(*pkg/store.dataSet).CloseAofWriter") {
				if core.Dominates(c.Instr, s.Instr) {
					closed = true
				}
			}
			if !closed {
				// a helper that does nothing else than create the writer: judged at its call sites
				if calls := callSitesOf(w, f); len(calls) > 0 && f.Name() != "GetAofWritter" {
					all := true
					for _, cs := range calls {
						ok := false
						for _, c := range core.SitesNamed(cs.Parent(), false, "(*pkg/store.dataSet).CloseAofWriter") {
							if core.Dominates(c.Instr, cs) {
								ok = true
							}
						}
						all = all && ok
					}
					closed = all
				}
			}
			r.Check(closed, shortName(core.FuncName(f))+"/close-before-create", s.Pos(), "a new log writer is created while the running one may still be open: both can name the same segment file (same left offset), and closing the old, still empty one afterwards removes the file the new writer appends to; the offsets stay 'valid' but cannot be read")
		}
	}
	if n == 0 {
		r.Fail("close-before-create", token.NoPos, "no creation of a log writer found")
	}
}

// callSitesOf lists the static call instructions of f in the program.
func callSitesOf(w *core.World, f *ssa.Function) []ssa.Instruction {
	var out []ssa.Instruction
	for _, g := range w.Funcs() {
		for _, s := range core.Sites(g, false) {
			if s.Callee == f && s.Instr.Parent() == g {
				out = append(out, s.Instr)
			}
		}
	}
	return out
}


// ---------------------------------------------------------------- R08.8 the unverified-segment marker

// ruleWriterMarker: a log segment whose recorded size is negative counts as
// "still being written" and is served without size and checksum verification
// (hasWriter). The marker may therefore be set only where the segment is
// really handed a writer; set anywhere else (for instance on the newest
// segment found by the directory scan) it switches verification off for a
// closed segment.
func ruleWriterMarker(w *core.World, r *core.Report) {
	negConst := func(v ssa.Value) bool {
		c, ok := core.Unwrap(v).(*ssa.Const)
		if !ok || c.Value == nil || c.Value.Kind() != constant.Int {
			return false
		}
		n, exact := constant.Int64Val(c.Value)
		return exact && n < 0
	}
	n := 0
	for _, f := range w.Funcs() {
		if f.Pkg == nil || !strings.HasSuffix(f.Pkg.Pkg.Path(), "pkg/store") {
			continue
		}
		if core.ExpandedInto(f) != nil {
			continue // a helper with one call site (e.g. one that builds the segment) is read as part of its caller
		}
		for _, in := range core.Instrs(f) {
			var seg ssa.Value
			switch x := in.(type) {
			case *ssa.Store:
				fa, ok := x.Addr.(*ssa.FieldAddr)
				if ok && core.FieldName(fa) == "size" && strings.HasSuffix(core.TypeName(fa.X.Type()), "dataSetAof") && negConst(x.Val) {
					seg = fa.X
				}
			case *ssa.Call:
				if core.ResolveCall(x).Name == "(*pkg/store.dataSetAof).SetSize" && len(x.Call.Args) == 2 && negConst(x.Call.Args[1]) {
					seg = x.Call.Args[0]
				}
			}
			if seg == nil {
				continue
			}
			seg = core.Unwrap(seg)
			n++
			hasWriter := false
			for _, in2 := range core.Instrs(f) {
				if c, ok := in2.(*ssa.Call); ok && core.ResolveCall(c).Name == "(*pkg/store.dataSetAof).SetWriter" && len(c.Call.Args) >= 1 && core.Unwrap(c.Call.Args[0]) == seg {
					hasWriter = true
				}
			}
			name := shortName(core.FuncName(f))
			if f.Parent() != nil {
				name = shortName(core.FuncName(f.Parent())) + "$closure"
			}
			r.Check(hasWriter, name+"/marker-with-writer", in.Pos(), "a segment is marked 'still being written' (negative size) without being handed a writer: such a segment is exempt from size and checksum verification for as long as the process lives, so a closed segment with altered content is served")
		}
	}
	if n == 0 {
		r.Fail("marker-with-writer", token.NoPos, "no place marks a segment as being written")
	}
}


// ---------------------------------------------------------------- R05.12 the memory snapshot's commit point

// ruleMemorySnapshotCommit: the memory channel publishes a snapshot when its
// transfer starts and drops it when the writer finishes with an error. A writer
// that is merely closed (the input was stopped in the middle of the transfer)
// finishes without one; the snapshot may then stay cached only if the number
// of bytes received equals the announced size, otherwise GetRdb keeps offering
// a snapshot that cannot be replayed to its end.
func ruleMemorySnapshotCommit(w *core.World, r *core.Report) {
	f := fn(w, r, "(*syncer.MemoryChannel).finishRdb")
	if f == nil {
		return
	}
	isSize := func(v ssa.Value) bool {
		ld, ok := core.Unwrap(v).(*ssa.UnOp)
		if !ok || ld.Op != token.MUL {
			return false
		}
		fa, ok := ld.X.(*ssa.FieldAddr)
		return ok && core.FieldName(fa) == "size" && strings.HasSuffix(core.TypeName(fa.X.Type()), "memoryRdb")
	}
	isRdbField := func(v ssa.Value) bool {
		ld, ok := core.Unwrap(v).(*ssa.UnOp)
		if !ok || ld.Op != token.MUL {
			return false
		}
		fa, ok := ld.X.(*ssa.FieldAddr)
		return ok && core.FieldName(fa) == "rdb"
	}
	bad := ""
	var pos token.Pos = f.Pos()
	kept, dropped := 0, 0
	okEnum := core.EnumPathsN(f.Blocks[0], 0, 50000, core.Unroll, func(p *core.Path) {
		if _, ok := p.End.(*ssa.Return); !ok || bad != "" {
			return
		}
		for _, in := range p.Instrs {
			if st, ok := in.(*ssa.Store); ok {
				if fa, isFa := st.Addr.(*ssa.FieldAddr); isFa && core.FieldName(fa) == "rdb" && strings.HasSuffix(core.TypeName(fa.X.Type()), "MemoryChannel") && core.IsNilConst(st.Val) {
					dropped++
					return
				}
			}
		}
		// the snapshot stays: somebody else's (channel.rdb != writer.rdb), or complete
		complete, foreign := false, false
		for _, fct := range p.Conds {
			c, ok := core.FactCmp(fct)
			if !ok {
				continue
			}
			x, y := p.Resolve(c.X), p.Resolve(c.Y)
			if c.Op == token.EQL && (isSize(x) || isSize(y)) {
				complete = true
			}
			if c.Op == token.NEQ && isRdbField(x) && isRdbField(y) {
				foreign = true
			}
		}
		if complete || foreign {
			kept++
			return
		}
		bad, pos = "a snapshot stays cached after its writer finished on a path that did not establish that every announced byte arrived: a transfer stopped in the middle (writer closed without an error) leaves a snapshot that GetRdb offers although it cannot be replayed to its end", p.End.Pos()
	})
	if !okEnum {
		r.Undecided("MemoryChannel.finishRdb/keeps-only-complete", f.Pos(), "too many paths")
		return
	}
	r.Check(bad == "" && kept > 0 && dropped > 0, "MemoryChannel.finishRdb/keeps-only-complete", pos, "%s (keeping paths=%d, dropping paths=%d)", bad, kept, dropped)
}


var fieldStoredCache = map[string]bool{}

// fieldEverStored: some non-test function of the module assigns the field fa selects (of the same
// struct type), directly, through a sub-field, or in a composite literal.
func fieldEverStored(w *core.World, fa *ssa.FieldAddr) bool {
	key := fa.X.Type().String() + "#" + strconv.Itoa(fa.Field)
	if v, ok := fieldStoredCache[key]; ok {
		return v
	}
	found := false
	for _, g := range w.Funcs() {
		for _, b := range g.Blocks {
			for _, in := range b.Instrs {
				st, ok := in.(*ssa.Store)
				if !ok {
					continue
				}
				for a, ok := st.Addr.(*ssa.FieldAddr); ok; a, ok = a.X.(*ssa.FieldAddr) {
					if a.Field == fa.Field && types.Identical(a.X.Type(), fa.X.Type()) {
						found = true
					}
				}
			}
		}
	}
	fieldStoredCache[key] = found
	return found
}


// fieldStoredValues: the values non-test functions of the module store directly into the field fa selects.
func fieldStoredValues(w *core.World, fa *ssa.FieldAddr) []ssa.Value {
	var out []ssa.Value
	for _, g := range w.Funcs() {
		for _, b := range g.Blocks {
			for _, in := range b.Instrs {
				st, ok := in.(*ssa.Store)
				if !ok {
					continue
				}
				if a, ok := st.Addr.(*ssa.FieldAddr); ok && a.Field == fa.Field && types.Identical(a.X.Type(), fa.X.Type()) {
					out = append(out, st.Val)
				}
			}
		}
	}
	return out
}

// ---------------------------------------------------------------- R05.13 written bytes are credited to the segment that holds them

// ruleWriteCreditedBeforeRotation: after a successful file write the writer tells
// the data set "n more bytes in the segment that starts at w.left" (the
// observer's Write). The index of segment sizes is what readers and the reported
// range are computed from. The notification must go out before the writer can
// rotate: once openFile has run, w.left names the new, empty segment, and the
// bytes of the chunk that triggered the rotation are credited to it — the old
// segment's right edge is n short (offsets reported valid cannot be read), the
// new one n too long.
func ruleWriteCreditedBeforeRotation(w *core.World, r *core.Report) {
	f := fn(w, r, "(*pkg/store.AofRotater).write")
	if f == nil {
		return
	}
	// functions that (transitively) re-point the writer at another segment: they store AofRotater.left
	movesLeft := map[*ssa.Function]bool{}
	var fs []*ssa.Function
	for _, g := range w.FuncsIn("pkg/store") {
		fs = append(fs, g)
	}
	for changed := true; changed; {
		changed = false
		for _, g := range fs {
			if movesLeft[g] {
				continue
			}
			hit := false
			for _, in := range core.OwnInstrs(g) {
				if st, ok := in.(*ssa.Store); ok {
					if fa, isFa := st.Addr.(*ssa.FieldAddr); isFa && core.FieldName(fa) == "left" && strings.HasSuffix(core.TypeName(fa.X.Type()), "AofRotater") {
						hit = true
					}
				}
				if ci, ok := in.(ssa.CallInstruction); ok {
					if h := ci.Common().StaticCallee(); h != nil && movesLeft[h] {
						hit = true
					}
				}
			}
			if hit {
				movesLeft[g] = true
				changed = true
			}
		}
	}
	bad := ""
	var pos token.Pos = f.Pos()
	credits := 0
	okEnum := core.EnumPathsN(f.Blocks[0], 0, 200000, 1, func(p *core.Path) {
		if bad != "" {
			return
		}
		wrote, moved := false, false
		for _, s := range pathSites(p) {
			switch {
			case s.Name == "(*os.File).Write":
				wrote, moved = true, false
			case s.Callee != nil && movesLeft[s.Callee] && s.Callee != f:
				if wrote {
					moved = true
				}
			case s.Common().IsInvoke() && s.Method == "Write" && strings.HasSuffix(core.TypeName(s.Common().Value.Type()), "Observer"):
				if !wrote {
					continue
				}
				credits++
				a := s.Common().Args // an interface call: the receiver is not among them
				if len(a) == 1 {
					// the observer takes its arguments as ...interface{}
					if els, ok := core.VariadicElems(a[0]); ok {
						a = els
					}
				}
				if len(a) < 1 || !core.IsFieldLoad(core.Unwrap(p.Resolve(a[0])), "AofRotater", "left") {
					bad, pos = "the written bytes are reported for something other than the writer's current segment (w.left)", s.Pos()
				}
				if moved {
					bad, pos = "the bytes just written are reported to the data set after the writer may have rotated: w.left then names the new segment, and the chunk that filled the old one is credited to the new one", s.Pos()
				}
			}
		}
	})
	if !okEnum {
		r.Undecided("AofRotater.write/credited-before-rotation", f.Pos(), "too many paths")
		return
	}
	r.Check(bad == "" && credits > 0, "AofRotater.write/credited-before-rotation", pos, "%s (reports seen=%d)", bad, credits)
}

// ---------------------------------------------------------------- R05.14 a finishing memory writer removes only its own empty segment

// ruleFinishRemovesOwnSegment: when a log writer of the memory backend finishes
// without having received a byte, its empty segment is taken out of the list.
// NewAofWritter publishes the successor's (still empty) segment before it closes
// the predecessor, so "the last empty segment" is not "mine": removing by
// position takes out the live writer's segment, and everything it appends later
// is stored outside the index — a hole in the reported range. The removal must be
// by identity: on every path of finishAof that changes the segment list, an
// element of the list was compared equal to the finishing writer's own segment.
func ruleFinishRemovesOwnSegment(w *core.World, r *core.Report) {
	f := fn(w, r, "(*syncer.MemoryChannel).finishAof")
	if f == nil {
		return
	}
	isSegStore := func(in ssa.Instruction) bool {
		st, ok := in.(*ssa.Store)
		if !ok {
			return false
		}
		fa, ok := st.Addr.(*ssa.FieldAddr)
		return ok && core.FieldName(fa) == "aofSegs" && strings.HasSuffix(core.TypeName(fa.X.Type()), "MemoryChannel")
	}
	live := liveBlocks(f, isSegStore)
	bad := ""
	var pos token.Pos = f.Pos()
	n := 0
	okEnum := core.EnumPathsStop(f.Blocks[0], 0, 200000, 2, func(b *ssa.BasicBlock) bool { return !live[b] }, func(p *core.Path) {
		if bad != "" {
			return
		}
		var st ssa.Instruction
		for _, in := range p.Instrs {
			if isSegStore(in) {
				st = in
			}
		}
		if st == nil {
			return
		}
		n++
		own := func(v ssa.Value) bool {
			c, ok := core.Unwrap(p.Resolve(v)).(*ssa.Call)
			return ok && strings.HasSuffix(core.ResolveCall(c).Name, "MemoryAofWriter).currentSegment")
		}
		elem := func(v ssa.Value) bool {
			ld, ok := core.Unwrap(p.Resolve(v)).(*ssa.UnOp)
			if !ok || ld.Op != token.MUL {
				return false
			}
			ia, ok := ld.X.(*ssa.IndexAddr)
			return ok && core.IsFieldLoad(core.Unwrap(p.Resolve(ia.X)), "MemoryChannel", "aofSegs")
		}
		ident := false
		for _, fct := range factsBefore(p, st) {
			if c, ok := core.FactCmp(fct); ok && c.Op == token.EQL && ((own(c.X) && elem(c.Y)) || (own(c.Y) && elem(c.X))) {
				ident = true
			}
		}
		if !ident {
			bad, pos = "the segment list is changed on a path that did not find the finishing writer's own segment in it (element == writer.currentSegment()): a removal by position takes out the successor's live, still empty segment", st.Pos()
		}
	})
	if !okEnum {
		r.Undecided("MemoryChannel.finishAof/removes-own-segment", f.Pos(), "too many paths")
		return
	}
	r.Check(bad == "" && n > 0, "MemoryChannel.finishAof/removes-own-segment", pos, "%s (removing paths=%d)", bad, n)
}
