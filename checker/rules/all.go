// Package rules holds the repository-specific obligations, one file per property.
package rules

import "gunyucheck/core"

// All maps a property id to its rule set.
var All = map[string]func(w *core.World, r *core.Report){}

func thorough(r *core.Report) bool { return r.Tier == "thorough" }
