package rules

import (
	"fmt"
	"go/ast"
	"go/constant"
	"go/token"
	"go/types"
	"os"
	"sort"
	"strings"

	"gunyucheck/core"

	"golang.org/x/tools/go/ssa"
)

func init() {
	All["C10"] = c10
	core.Explanations["C10"] = "Decides necessary structural conditions of 'filters pass exactly the configured set': " +
		"(R10.1) every forwarding path (two stream parsers, two snapshot workers) consults every filter dimension before it forwards, on all loop paths; (R10.2) the three black/white-list predicates return true exactly on 'black list hit or white list miss' on all of their paths, FilterDb only on membership; in FilterCmdKey a key is kept only after both the prefix and the slot rule accepted it and a rejected key always marks the command as filtered; " +
		"(R10.3) the projection case sets agree ({del, unlink, mset} in both places), projection happens only under those cases, MSET keeps key/value pairs; (R10.4) the bookkeeping prefixes are blacklisted unconditionally; (R10.5) the slot rule hashes with KeyToSlot, which is HASH_SLOT (R11.1-R11.5, shared with C11); " +
		"(R10.6) the slot list is bisected, so insertion must keep it disjoint and sorted (reads neighbours' bounds, stores a rebuilt list, derives the fast-reject bounds from the stored list's first and last element); (R10.7) key-position tables are lower-case, 1-based, step >= 1, and disjoint. Not decided: exact set membership for every configuration as a value statement."
}

func c10(w *core.World, r *core.Report) {
	r.Rule("R10.1", "every forwarding path consults every filter dimension (all loop paths of the four replay paths)", 4)
	ruleForwardConsultsFilters(w, r)
	r.Rule("R10.2", "filter predicates: true exactly on black-list hit or white-list miss; FilterCmdKey keeps a key only when both key rules accept it", 6)
	ruleFilterPredicates(w, r)
	r.Rule("R10.3", "projection: case sets agree, projection only under del/unlink/mset, MSET keeps pairs", 3)
	ruleProjection(w, r)
	r.Rule("R10.4", "bookkeeping prefixes are always blacklisted", 1)
	ruleBookkeepingPrefixes(w, r)
	r.Rule("R10.5", "slot rule uses the module's slot function", 1)
	if f := fn(w, r, "(*pkg/filter.RangeList).IsSlotInList"); f != nil {
		ss := core.SitesNamed(f, false, "pkg/redis.KeyToSlot")
		ok := len(ss) == 1 && len(ss[0].Args()) == 1 && core.Unwrap(ss[0].Args()[0]) == ssa.Value(f.Params[1])
		r.Check(ok, "RangeList.IsSlotInList/KeyToSlot", f.Pos(), "the slot of the key must come from redis.KeyToSlot(key)")
	}
	r.Rule("R10.6", "bisected slot list: insertion keeps it sorted and disjoint, bounds derive from the stored list", 3)
	ruleRangeList(w, r)
	r.Rule("R10.7", "key-position tables well-formed", 3)
	ruleKeyTables(w, r)

	r.Rule("R10.11", "the database rule is asked about the source database, never about the mapped one", 2)
	ruleFilterDbOnSourceDb(w, r)
	r.Rule("R10.15", "a snapshot entry that arrived intact is withheld only when the database, key or slot rule rejected it", 2)
	ruleWithheldOnlyByFilters(w, r)
	r.Rule("R10.14", "a configured slot range [left, right] is dropped only when left > right", 2)
	ruleSlotRangeAccepted(w, r)
	r.Rule("R10.13", "every snapshot entry that carries a key — continuation chunks of a split value included — carries the source database the filter judges", 1)
	ruleEntryCarriesDb(w, r)
	r.Rule("R10.12", "the prefix trie is read with the decomposition of the key it is written with", 1)
	ruleTrieSameAlphabet(w, r)
	r.Rule("R10.10", "the filter tries only grow: no existing node loses children or its terminal mark", 1)
	ruleTrieGrowOnly(w, r)
	r.Rule("R10.9", "rows of multi-key commands equal the published key specifications", 1)
	ruleMultiKeySpecs(w, r)
	r.Rule("R10.8", "what is forwarded is the filter's projection, not the decoded argument list (both incremental parsers)", 2)
	ruleNothingInventedParser(w, r)
	ruleUnitFromProjection(w, r)

	// The slot rule passes "exactly the configured set" only if the slot it
	// computes is the cluster's: the slot-function rules of C11 are obligations
	// of the slot filter too.
	c11(w, r)
	r.Rule("R10.17", "command names are folded to lower case over the whole alphabet before they are looked up", 1)
	ruleCommandNameLowercased(w, r)
	r.Rule("R10.16", "merging configured slot ranges is a union: both bounds extended independently", 2)
	ruleRangeMergeIsUnion(w, r)
	r.Rule("R10.18", "the rebuilt slot list has storage of its own, or is written no faster than the stored ranges are read: no configured range is overwritten before it was read", 1)
	ruleRebuiltListStorage(w, r)
}

// ---------------------------------------------------------------- R10.1

func ruleForwardConsultsFilters(w *core.World, r *core.Report) {
	// snapshot workers: the loop path that replays an entry assumed FilterDb, FilterKey and FilterSlot false
	type spec struct {
		fn      string
		forward []string // callee patterns that forward an entry
		need    []string
	}
	specs := []spec{
		{"(*syncer.RedisOutput).rdbReplay", []string{"(*pkg/rdbrestore.RdbReplay).Replay"}, []string{"FilterDb", "FilterKey", "FilterSlot"}},
		{"(*syncer.RedisOutput).rdbReplayBisync", []string{"*buildBisyncRdbReplayUnit"}, []string{"FilterDb", "FilterKey", "FilterSlot"}},
	}
	for _, sp := range specs {
		f := fn(w, r, sp.fn)
		if f == nil {
			continue
		}
		var fw []core.Site
		for _, g := range core.DeepFuncs(f) {
			fw = append(fw, core.SitesNamed(g, false, sp.forward...)...)
		}
		if len(fw) == 0 {
			r.Unresolved(shortName(sp.fn)+"/forward", "forwarding call not found")
			continue
		}
		for _, s := range fw {
			g := s.Fn
			head := core.LoopHeadOf(s.Instr.Block())
			start := g.Blocks[0]
			if head != nil {
				start = head
			}
			missing := map[string]bool{}
			n := 0
			okEnum := core.EnumPaths(start, 0, 200000, func(p *core.Path) {
				on := false
				for _, in := range p.Instrs {
					if in == s.Instr {
						on = true
					}
				}
				if !on {
					return
				}
				n++
				for _, need := range sp.need {
					if !pathAssumed(p, func(v ssa.Value) bool {
						c, ok := core.Unwrap(v).(*ssa.Call)
						return ok && core.MatchName(core.ResolveCall(c).Name, "*RedisKeyFilter)."+need)
					}, false) {
						missing[need] = true
					}
				}
			})
			if !okEnum {
				r.Undecided(shortName(sp.fn)+"/forward", s.Pos(), "too many paths")
				continue
			}
			var ms []string
			for k := range missing {
				ms = append(ms, k)
			}
			sort.Strings(ms)
			r.Check(n > 0 && len(ms) == 0, shortName(sp.fn)+"/forward", s.Pos(), "a snapshot entry is forwarded on a path that did not pass %v (paths=%d)", ms, n)
		}
	}
	// stream parsers: a command is forwarded only after FilterCmd said no and FilterCmdKey did not reject,
	// with the database bypass flag false; the bypass flag comes from FilterDb
	for _, name := range []string{"(*syncer.RedisOutput).parseAofCommand", "(*syncer.RedisOutput).parseAofReplayUnits"} {
		f := fn(w, r, name)
		if f == nil {
			continue
		}
		var dec ssa.Instruction
		for _, s := range core.SitesNamed(f, false, "pkg/redis/client.MustDecodeOpt") {
			dec = s.Instr
		}
		if dec == nil {
			r.Unresolved(shortName(name)+"/decode", "decode call not found")
			continue
		}
		head := core.LoopHeadOf(dec.Block())
		// forwarding events: a send of a command literal (parseAofCommand) / a makeCmd call (parseAofReplayUnits)
		isForward := func(in ssa.Instruction) bool {
			if ci, ok := in.(ssa.CallInstruction); ok {
				s := core.ResolveCall(ci)
				if buildsBisyncCommand(s) {
					return true
				}
			}
			// or the command value is built in the parser itself
			if a, ok := in.(*ssa.Alloc); ok && name != "(*syncer.RedisOutput).parseAofCommand" && strings.HasSuffix(core.TypeName(a.Type()), "bisyncAofCommand") && namesCommand(a) {
				return true
			}
			if sel, ok := in.(*ssa.Select); ok && name == "(*syncer.RedisOutput).parseAofCommand" {
				for _, st := range sel.States {
					if st.Send != nil {
						if _, isSel := core.Unwrap(st.Send).(*ssa.Call); !isSel {
							return true
						}
					}
				}
			}
			return false
		}
		missing := map[string]bool{}
		n := 0
		okEnum := core.EnumPaths(head, 0, 400000, func(p *core.Path) {
			on := false
			for _, in := range p.Instrs {
				if isForward(in) {
					on = true
				}
			}
			if !on {
				return
			}
			n++
			if !pathAssumed(p, func(v ssa.Value) bool {
				c, ok := core.Unwrap(v).(*ssa.Call)
				return ok && core.MatchName(core.ResolveCall(c).Name, "*RedisKeyFilter).FilterCmd")
			}, false) && !p.Holds(token.EQL, isResultOf("pkg/redis/client.ParseArgs", 0), isConstStr("ping")) &&
				!pathAssumed(p, func(v ssa.Value) bool {
					// the SELECT branch is decided by the database rule instead
					c, ok := core.Unwrap(v).(*ssa.Call)
					if !ok || core.ResolveCall(c).Name != "strings.EqualFold" {
						return false
					}
					for _, a := range c.Call.Args {
						if s, ok := core.ConstString(a); ok && s == "select" {
							return true
						}
					}
					return false
				}, true) {
				missing["FilterCmd"] = true
			}
			if !pathAssumed(p, isResultOf("*RedisKeyFilter).FilterCmdKey", 1), false) {
				missing["FilterCmdKey"] = true
			}
			// database bypass flag tested false
			bp := false
			for _, fct := range p.Conds {
				if fct.Val {
					continue
				}
				ok := true
				k := 0
				for _, l := range core.Leaves(p.Resolve(fct.Cond)) {
					switch x := l.(type) {
					case *ssa.Const:
					case *ssa.Call:
						if core.MatchName(core.ResolveCall(x).Name, "*RedisKeyFilter).FilterDb") {
							k++
						} else {
							ok = false
						}
					default:
						ok = false
					}
				}
				if ok && k > 0 {
					bp = true
				} else if fromDb, calls := flagOnlyFromFilterDb(w, p.Resolve(fct.Cond)); fromDb && calls > 0 {
					bp = true
				}
			}
			if !bp {
				// MULTI and EXEC name no database: the database rule has nothing to say about them, and the sender needs
				// both brackets of a block whichever databases its body visits (R01.11, W40)
				if _, bracket, _ := cmdNameKnown(p, isResultOf("pkg/redis/client.ParseArgs", 0), "multi", "exec"); bracket {
					bp = true
				}
			}
			if !bp {
				missing["FilterDb (database bypass flag)"] = true
			}
		})
		if !okEnum {
			r.Undecided(shortName(name)+"/forward", f.Pos(), "too many paths")
			continue
		}
		var ms []string
		for k := range missing {
			ms = append(ms, k)
		}
		sort.Strings(ms)
		r.Check(n > 0 && len(ms) == 0, shortName(name)+"/forward", dec.Pos(), "a stream command is forwarded on a loop path that did not pass %v (paths=%d)", ms, n)
	}
}

// ---------------------------------------------------------------- R10.2

func ruleFilterPredicates(w *core.World, r *core.Report) {
	type bw struct{ fn, black, white, probe string }
	for _, s := range []bw{
		{"(*pkg/filter.RedisKeyFilter).FilterCmd", "cmdBlackTrie", "cmdWhiteTrie", "(*pkg/filter.Trie).Search"},
		{"(*pkg/filter.RedisKeyFilter).FilterKey", "prefixKeyBlackTrie", "prefixKeyWhiteTrie", "(*pkg/filter.Trie).IsPrefixMatch"},
		{"(*pkg/filter.RedisKeyFilter).FilterSlot", "slotKeyBlackList", "slotKeyWhiteList", "(*pkg/filter.RangeList).IsSlotInList"},
	} {
		f := fn(w, r, s.fn)
		if f == nil {
			continue
		}
		probeOn := func(field string) func(ssa.Value) bool {
			return func(v ssa.Value) bool {
				c, ok := core.Unwrap(v).(*ssa.Call)
				if !ok || core.ResolveCall(c).Name != s.probe || len(c.Call.Args) != 2 {
					return false
				}
				return core.IsFieldLoad(c.Call.Args[0], "RedisKeyFilter", field) && argIsParam(c.Call.Args[1], f.Params[1])
			}
		}
		isNilField := func(field string) func(p *core.Path) bool {
			return func(p *core.Path) bool {
				return p.Holds(token.EQL, func(v ssa.Value) bool { return core.IsFieldLoad(v, "RedisKeyFilter", field) }, core.IsNilConst)
			}
		}
		bad := ""
		var badPos token.Pos
		n := 0
		core.EnumPaths(f.Blocks[0], 0, 10000, func(p *core.Path) {
			ret, ok := p.End.(*ssa.Return)
			if !ok || len(ret.Results) != 1 || bad != "" {
				return
			}
			n++
			v, known := p.Eval(ret.Results[0])
			if !known {
				bad, badPos = "result is not a constant per path", ret.Pos()
				return
			}
			blackHit := pathAssumed(p, probeOn(s.black), true)
			whiteMiss := pathAssumed(p, probeOn(s.white), false)
			blackClear := pathAssumed(p, probeOn(s.black), false) || isNilField(s.black)(p)
			whiteClear := pathAssumed(p, probeOn(s.white), true) || isNilField(s.white)(p)
			if v && !(blackHit || whiteMiss) {
				bad, badPos = "rejects on a path with neither a black-list hit nor a white-list miss", ret.Pos()
			}
			if !v && !(blackClear && whiteClear) {
				bad, badPos = "accepts on a path that did not clear both the black list (no hit or not configured) and the white list (hit or not configured)", ret.Pos()
			}
		})
		r.Check(bad == "" && n >= 3, shortName(s.fn)+"/spec", badPos, "%s (paths=%d)", bad, n)
	}
	if f := fn(w, r, "(*pkg/filter.RedisKeyFilter).FilterDb"); f != nil {
		bad := ""
		var badPos token.Pos
		db := ssa.Value(f.Params[1])
		trueRet := 0
		core.EnumPathsN(f.Blocks[0], 0, 10000, core.Unroll, func(p *core.Path) {
			ret, ok := p.End.(*ssa.Return)
			if !ok || bad != "" {
				return
			}
			v, known := p.Eval(ret.Results[0])
			if !known {
				bad, badPos = "result is not a constant per path", ret.Pos()
				return
			}
			if v {
				trueRet++
				// an element of dbBlackList equals db
				hit := false
				for _, fct := range p.Conds {
					c, ok := core.FactCmp(fct)
					if !ok || c.Op != token.EQL {
						continue
					}
					x, y := core.Unwrap(c.X), core.Unwrap(c.Y)
					if y != db {
						x, y = y, x
					}
					if y == db && core.DependsOn(x, func(v ssa.Value) bool { return core.IsFieldLoad(v, "RedisKeyFilter", "dbBlackList") }) {
						hit = true
					}
				}
				// or the library form: slices.Contains(dbBlackList, db) held
				for _, fct := range p.Conds {
					c, ok := core.Unwrap(p.Resolve(fct.Cond)).(*ssa.Call)
					if !ok || !fct.Val || len(c.Call.Args) != 2 {
						continue
					}
					if nm := core.ResolveCall(c).Name; strings.HasPrefix(nm, "slices.Contains") &&
						core.IsFieldLoad(core.Unwrap(c.Call.Args[0]), "RedisKeyFilter", "dbBlackList") && core.Unwrap(c.Call.Args[1]) == db {
						hit = true
					}
				}
				if !hit {
					bad, badPos = "a database is rejected on a path where no black-list element equals it", ret.Pos()
				}
			}
		})
		r.Check(bad == "" && trueRet > 0, "RedisKeyFilter.FilterDb/spec", badPos, "%s", bad)
	}
	ruleFilterCmdKeyKeep(w, r)
}

// ---------------------------------------------------------------- R10.3

// lowerCmdConstants: the string constants the function (and helpers written
// for it alone) compares the lower-cased command name with, whether by a
// switch, an if chain or a boolean expression.
func lowerCmdConstants(f *ssa.Function) ([]string, bool) {
	if f == nil {
		return nil, false
	}
	isLower := func(v ssa.Value) bool {
		c, ok := core.Unwrap(v).(*ssa.Call)
		return ok && core.ResolveCall(c).Name == "strings.ToLower"
	}
	set := map[string]bool{}
	for _, in := range core.Instrs(f) {
		b, ok := in.(*ssa.BinOp)
		if !ok || (b.Op != token.EQL && b.Op != token.NEQ) {
			continue
		}
		x, y := core.Unwrap(b.X), core.Unwrap(b.Y)
		if s, isS := core.ConstString(y); isS && isLower(x) {
			set[s] = true
		} else if s, isS := core.ConstString(x); isS && isLower(y) {
			set[s] = true
		}
	}
	var out []string
	for k := range set {
		out = append(out, k)
	}
	sort.Strings(out)
	return out, len(out) > 0
}

func ruleProjection(w *core.World, r *core.Report) {
	a, ok1 := lowerCmdConstants(w.Func("pkg/redis/keyspec.CommandAllowsPartialProjection"))
	b, ok2 := lowerCmdConstants(w.Func("(*pkg/filter.RedisKeyFilter).FilterCmdKey"))
	want := []string{"del", "mset", "unlink"}
	if !ok1 || !ok2 {
		r.Unresolved("projection/case-sets", "no comparison of the lower-cased command with constants found (allows=%v filter=%v)", ok1, ok2)
	} else {
		r.Check(strings.Join(a, ",") == strings.Join(want, ",") && strings.Join(b, ",") == strings.Join(want, ","), "projection/case-sets", token.NoPos,
			"the commands that may be projected (%v) and the commands FilterCmdKey projects (%v) must both be exactly %v", a, b, want)
	}
	f := fn(w, r, "(*pkg/filter.RedisKeyFilter).FilterCmdKey")
	if f == nil {
		return
	}
	args := ssa.Value(f.Params[2])
	// every return of (x, false) with x != args happens after CommandAllowsPartialProjection == true
	bad := ""
	var badPos token.Pos
	proj := 0
	for _, ret := range core.ReturnsX(f) {
		if len(ret.Results) != 2 {
			continue
		}
		rej, isC := core.ConstBool(core.RetVal(ret, 1))
		if !isC {
			bad, badPos = "reject flag is not constant at a return", ret.Pos()
			continue
		}
		if rej {
			continue
		}
		if core.Unwrap(core.RetVal(ret, 0)) == args {
			continue
		}
		proj++
		allowed := false
		for _, fct := range core.FactsAt(ret.Block()) {
			if fct.Val && isResultOf("pkg/filter.CommandAllowsPartialProjection", -1)(fct.Cond) {
				allowed = true
			}
			if !fct.Val {
				if u, ok := fct.Cond.(*ssa.UnOp); ok && u.Op == token.NOT && isResultOf("pkg/filter.CommandAllowsPartialProjection", -1)(u.X) {
					allowed = true
				}
			}
		}
		if !allowed {
			bad, badPos = "a rewritten argument list is forwarded on a path that did not establish that the command may be projected", ret.Pos()
		}
	}
	r.Check(bad == "" && proj >= 2, "FilterCmdKey/projection-guard", badPos, "%s (projecting returns=%d)", bad, proj)
	// MSET keeps key and value: an append with elements args[k] and args[k+1]
	pair := false
	for _, in := range core.Instrs(f) {
		c, ok := in.(*ssa.Call)
		if !ok {
			continue
		}
		if b, isB := c.Call.Value.(*ssa.Builtin); !isB || b.Name() != "append" || len(c.Call.Args) != 2 {
			continue
		}
		el, ok := core.VariadicElems(c.Call.Args[1])
		if !ok || len(el) != 2 {
			continue
		}
		i0, ok0 := argIndex(el[0], args)
		i1, ok1 := argIndex(el[1], args)
		if ok0 && ok1 {
			if bo, ok := core.Unwrap(i1).(*ssa.BinOp); ok && bo.Op == token.ADD && core.Unwrap(bo.X) == core.Unwrap(i0) && isConstInt(1)(bo.Y) {
				pair = true
			}
		}
	}
	r.Check(pair, "FilterCmdKey/mset-pairs", f.Pos(), "the MSET projection must keep args[k], args[k+1] for every kept key")
}

func argIndex(v ssa.Value, args ssa.Value) (ssa.Value, bool) {
	ld, ok := core.Unwrap(v).(*ssa.UnOp)
	if !ok || ld.Op != token.MUL {
		return nil, false
	}
	ia, ok := ld.X.(*ssa.IndexAddr)
	if !ok || (ia.X != args && core.Unwrap(ia.X) != args) {
		return nil, false
	}
	return ia.Index, true
}

// ---------------------------------------------------------------- R10.4

func ruleBookkeepingPrefixes(w *core.World, r *core.Report) {
	f := fn(w, r, "syncer.NewRedisOutput")
	if f == nil {
		return
	}
	cp, ok1 := pkgConstString(w, "config", "CheckpointKey")
	ns, ok2 := pkgConstString(w, "config", "NamespacePrefixKey")
	if !ok1 || !ok2 {
		r.Unresolved("config.CheckpointKey", "bookkeeping prefix constants not found")
		return
	}
	found := false
	var pos token.Pos = f.Pos()
	var prefixSites []core.Site
	for _, g := range reachableFuncs(f) {
		if g != f && !(core.Transparent != nil && core.Transparent(g)) {
			continue
		}
		for _, s := range core.SitesNamed(g, false, "*RedisKeyFilter).InsertPrefixKeyBlackList") {
			if s.Instr.Parent() == g {
				prefixSites = append(prefixSites, s)
			}
		}
	}
	for _, s := range prefixSites {
		el, ok := core.VariadicElems(s.Args()[0])
		if !ok {
			// a named table: a package-level slice that is a literal and is only read (globalSliceLiteral, r7_n3.go)
			el, ok = globalSliceLiteral(w, s.Args()[0])
		}
		if !ok {
			continue
		}
		has := map[string]bool{}
		for _, e := range el {
			if str, ok := core.ConstString(e); ok {
				has[str] = true
			}
		}
		if has[cp] && has[ns] && unconditionalIn(w, f, s.Instr, 3) {
			found = true
			pos = s.Pos()
		}
	}
	r.Check(found, "NewRedisOutput/bookkeeping-prefixes", pos, "the tool's own checkpoint and namespace prefixes must be put on the key black list unconditionally (not only when a key filter is configured)")
}

// ---------------------------------------------------------------- R10.6

func ruleRangeList(w *core.World, r *core.Report) {
	look := fn(w, r, "(*pkg/filter.RangeList).IsSlotInList")
	ins := fn(w, r, "(*pkg/filter.RangeList).InsertSlotInList")
	if look == nil || ins == nil {
		return
	}
	bisect := false
	for _, in := range core.Instrs(look) {
		if b, ok := in.(*ssa.BinOp); ok && b.Op == token.QUO && isConstInt(2)(b.Y) {
			bisect = true
		}
	}
	readsField := func(f *ssa.Function, name string) int {
		n := 0
		for _, in := range core.Instrs(f) {
			if fa, ok := in.(*ssa.FieldAddr); ok && core.FieldName(fa) == name && strings.HasSuffix(core.TypeName(fa.X.Type()), "filter.Range") {
				for _, ref := range *fa.Referrers() {
					if u, ok := ref.(*ssa.UnOp); ok && u.Op == token.MUL {
						n++
					}
				}
			}
		}
		return n
	}
	if !bisect {
		// a linear scan needs no ordering invariant
		r.OK("RangeList/lookup-is-linear", look.Pos(), "")
	} else {
		r.Check(readsField(ins, "Right") > 0 && readsField(ins, "Left") > 0, "RangeList.InsertSlotInList/reads-neighbours", ins.Pos(),
			"the lookup bisects the list (discards half of it on one comparison), which is only correct for sorted disjoint ranges; insertion never inspects the bounds of stored ranges, so overlapping or nested ranges make configured slots unreachable")
	}
	// bounds used for the fast reject derive from the stored list: minLeft = list[0].Left, maxRight = list[len-1].Right,
	// stored on every path that stores the list
	var listStore, minStore, maxStore []*ssa.Store
	for _, in := range core.Instrs(ins) {
		st, ok := in.(*ssa.Store)
		if !ok {
			continue
		}
		if fa, ok := st.Addr.(*ssa.FieldAddr); ok && strings.HasSuffix(core.TypeName(fa.X.Type()), "filter.RangeList") {
			switch core.FieldName(fa) {
			case "list":
				listStore = append(listStore, st)
			case "minLeft":
				minStore = append(minStore, st)
			case "maxRight":
				maxStore = append(maxStore, st)
			}
		}
	}
	usesBounds := false
	for _, in := range core.Instrs(look) {
		if fa, ok := in.(*ssa.FieldAddr); ok && (core.FieldName(fa) == "minLeft" || core.FieldName(fa) == "maxRight") {
			usesBounds = true
		}
	}
	if !usesBounds {
		r.OK("RangeList/no-fast-reject", look.Pos(), "")
		return
	}
	okB := len(listStore) == 1 && len(minStore) == 1 && len(maxStore) == 1
	msg := "expected one store each of list, minLeft, maxRight"
	if okB {
		ls := listStore[0]
		elem := func(v ssa.Value, field string, first bool) bool {
			ld, ok := core.Unwrap(v).(*ssa.UnOp)
			if !ok {
				return false
			}
			fa, ok := ld.X.(*ssa.FieldAddr)
			if !ok || core.FieldName(fa) != field {
				return false
			}
			el, ok := fa.X.(*ssa.UnOp)
			if !ok {
				return false
			}
			ia, ok := el.X.(*ssa.IndexAddr)
			// the list that is stored, also when it is a local shared with a closure and read anew at each mention
			if !ok || !sameReadOfLocal(ia.X, ls.Val) {
				return false
			}
			if first {
				return isConstInt(0)(ia.Index)
			}
			b, ok := ia.Index.(*ssa.BinOp)
			return ok && b.Op == token.SUB && isConstInt(1)(b.Y) && lenOf(func(x ssa.Value) bool { return sameReadOfLocal(x, ls.Val) })(b.X)
		}
		okB = elem(minStore[0].Val, "Left", true) && elem(maxStore[0].Val, "Right", false) &&
			core.Dominates(ls, minStore[0]) && core.Dominates(ls, maxStore[0]) || (core.Dominates(minStore[0], ls) && false)
		if !okB {
			// accept also: bounds stored before the list, as long as both dominate the exit with the list
			okB = elem(minStore[0].Val, "Left", true) && elem(maxStore[0].Val, "Right", false) &&
				minStore[0].Block() == ls.Block() && maxStore[0].Block() == ls.Block()
		}
		msg = "the fast-reject bounds must be the Left of the first and the Right of the last range of the list that is stored, on the same path"
	}
	if okB {
		r.OK("RangeList.InsertSlotInList/bounds", ins.Pos(), "")
	} else {
		r.Undecided("RangeList.InsertSlotInList/bounds", ins.Pos(), "%s; a bound that misses a configured range makes the lookup reject its slots", msg)
	}
	// the lookup's fast reject compares with exactly those bounds in the right direction
	lt, gt := false, false
	for _, in := range core.Instrs(look) {
		b, ok := in.(*ssa.BinOp)
		if !ok {
			continue
		}
		if b.Op == token.LSS && core.IsFieldLoad(b.Y, "RangeList", "minLeft") {
			lt = true
		}
		if b.Op == token.GTR && core.IsFieldLoad(b.Y, "RangeList", "maxRight") {
			gt = true
		}
	}
	r.Check(lt && gt, "RangeList.IsSlotInList/fast-reject", look.Pos(), "fast reject must be slot < minLeft || slot > maxRight")
}

// ---------------------------------------------------------------- R10.7

func ruleKeyTables(w *core.World, r *core.Report) {
	k1, pos1, ok1 := astCompositeStrings(w, "pkg/redis/keyspec", "commandKeyPositions", true)
	k2, pos2, ok2 := astCompositeStrings(w, "pkg/redis/keyspec", "commandKeyExtractors", true)
	if !ok1 || !ok2 {
		r.Unresolved("keyspec tables", "tables not found")
		return
	}
	var bad []string
	seen := map[string]bool{}
	for _, k := range append(append([]string{}, k1...), k2...) {
		if k != strings.ToLower(k) {
			bad = append(bad, k+" (not lower-case: lookups lower the name, so the row is dead)")
		}
		if seen[k] {
			bad = append(bad, k+" (in both tables or twice)")
		}
		seen[k] = true
	}
	r.Check(len(bad) == 0, "keyspec/table-keys", pos1, "%v", bad)
	_ = pos2
	// positions: first >= 1, step >= 1
	p := w.Pkg("pkg/redis/keyspec")
	var badPos []string
	rows := 0
	for _, f := range p.Syntax {
		ast.Inspect(f, func(n ast.Node) bool {
			cl, ok := n.(*ast.CompositeLit)
			if !ok {
				return true
			}
			tv, ok := p.TypesInfo.Types[cl]
			if !ok || !strings.HasSuffix(tv.Type.String(), "keyspec.redisKeyPosition") || len(cl.Elts) != 3 {
				return true
			}
			rows++
			var vals [3]int64
			for i, e := range cl.Elts {
				if kv, isKV := e.(*ast.KeyValueExpr); isKV {
					e = kv.Value
				}
				if v := p.TypesInfo.Types[e].Value; v != nil {
					vals[i], _ = constant.Int64Val(v)
				}
			}
			if vals[0] < 1 || vals[2] < 1 {
				badPos = append(badPos, w.Pos(cl.Pos()))
			}
			return true
		})
	}
	r.Check(len(badPos) == 0 && rows > 5, "keyspec/positions", pos1, "key position rows with first < 1 or step < 1 at %v (rows=%d)", badPos, rows)
	// CommandKeyIndexes lower-cases the name before both lookups
	if f := fn(w, r, "pkg/redis/keyspec.CommandKeyIndexes"); f != nil {
		ok := true
		n := 0
		for _, in := range core.Instrs(f) {
			lk, isLk := in.(*ssa.Lookup)
			if !isLk {
				continue
			}
			if _, isMap := lk.X.(*ssa.UnOp); !isMap {
				continue
			}
			n++
			if !isResultOf("strings.ToLower", -1)(lk.Index) {
				ok = false
			}
		}
		r.Check(ok && n == 2, "CommandKeyIndexes/lowercase-lookup", f.Pos(), "both table lookups must use the lower-cased command name (lookups=%d)", n)
	}
}

// ---------------------------------------------------------------- R10.9 multi-key commands: rows equal the published key specs

// publishedKeySpecs are the (first, last, step) key specifications of the
// Redis commands that address more than one key, as published by COMMAND
// INFO / the command documentation. A row of the static table for one of
// these commands must equal it: a row that names fewer keys lets the other
// keys bypass key filters and slot checks.
var publishedKeySpecs = map[string][3]int64{
	"brpop": {1, -2, 1}, "blpop": {1, -2, 1}, "bzpopmin": {1, -2, 1}, "bzpopmax": {1, -2, 1},
	"brpoplpush": {1, 2, 1}, "rpoplpush": {1, 2, 1}, "lmove": {1, 2, 1}, "blmove": {1, 2, 1},
	"smove": {1, 2, 1}, "rename": {1, 2, 1}, "renamenx": {1, 2, 1}, "copy": {1, 2, 1},
	"geosearchstore": {1, 2, 1}, "zrangestore": {1, 2, 1},
	"sinterstore": {1, -1, 1}, "sunionstore": {1, -1, 1}, "sdiffstore": {1, -1, 1}, "pfmerge": {1, -1, 1},
	"del": {1, -1, 1}, "unlink": {1, -1, 1},
	"mset": {1, -1, 2}, "msetnx": {1, -1, 2},
	"bitop": {2, -1, 1},
}

// keyPositionRows reads the literal of keyspec.commandKeyPositions: command -> (first, last, step).
func keyPositionRows(w *core.World) (map[string][3]int64, token.Pos, bool) {
	p := w.Pkg("pkg/redis/keyspec")
	if p == nil {
		return nil, token.NoPos, false
	}
	litOf := func(e ast.Expr) (*ast.CompositeLit, bool) {
		switch x := e.(type) {
		case *ast.CompositeLit:
			return x, true
		case *ast.Ident:
			for _, f := range p.Syntax {
				for _, d := range f.Decls {
					gd, ok := d.(*ast.GenDecl)
					if !ok {
						continue
					}
					for _, sp := range gd.Specs {
						vs, ok := sp.(*ast.ValueSpec)
						if !ok {
							continue
						}
						for i, n := range vs.Names {
							if n.Name == x.Name && i < len(vs.Values) {
								if cl, ok := vs.Values[i].(*ast.CompositeLit); ok {
									return cl, true
								}
							}
						}
					}
				}
			}
		}
		return nil, false
	}
	rows := map[string][3]int64{}
	var pos token.Pos
	found := false
	for _, f := range p.Syntax {
		for _, d := range f.Decls {
			gd, ok := d.(*ast.GenDecl)
			if !ok {
				continue
			}
			for _, sp := range gd.Specs {
				vs, ok := sp.(*ast.ValueSpec)
				if !ok || len(vs.Names) != 1 || vs.Names[0].Name != "commandKeyPositions" || len(vs.Values) != 1 {
					continue
				}
				cl, ok := vs.Values[0].(*ast.CompositeLit)
				if !ok {
					continue
				}
				found, pos = true, cl.Pos()
				for _, e := range cl.Elts {
					kv, ok := e.(*ast.KeyValueExpr)
					if !ok {
						return nil, pos, false
					}
					kc := p.TypesInfo.Types[kv.Key].Value
					if kc == nil {
						return nil, pos, false
					}
					row, ok := litOf(kv.Value)
					if !ok || len(row.Elts) != 3 {
						return nil, pos, false
					}
					var vals [3]int64
					for i, el := range row.Elts {
						if kv2, isKV := el.(*ast.KeyValueExpr); isKV {
							el = kv2.Value
						}
						v := p.TypesInfo.Types[el].Value
						if v == nil {
							return nil, pos, false
						}
						vals[i], _ = constant.Int64Val(v)
					}
					rows[strings.ToLower(constant.StringVal(kc))] = vals
				}
			}
		}
	}
	return rows, pos, found
}

func ruleMultiKeySpecs(w *core.World, r *core.Report) {
	rows, pos, ok := keyPositionRows(w)
	if !ok {
		r.Undecided("keyspec/multi-key-rows", pos, "the key position table is not a literal of constant rows")
		return
	}
	var bad []string
	n := 0
	for cmd, want := range publishedKeySpecs {
		got, present := rows[cmd]
		if !present {
			continue // resolved by an extractor or by COMMAND GETKEYS
		}
		n++
		if got[1] == 0 {
			got[1] = -1 // CommandKeyIndexes reads last == 0 as "the last argument", the same as -1
		}
		if got != want {
			bad = append(bad, fmt.Sprintf("%s: table %v, published %v", cmd, got, want))
		}
	}
	sort.Strings(bad)
	r.Check(len(bad) == 0 && n >= 10, "keyspec/multi-key-rows", pos, "rows of commands that address several keys must equal the published key specification (first, last, step); a row naming fewer keys lets the remaining keys bypass the key/slot filters and the single-slot check: %v (rows compared: %d)", bad, n)
}

// argIsParam: v is the parameter itself, or the parameter of a helper that
// received it (a helper extracted from the function passes its argument on).
func argIsParam(v ssa.Value, par *ssa.Parameter) bool {
	v = core.Unwrap(v)
	if v == ssa.Value(par) {
		return true
	}
	q, ok := v.(*ssa.Parameter)
	if !ok || q.Type() != par.Type() {
		return false
	}
	// q is a parameter of another function: every call of that function inside par's function passes par there
	callee := q.Parent()
	idx := -1
	for i, x := range callee.Params {
		if x == q {
			idx = i
		}
	}
	found := false
	for _, s := range core.Sites(par.Parent(), true) {
		if s.Callee != callee {
			continue
		}
		if idx >= len(s.Common().Args) || core.Unwrap(s.Common().Args[idx]) != ssa.Value(par) {
			return false
		}
		found = true
	}
	return found
}

// ---------------------------------------------------------------- R10.10 the filter tries only grow

// ruleTrieGrowOnly: prefix lists (prefix match) and command lists (exact match)
// share one trie type. Whatever was inserted must stay findable by both kinds
// of lookup, so an existing node never loses children and a terminal mark is
// never taken back: nodes are modified only by adding a child or setting the
// mark.
func ruleTrieGrowOnly(w *core.World, r *core.Report) {
	bad := ""
	var pos token.Pos
	n := 0
	fresh := func(v ssa.Value) bool { // the node being constructed right here
		a, ok := v.(*ssa.Alloc)
		return ok && a.Comment == "complit"
	}
	for _, f := range w.FuncsIn("pkg/filter") {
		for _, in := range core.OwnInstrs(f) {
			switch x := in.(type) {
			case *ssa.Store:
				fa, ok := x.Addr.(*ssa.FieldAddr)
				if !ok || !strings.HasSuffix(core.TypeName(fa.X.Type()), "filter.TrieNode") {
					continue
				}
				n++
				if fresh(fa.X) {
					continue
				}
				switch core.FieldName(fa) {
				case "children":
					bad, pos = "the children of an existing trie node are replaced: entries inserted below it are lost for exact-match lookups (command lists)", x.Pos()
				case "isEnd":
					if b, isC := core.ConstBool(x.Val); !isC || !b {
						bad, pos = "the terminal mark of an existing trie node is taken back", x.Pos()
					}
				}
			case *ssa.Call:
				if b, ok := x.Call.Value.(*ssa.Builtin); ok && b.Name() == "delete" && len(x.Call.Args) > 0 {
					if fieldNameOfLoad(x.Call.Args[0]) == "children" {
						bad, pos = "a child is deleted from a trie node", x.Pos()
					}
				}
			}
		}
	}
	r.Check(bad == "" && n >= 3, "Trie/grow-only", pos, "%s (node writes seen: %d)", bad, n)
}

// buildsBisyncCommand: the call is to a function of the module (a closure or a
// named one) that returns a bisyncAofCommand it has built.
func buildsBisyncCommand(s core.Site) bool {
	g := s.Callee
	if g == nil || len(g.Blocks) == 0 || g.Signature.Results().Len() != 1 {
		return false
	}
	if !strings.HasSuffix(core.TypeName(g.Signature.Results().At(0).Type()), "bisyncAofCommand") {
		return false
	}
	for _, i2 := range core.OwnInstrs(g) {
		if a, ok := i2.(*ssa.Alloc); ok && strings.HasSuffix(core.TypeName(a.Type()), "bisyncAofCommand") && namesCommand(a) {
			return true
		}
	}
	return false
}

// namesCommand: the command value is given a name (an empty bisyncAofCommand{} returned beside "dropped" is not
// a forwarded command).
func namesCommand(a *ssa.Alloc) bool {
	if refs := a.Referrers(); refs != nil {
		for _, rf := range *refs {
			if fa, ok := rf.(*ssa.FieldAddr); ok && core.FieldName(fa) == "Cmd" {
				for _, rr := range *fa.Referrers() {
					if st, isSt := rr.(*ssa.Store); isSt && st.Addr == ssa.Value(fa) {
						return true
					}
				}
			}
		}
	}
	return false
}

// rangedSlice: the slice a `for i, x := range s` loop headed by head ranges over.
func rangedSlice(head *ssa.BasicBlock) ssa.Value {
	iff, ok := head.Instrs[len(head.Instrs)-1].(*ssa.If)
	if !ok {
		return nil
	}
	c, ok := core.AsCmp(iff.Cond, true)
	if !ok || c.Op != token.LSS {
		return nil
	}
	call, ok := core.Unwrap(c.Y).(*ssa.Call)
	if !ok || !isBuiltin(call, "len") {
		return nil
	}
	if from, _, ok := indexRange(c.X); !ok || from != 0 {
		return nil
	}
	return call.Call.Args[0]
}

// unchangedReturnGuarded: every return of f that passes the command on unchanged — (args, false) —
// happens under "nothing was rejected": the flag phi is known false there, or a fact satisfies guard.
func unchangedReturnGuarded(f *ssa.Function, head *ssa.BasicBlock, guard func(c core.Cmp, val bool) bool, flag *ssa.Phi) bool {
	args := ssa.Value(f.Params[2])
	n := 0
	for _, ret := range core.ReturnsX(f) {
		if len(ret.Results) != 2 {
			continue
		}
		rej, isC := core.ConstBool(core.RetVal(ret, 1))
		if !isC || rej || core.Unwrap(core.RetVal(ret, 0)) != args {
			continue
		}
		// returns before the loop (nothing to filter) carry no fact about keys: they are the ones
		// that the loop head does not dominate
		if !head.Dominates(ret.Block()) {
			continue
		}
		ok := false
		for _, fct := range core.FactsAt(ret.Block()) {
			if flag != nil && core.Unwrap(fct.Cond) == ssa.Value(flag) && !fct.Val {
				ok = true
			}
			if c, isCmp := core.FactCmp(fct); isCmp && guard(c, fct.Val) {
				ok = true
			}
		}
		if !ok {
			return false
		}
		n++
	}
	return n > 0
}

// ---------------------------------------------------------------- R10.11 the database rule judges the source database

// ruleFilterDbOnSourceDb: the database black list is written in terms of the
// source's databases. Every call of FilterDb must be given the database the
// entry or command came from, never what selectDB mapped it to: with a
// targetDbMap the two differ, and a key of a black-listed source database is
// forwarded while one of an allowed database is dropped.
func ruleFilterDbOnSourceDb(w *core.World, r *core.Report) {
	n := 0
	for _, g := range w.FuncsIn("syncer") {
		for _, s := range core.SitesNamed(g, false, "*RedisKeyFilter).FilterDb") {
			if s.Instr.Parent() != g {
				continue
			}
			n++
			a := s.Args()
			mapped := false
			if len(a) >= 1 {
				mapped = core.DependsOn(a[0], func(v ssa.Value) bool {
					c, ok := v.(*ssa.Call)
					return ok && strings.HasSuffix(core.ResolveCall(c).Name, ").selectDB")
				})
			}
			name := shortName(core.FuncName(outermost(g)))
			r.Check(!mapped, name+"/FilterDb-on-source-db", s.Pos(), "the database rule is asked about the database selectDB mapped the entry to, not about the source database the black list is written for")
		}
	}
	if n == 0 {
		r.Fail("FilterDb-on-source-db", token.NoPos, "no call of FilterDb found")
	}
}

// ---------------------------------------------------------------- R10.12 the prefix trie is read the way it is written

// ruleTrieSameAlphabet: Insert stores one node per element of the key under
// some decomposition (Go's range over a string: runes). IsPrefixMatch and
// Search find what Insert stored only if they decompose the key the same way;
// a byte-wise walk of a rune-wise trie agrees on ASCII only, so a configured
// prefix with a non-ASCII character silently stops filtering (or matches
// foreign bytes).
func ruleTrieSameAlphabet(w *core.World, r *core.Report) {
	kinds := map[string]string{}
	var pos token.Pos
	for _, m := range []string{"Insert", "IsPrefixMatch", "Search"} {
		f := fn(w, r, "(*pkg/filter.Trie)."+m)
		if f == nil {
			continue
		}
		pos = f.Pos()
		kind := ""
		for _, in := range core.Instrs(f) {
			var key ssa.Value
			switch x := in.(type) {
			case *ssa.Lookup:
				if _, isMap := x.X.Type().Underlying().(*types.Map); isMap {
					key = x.Index
				}
			case *ssa.MapUpdate:
				key = x.Key
			}
			if key == nil {
				continue
			}
			k := "other"
			switch y := core.Unwrap(key).(type) {
			case *ssa.Extract:
				if _, isNext := y.Tuple.(*ssa.Next); isNext {
					k = "rune (range over the string)"
				}
				// utf8.DecodeRuneInString yields the same runes as ranging over the string (U+FFFD, width 1, for an invalid byte)
				if c, isCall := y.Tuple.(*ssa.Call); isCall && y.Index == 0 {
					if n := core.ResolveCall(c).Name; n == "unicode/utf8.DecodeRuneInString" || n == "unicode/utf8.DecodeRune" {
						k = "rune (range over the string)"
					}
				}
			case *ssa.Index, *ssa.Lookup:
				k = "byte (indexing)"
			case *ssa.UnOp:
				k = "byte (indexing)"
				// an element of []rune(s): the same runes again
				if ia, isIA := y.X.(*ssa.IndexAddr); isIA && y.Op == token.MUL {
					if cv, isCv := core.Unwrap(ia.X).(*ssa.Convert); isCv {
						if sl, isSl := cv.Type().Underlying().(*types.Slice); isSl {
							if b, isB := sl.Elem().Underlying().(*types.Basic); isB && b.Kind() == types.Int32 {
								k = "rune (range over the string)"
							}
						}
					}
				}
			}
			if kind != "" && kind != k {
				kind = "mixed"
			} else {
				kind = k
			}
		}
		kinds[m] = kind
	}
	same := len(kinds) == 3 && kinds["Insert"] != "" && kinds["Insert"] != "mixed" && kinds["Insert"] == kinds["IsPrefixMatch"] && kinds["Insert"] == kinds["Search"]
	r.Check(same, "Trie/one-alphabet", pos, "the prefix trie is written and read with different decompositions of the key (%v): what Insert stored is found only for keys on which they agree", kinds)
}

// ruleFilterCmdKeyKeep (part of R10.2; shared with C11: every key the slot rule judges is hashed itself).
func ruleFilterCmdKeyKeep(w *core.World, r *core.Report) {
	// FilterCmdKey: kept[i] = true only after FilterKey false and FilterSlot false; a rejected key sets filtered
	if f := fn(w, r, "(*pkg/filter.RedisKeyFilter).FilterCmdKey"); f != nil {
		isKeyRule := func(name string) func(ssa.Value) bool {
			return func(v ssa.Value) bool {
				c, ok := core.Unwrap(v).(*ssa.Call)
				return ok && core.ResolveCall(c).Name == "(*pkg/filter.RedisKeyFilter)."+name
			}
		}
		// the per-key loop, one iteration at a time (helpers the test is moved into are stepped into)
		var loopHead *ssa.BasicBlock
		for _, s := range core.SitesNamed(f, false, "(*pkg/filter.RedisKeyFilter).FilterKey") {
			at := s.Instr
			for at.Parent() != f {
				c := core.ExpandedInto(at.Parent())
				if c == nil {
					break
				}
				at = c
			}
			if at.Parent() == f {
				loopHead = core.LoopHeadOf(at.Block())
			}
		}
		if loopHead == nil {
			// the whole per-key loop sits in a helper with one call site (a phase of the function given a name):
			// the loop is the one around the test in that helper
			for _, s := range core.SitesNamed(f, false, "(*pkg/filter.RedisKeyFilter).FilterKey") {
				var at ssa.Instruction = s.Instr
				for i := 0; i < 8 && at.Parent() != f && loopHead == nil; i++ {
					if h := core.LoopHeadOf(at.Block()); h != nil {
						loopHead = h
						break
					}
					c := core.ExpandedInto(at.Parent())
					if c == nil {
						break
					}
					at = c
				}
			}
		}
		if loopHead == nil {
			// the test sits in a helper with several callers: the loop is the one that calls the helper
			for _, s := range core.Sites(f, false) {
				if s.Callee != nil && s.Instr.Parent() == f && len(core.SitesNamed(s.Callee, false, "(*pkg/filter.RedisKeyFilter).FilterKey")) > 0 {
					loopHead = core.LoopHeadOf(s.Instr.Block())
				}
			}
		}
		isKeepStore := func(in ssa.Instruction) bool {
			st, ok := in.(*ssa.Store)
			if !ok {
				return false
			}
			ia, ok := st.Addr.(*ssa.IndexAddr)
			if !ok {
				return false
			}
			if b, isB := core.ConstBool(st.Val); !isB || !b {
				return false
			}
			return boolMask(ia.X) // a []bool made locally, also when it is kept in a field of a private record (r7_n2.go)
		}
		n := 0
		keepBad := ""
		var keepPos token.Pos = f.Pos()
		type iter struct {
			p                  *core.Path
			rejected, accepted bool
		}
		var iters []iter
		if loopHead != nil {
			core.EnumPathsN(loopHead, 0, 100000, 1, func(p *core.Path) {
				rej := pathAssumed(p, isKeyRule("FilterKey"), true) || pathAssumed(p, isKeyRule("FilterSlot"), true)
				acc := pathAssumed(p, isKeyRule("FilterKey"), false) && pathAssumed(p, isKeyRule("FilterSlot"), false)
				for _, in := range p.Instrs {
					if isKeepStore(in) {
						n++
						if !acc {
							keepBad, keepPos = "a key is kept without both the prefix rule and the slot rule having accepted it", in.Pos()
						}
					}
					// the kept keys as a list carried round the loop (r7_n2.go): appending to it is the marking
					if _, el, isApp := keptListAppend(in, loopHead); isApp {
						n++
						if !acc {
							keepBad, keepPos = "a key is kept without both the prefix rule and the slot rule having accepted it", in.Pos()
						} else if len(el) != 1 || !fromThisIteration(el[0], loopHead) {
							keepBad, keepPos = "what is put on the list of kept keys must be the one key position judged in this iteration", in.Pos()
						}
					}
				}
				if p.Closed {
					iters = append(iters, iter{p, rej, acc})
				}
			})
		}
		r.Check(keepBad == "" && n > 0, "FilterCmdKey/keep", keepPos, "%s (marking paths=%d)", keepBad, n)
		// the same key string is given to both rules and comes from args[index]
		var ka, sa ssa.Value
		for _, s := range core.Sites(f, false) {
			if s.Name == "(*pkg/filter.RedisKeyFilter).FilterKey" {
				ka = s.Args()[0]
			}
			if s.Name == "(*pkg/filter.RedisKeyFilter).FilterSlot" {
				sa = s.Args()[0]
			}
		}
		r.Check(ka != nil && ka == sa, "FilterCmdKey/same-key", f.Pos(), "both key rules must judge the same key")
		// a rejection is remembered until the loop is over, and the command passes unchanged only when
		// nothing was rejected. Two forms: a boolean carried round the loop that every rejecting iteration
		// sets; or a counter that exactly the accepting iterations advance, compared afterwards with the
		// number of keys.
		okFlag, seenFlag := false, false
		why := "no loop-carried flag or counter records a rejection"
		if loopHead != nil {
			for _, in := range loopHead.Instrs {
				ph, ok := in.(*ssa.Phi)
				if !ok {
					break
				}
				bt, isB := ph.Type().Underlying().(*types.Basic)
				good, nRej, nAcc := true, 0, 0
				switch {
				case isB && bt.Kind() == types.Bool:
					for _, it := range iters {
						if !it.rejected {
							continue
						}
						nRej++
						if v, isC := core.ConstBool(it.p.NextIter(ph)); !isC || !v {
							good = false
						}
					}
					if good && nRej > 0 && unchangedReturnGuarded(f, loopHead, func(c core.Cmp, val bool) bool { return false }, ph) {
						okFlag, seenFlag = true, true
					}
				case isB && bt.Info()&types.IsInteger != 0:
					init := false
					for i, e := range ph.Edges {
						if !loopHead.Dominates(loopHead.Preds[i]) && isConstInt(0)(e) {
							init = true
						}
					}
					for _, it := range iters {
						nx := it.p.NextIter(ph)
						switch {
						case it.rejected:
							nRej++
							if nx != ssa.Value(ph) {
								good = false
							}
						case it.accepted:
							nAcc++
							b, isBin := nx.(*ssa.BinOp)
							if !isBin || b.Op != token.ADD || b.X != ssa.Value(ph) || !isConstInt(1)(b.Y) {
								good = false
							}
						default:
							good = false
						}
					}
					if os.Getenv("GUNYU_DEBUG") != "" {
						fmt.Println("DEBUG counter", ph.Name(), "good", good, "init", init, "rej", nRej, "acc", nAcc, "iters", len(iters), "ranged", rangedSlice(loopHead))
						for _, it := range iters {
							fmt.Println("   iter rej", it.rejected, "acc", it.accepted, "next", it.p.NextIter(ph))
						}
					}
					if good && init && nRej > 0 && nAcc > 0 {
						// the loop visits every key: it ranges over a slice, and the counter is compared with its length
						ranged := rangedSlice(loopHead)
						if ranged != nil && unchangedReturnGuarded(f, loopHead, func(c core.Cmp, val bool) bool {
							x, y := core.Unwrap(c.X), core.Unwrap(c.Y)
							isLen := func(v ssa.Value) bool {
								call, ok := v.(*ssa.Call)
								return ok && isBuiltin(call, "len") && call.Call.Args[0] == ranged
							}
							return c.Op == token.EQL && ((x == ssa.Value(ph) && isLen(y)) || (y == ssa.Value(ph) && isLen(x)))
						}, nil) {
							okFlag, seenFlag = true, true
						} else {
							why = "the counter of accepted keys is not compared with the number of keys before the command passes unchanged"
						}
					}
				default:
					// a list of the kept keys: empty before the loop, exactly the accepting iterations append one
					// element, the rejecting ones leave it alone; its length is compared with the number of keys
					if _, isSl := ph.Type().Underlying().(*types.Slice); !isSl {
						continue
					}
					if keptListRecordsRejection(f, loopHead, ph, len(iters), func(k int) (rej, acc bool, nx ssa.Value) {
						return iters[k].rejected, iters[k].accepted, iters[k].p.NextIter(ph)
					}) {
						okFlag, seenFlag = true, true
					}
				}
			}
		}
		_ = why
		if !okFlag && loopHead != nil {
			// the flag as a field of a private record, possibly built by a helper that holds the loop (r7_n2.go)
			if recordFlagRecordsRejection(f, loopHead, len(iters), func(k int) (bool, []ssa.Instruction) { return iters[k].rejected, iters[k].p.Instrs }) {
				okFlag, seenFlag = true, true
			}
		}
		r.Check(okFlag && seenFlag, "FilterCmdKey/filtered-flag", f.Pos(), "a rejected key must mark the command as filtered (otherwise the command is forwarded unchanged)")
	}
}

// ---------------------------------------------------------------- R10.13 every entry of a key carries the source database

// ruleEntryCarriesDb: the snapshot workers decide per entry: FilterDb(entry.DB)
// withholds a black-listed database, and -1 ("no database") is never filtered. A
// value too large for one entry is handed out in several chunks; each chunk is an
// entry of its own and is filtered on its own. The loader must therefore stamp
// the current database on every entry that carries a key — a continuation chunk
// left at -1 passes the database filter and is written into whatever database
// the connection is in.
func ruleEntryCarriesDb(w *core.World, r *core.Report) {
	f := fn(w, r, "(*pkg/rdb.Loader).Next")
	if f == nil {
		return
	}
	fieldStore := func(in ssa.Instruction, name string) (ssa.Value, bool) {
		st, ok := in.(*ssa.Store)
		if !ok {
			return nil, false
		}
		fa, ok := st.Addr.(*ssa.FieldAddr)
		if !ok || core.FieldName(fa) != name || !strings.HasSuffix(core.TypeName(fa.X.Type()), "BinEntry") {
			return nil, false
		}
		return st.Val, true
	}
	bad := ""
	var pos token.Pos = f.Pos()
	n := 0
	okEnum := core.EnumPathsN(f.Blocks[0], 0, 400000, 1, func(p *core.Path) {
		ret, isRet := p.End.(*ssa.Return)
		if !isRet || ret.Parent() != f || bad != "" {
			return
		}
		keyed, stamped := false, false
		for _, in := range p.Instrs {
			// a data entry: the one the loader remembers so that continuation chunks can refer to it
			if st, ok := in.(*ssa.Store); ok {
				if fa, isFa := st.Addr.(*ssa.FieldAddr); isFa && core.FieldName(fa) == "lastEntry" && strings.HasSuffix(core.TypeName(fa.X.Type()), "Loader") {
					keyed = true
				}
			}
			if v, ok := fieldStore(in, "DB"); ok {
				if core.DependsOn(p.Resolve(v), func(x ssa.Value) bool { return core.IsFieldLoad(x, "Loader", "db") }) {
					stamped = true
				}
			}
		}
		if !keyed {
			return
		}
		n++
		if !stamped {
			bad, pos = "an entry that carries a key is handed out without the loader's current database: the per-entry database filter lets it through (DB -1 is never filtered) and it is written into the database the connection happens to be in", ret.Pos()
		}
	})
	if !okEnum {
		r.Undecided("Loader.Next/entry-carries-db", f.Pos(), "too many paths")
		return
	}
	r.Check(bad == "" && n > 0, "Loader.Next/entry-carries-db", pos, "%s (paths handing out a keyed entry=%d)", bad, n)
}

// ---------------------------------------------------------------- R10.14 a configured slot range is dropped only when it is inverted

// ruleSlotRangeAccepted: the slot rule is "key's slot in the union of the
// configured ranges". A range [left, right] may be skipped as malformed only when
// left > right. Skipping on left >= right drops every single-slot range written
// as [s, s]: a black-listed slot is forwarded, a white-listed one withheld.
func ruleSlotRangeAccepted(w *core.World, r *core.Report) {
	n := 0
	for _, name := range []string{"(*pkg/filter.RedisKeyFilter).InsertSlotWhiteList", "(*pkg/filter.RedisKeyFilter).InsertSlotBlackList"} {
		f := fn(w, r, name)
		if f == nil {
			continue
		}
		// the loop over the configured ranges: the innermost loop around the insertion, in this function or in
		// a helper it hands the list to
		var head *ssa.BasicBlock
		for _, g := range reachableFuncs(f) {
			if g != f && !(core.Transparent != nil && core.Transparent(g)) {
				continue
			}
			for _, s := range core.SitesNamed(g, false, "(*pkg/filter.RangeList).InsertSlotInList") {
				if s.Instr.Parent() != g {
					continue
				}
				var at ssa.Instruction = s.Instr
				for depth := 0; depth < 4 && core.LoopHeadOf(at.Block()) == nil && at.Parent() != f; depth++ {
					cs := callSitesOf(w, at.Parent())
					if len(cs) == 0 {
						break
					}
					at = cs[0]
				}
				if h := core.LoopHeadOf(at.Block()); h != nil {
					head = h
				}
			}
		}
		if head == nil {
			r.Undecided(shortName(name)+"/range-accepted", f.Pos(), "the loop over the configured ranges was not found")
			continue
		}
		elem := func(p *core.Path, v ssa.Value, k int64) bool {
			ld, ok := core.Unwrap(p.Resolve(v)).(*ssa.UnOp)
			if !ok || ld.Op != token.MUL {
				return false
			}
			ia, ok := ld.X.(*ssa.IndexAddr)
			if !ok {
				return false
			}
			c, isK := core.ConstInt(ia.Index)
			return isK && c == k
		}
		isLen := func(v ssa.Value) bool {
			c, ok := core.Unwrap(v).(*ssa.Call)
			return ok && isBuiltin(c, "len")
		}
		bad := ""
		var pos token.Pos = f.Pos()
		two, skipped := 0, 0
		okEnum := core.EnumPathsN(head, 0, 200000, 1, func(p *core.Path) {
			if bad != "" || !p.Holds(token.EQL, isLen, isConstInt(2)) {
				return
			}
			two++
			for _, s := range pathSites(p) {
				if strings.HasSuffix(s.Name, "RangeList).InsertSlotInList") {
					return
				}
			}
			skipped++
			inverted := false
			for _, fct := range p.Conds {
				c, ok := core.FactCmp(fct)
				if !ok {
					continue
				}
				if (c.Op == token.GTR && elem(p, c.X, 0) && elem(p, c.Y, 1)) || (c.Op == token.LSS && elem(p, c.X, 1) && elem(p, c.Y, 0)) {
					inverted = true
				}
			}
			if !inverted {
				bad = "a two-element range is skipped on a path that did not establish left > right: a range such as [s, s] (one slot) is dropped from the list"
				for _, fct := range p.Conds {
					if fct.If != nil && fct.If.Pos().IsValid() {
						pos = fct.If.Pos()
					} else if fct.Cond != nil && fct.Cond.Pos().IsValid() {
						pos = fct.Cond.Pos()
					}
				}
			}
		})
		if !okEnum {
			r.Undecided(shortName(name)+"/range-accepted", f.Pos(), "too many paths")
			continue
		}
		n++
		r.Check(bad == "" && two > skipped, shortName(name)+"/range-accepted", pos, "%s (paths with a two-element range=%d, of them skipping=%d)", bad, two, skipped)
	}
	if n == 0 {
		r.Fail("slot-lists/range-accepted", token.NoPos, "the slot list builders were not found")
	}
}

// ---------------------------------------------------------------- R10.15 a snapshot entry is withheld by the filters only

// ruleWithheldOnlyByFilters: the converse of R10.1 for the snapshot workers. An
// entry that arrived intact (no error, not the end marker) and is not replayed
// must have been rejected by the database, key or slot rule on that path. Any
// other reason to skip it ("already expired", "looks redundant") withholds a key
// the configuration lets through — and, in a full sync, leaves the target's old
// value in place whatever the key-exists policy says.
func ruleWithheldOnlyByFilters(w *core.World, r *core.Report) {
	type spec struct {
		fn      string
		forward []string
	}
	n := 0
	for _, sp := range []spec{
		{"(*syncer.RedisOutput).rdbReplay", []string{"(*pkg/rdbrestore.RdbReplay).Replay"}},
		{"(*syncer.RedisOutput).rdbReplayBisync", []string{"*buildBisyncRdbReplayUnit"}},
	} {
		f := fn(w, r, sp.fn)
		if f == nil {
			continue
		}
		var fw []core.Site
		for _, g := range reachableFuncs(f) {
			if g != f && !(core.Transparent != nil && core.Transparent(g)) && g.Parent() == nil {
				continue
			}
			for _, s := range core.SitesNamed(g, false, sp.forward...) {
				if s.Instr.Parent() == g {
					fw = append(fw, s)
				}
			}
		}
		if len(fw) == 0 {
			continue
		}
		at := ssa.Instruction(fw[0].Instr)
		for depth := 0; depth < 4 && at.Parent() != f; depth++ {
			cs := callSitesOf(w, at.Parent())
			if len(cs) == 0 {
				break
			}
			at = cs[0]
		}
		head := core.LoopHeadOf(at.Block())
		if head == nil || at.Parent() != f {
			r.Undecided(shortName(sp.fn)+"/withheld-only-by-filters", f.Pos(), "the per-entry loop was not found")
			continue
		}
		isFilter := func(v ssa.Value) bool {
			c, ok := core.Unwrap(v).(*ssa.Call)
			return ok && core.MatchName(core.ResolveCall(c).Name, "*RedisKeyFilter).FilterDb", "*RedisKeyFilter).FilterKey", "*RedisKeyFilter).FilterSlot")
		}
		isEntryChan := func(t types.Type) bool {
			ch, ok := t.Underlying().(*types.Chan)
			return ok && strings.HasSuffix(core.TypeName(ch.Elem()), "BinEntry")
		}
		bad := ""
		var pos token.Pos = f.Pos()
		skips, fwd := 0, 0
		okEnum := core.EnumPathsN(head, 0, 400000, 1, func(p *core.Path) {
			if bad != "" || !p.Closed {
				return // paths that leave the worker (an error, the end marker, cancellation) withhold nothing
			}
			got := false
			for _, in := range p.Instrs {
				switch x := in.(type) {
				case *ssa.Select:
					for _, st := range x.States {
						if st.Dir == types.RecvOnly && isEntryChan(st.Chan.Type()) {
							got = true
						}
					}
				case *ssa.UnOp:
					if x.Op == token.ARROW && isEntryChan(x.X.Type()) {
						got = true
					}
				}
			}
			if !got {
				return
			}
			for _, s := range pathSites(p) {
				if core.MatchName(s.Name, sp.forward...) {
					fwd++
					return
				}
			}
			// the iteration took an entry and went on to the next one without replaying it
			// (the receive's own "channel closed" / other select branches do not come back to the loop head with an entry)
			if p.Holds(token.EQL, func(v ssa.Value) bool { return fieldNameOfLoad(core.Unwrap(v)) == "Err" }, core.IsNilConst) || true {
				skips++
				if !pathAssumed(p, isFilter, true) {
					bad = "a snapshot entry is taken off the pipe and dropped on a path on which neither the database, the key nor the slot rule rejected it"
					for _, fct := range p.Conds {
						if fct.If != nil && fct.If.Pos().IsValid() {
							pos = fct.If.Pos()
						}
					}
				}
			}
		})
		if !okEnum {
			r.Undecided(shortName(sp.fn)+"/withheld-only-by-filters", f.Pos(), "too many paths")
			continue
		}
		n++
		r.Check(bad == "" && fwd > 0, shortName(sp.fn)+"/withheld-only-by-filters", pos, "%s (iterations replaying=%d, skipping=%d)", bad, fwd, skips)
	}
	if n == 0 {
		r.Fail("snapshot-workers/withheld-only-by-filters", token.NoPos, "no snapshot worker found")
	}
}

// ruleUnitFromProjection (part of R10.8, shared with C18): the command a replay unit is built from —
// and whose keys decide the unit's slot and the single-slot test — is the filter's projection.
func ruleUnitFromProjection(w *core.World, r *core.Report) {
	if f := fn(w, r, "(*syncer.RedisOutput).parseAofReplayUnits"); f != nil {
		isProj := isResultOf("*RedisKeyFilter).FilterCmdKey", 0)
		isRaw := isResultOf("pkg/redis/client.ParseArgs", 1)
		nProj, nRaw := 0, 0
		var pos token.Pos = f.Pos()
		for _, st := range core.Sites(f, false) {
			// calls that build a command value: a closure of the parser (makeCmd) or a function written for it
			if !buildsBisyncCommand(st) {
				continue
			}
			for _, a := range st.Args() {
				if isProj(a) {
					nProj++
				}
				if isRaw(a) {
					nRaw++
					pos = st.Pos()
				}
			}
		}
		r.Check(nProj >= 1 && nRaw == 0, "parseAofReplayUnits/command-from-projection", pos, "the command put into a replay unit must be built from FilterCmdKey's projected arguments (%d site(s)); building it from the decoded arguments (%d site(s)) forwards keys the filter rejected", nProj, nRaw)
	}
}
