package rules

import (
	"go/constant"
	"fmt"
	"go/token"
	"go/types"
	"sort"
	"strings"

	"gunyucheck/core"

	"golang.org/x/tools/go/ssa"
)

// senderCtx locates the moving parts of (*RedisOutput).sendCmdsBatch by role.
type senderCtx struct {
	main, once, send *ssa.Function
	sel              *ssa.Select
	recvState        int
	item             ssa.Value  // the cmdExecution received from sendBuf in this iteration
	itemCell         *ssa.Alloc // the local variable it is stored in, if any
	head             *ssa.BasicBlock
	queue            *ssa.Alloc // cmdQueue cell
	commit, begin    int64
}

const senderName = "(*syncer.RedisOutput).sendCmdsBatch"

func newSenderCtx(w *core.World, r *core.Report) *senderCtx {
	c := &senderCtx{}
	c.main = fn(w, r, senderName)
	if c.main == nil {
		return nil
	}
	once := closureCalling(c.main, "*Redis.NewBatcher")
	if len(once) != 1 {
		r.Unresolved(senderName+"/sendFuncOnce", "expected exactly one closure creating a batcher, found %d", len(once))
		return nil
	}
	c.once = once[0]
	send := closureCallingFn(c.main, c.once)
	if len(send) != 1 {
		r.Unresolved(senderName+"/sendFunc", "expected exactly one closure calling the batch sender, found %d", len(send))
		return nil
	}
	c.send = send[0]
	sb := param(c.main, "sendBuf")
	if sb == nil {
		for _, p := range c.main.Params {
			if ch, ok := p.Type().Underlying().(*types.Chan); ok && strings.HasSuffix(ch.Elem().String(), "cmdExecution") {
				sb = p
			}
		}
	}
	c.sel, c.recvState, c.item = selectRecv(c.main, func(v ssa.Value) bool { return v == ssa.Value(sb) })
	if c.sel == nil || c.item == nil {
		r.Unresolved(senderName+"/receive", "select receiving from the command channel not found")
		return nil
	}
	if refs := c.item.Referrers(); refs != nil {
		for _, ref := range *refs {
			if st, ok := ref.(*ssa.Store); ok && st.Val == c.item {
				if a, ok := st.Addr.(*ssa.Alloc); ok && len(core.CellStores(a)) == 1 {
					c.itemCell = a
				}
			}
		}
	}
	c.head = core.LoopHeadOf(c.sel.Block())
	if c.head == nil {
		r.Unresolved(senderName+"/loop", "main loop not found")
		return nil
	}
	c.queue = core.NamedCell(c.main, "cmdQueue")
	if c.queue == nil {
		// role: the []cmdExecution cell appended to in the main function
		for _, in := range core.Instrs(c.main) {
			if a, ok := in.(*ssa.Alloc); ok && strings.HasSuffix(a.Type().String(), "[]"+core.ModulePath+"/syncer.cmdExecution") {
				c.queue = a
			}
		}
	}
	if c.queue == nil {
		r.Unresolved(senderName+"/cmdQueue", "command queue variable not found")
		return nil
	}
	var ok1, ok2 bool
	c.commit, ok1 = pkgConstInt(w, "syncer", "txnStatusCommit")
	c.begin, ok2 = pkgConstInt(w, "syncer", "txnStatusBegin")
	if !ok1 || !ok2 {
		r.Unresolved("syncer.txnStatus*", "transaction status constants not found")
		return nil
	}
	return c
}

// The sender closures take (wrap in a transaction, update the checkpoint, offset): as three
// parameters, or as one struct with two boolean fields and an int64 field in that order.

// reqFields: the field indices of the three roles when the batch sender takes a struct.
func (c *senderCtx) reqFields() ([3]int, *ssa.Parameter, bool) {
	var out [3]int
	if len(c.once.Params) != 1 {
		return out, nil, false
	}
	st, ok := c.once.Params[0].Type().Underlying().(*types.Struct)
	if !ok {
		return out, nil, false
	}
	nb, haveOff := 0, false
	for i := 0; i < st.NumFields(); i++ {
		b, isB := st.Field(i).Type().Underlying().(*types.Basic)
		if !isB {
			continue
		}
		switch {
		case b.Kind() == types.Bool && nb < 2:
			out[nb] = i
			nb++
		case b.Kind() == types.Int64 && !haveOff:
			out[2] = i
			haveOff = true
		}
	}
	return out, c.once.Params[0], nb == 2 && haveOff
}

// onceRole: a value standing for role k (0 wrap, 1 update, 2 offset) inside the batch sender:
// the parameter, or a read of the struct parameter's field (all reads of one field agree on a path).
func (c *senderCtx) onceRole(k int) ssa.Value {
	if len(c.once.Params) >= 3 {
		return c.once.Params[k]
	}
	idx, par, ok := c.reqFields()
	if !ok {
		return nil
	}
	for _, in := range core.OwnInstrs(c.once) {
		if f, isF := in.(*ssa.Field); isF && f.X == ssa.Value(par) && f.Field == idx[k] {
			return f
		}
		// or a read through the local variable the parameter was copied into
		if ld, isLd := in.(*ssa.UnOp); isLd && ld.Op == token.MUL {
			if fa, isFa := ld.X.(*ssa.FieldAddr); isFa && fa.Field == idx[k] && spillOf(fa.X) == ssa.Value(par) {
				return ld
			}
		}
	}
	return nil
}

// spillOf: the parameter whose copy the local variable a holds (its only whole store), or nil.
func spillOf(a ssa.Value) ssa.Value {
	al, ok := a.(*ssa.Alloc)
	if !ok {
		return nil
	}
	var src ssa.Value
	for _, r := range *al.Referrers() {
		if st, isSt := r.(*ssa.Store); isSt && st.Addr == ssa.Value(al) {
			if src != nil {
				return nil
			}
			src = st.Val
		}
	}
	if _, isP := src.(*ssa.Parameter); isP {
		return src
	}
	return nil
}

// flushArgsAt: what a call of the sender hands over for the three roles.
func (c *senderCtx) flushArgsAt(s core.Site) (args [3]ssa.Value, ok bool) {
	a := s.Common().Args
	if len(a) >= 3 {
		return [3]ssa.Value{a[len(a)-3], a[len(a)-2], a[len(a)-1]}, true
	}
	idx, _, isStruct := c.reqFields()
	if !isStruct || len(a) != 1 {
		return args, false
	}
	for k := 0; k < 3; k++ {
		v := structFieldAt(a[0], idx[k])
		if v == nil {
			return args, false
		}
		args[k] = v
	}
	return args, true
}

// structFieldAt: the value field idx has in the struct value v built by a composite literal
// (the stored value, or the zero value when the literal leaves the field out).
func structFieldAt(v ssa.Value, idx int) ssa.Value {
	ld, ok := core.Unwrap(v).(*ssa.UnOp)
	if !ok || ld.Op != token.MUL {
		return nil
	}
	al, ok := ld.X.(*ssa.Alloc)
	if !ok {
		return nil
	}
	st, ok := al.Type().Underlying().(*types.Pointer).Elem().Underlying().(*types.Struct)
	if !ok || idx >= st.NumFields() {
		return nil
	}
	var val ssa.Value
	for _, ref := range *al.Referrers() {
		fa, isFa := ref.(*ssa.FieldAddr)
		if !isFa || fa.Field != idx {
			continue
		}
		for _, rr := range *fa.Referrers() {
			if sto, isSt := rr.(*ssa.Store); isSt && sto.Addr == ssa.Value(fa) {
				if val != nil {
					return nil // assigned more than once: not a plain literal
				}
				val = sto.Val
			}
		}
	}
	if val == nil {
		return zeroConst(st.Field(idx).Type())
	}
	return val
}

func zeroConst(t types.Type) ssa.Value {
	if b, ok := t.Underlying().(*types.Basic); ok {
		switch {
		case b.Info()&types.IsBoolean != 0:
			return ssa.NewConst(constant.MakeBool(false), t)
		case b.Info()&types.IsInteger != 0:
			return ssa.NewConst(constant.MakeInt64(0), t)
		case b.Info()&types.IsString != 0:
			return ssa.NewConst(constant.MakeString(""), t)
		}
	}
	return nil
}

// structFieldSources: where field idx of the struct parameter par comes from: at every call of its
// function, the literal's field value, or the same field of a struct parameter handed on.
func structFieldSources(root *ssa.Function, par *ssa.Parameter, idx int, depth int) (vals []ssa.Value, at []*ssa.BasicBlock) {
	if depth > 3 {
		return nil, nil
	}
	f := par.Parent()
	k := -1
	for i, q := range f.Params {
		if q == par {
			k = i
		}
	}
	for _, g := range core.DeepFuncs(root) {
		for _, s := range core.Sites(g, false) {
			if s.Callee != f || s.Instr.Parent() != g {
				continue
			}
			a := s.Common().Args
			if k >= len(a) {
				continue
			}
			if q, isPar := core.Unwrap(a[k]).(*ssa.Parameter); isPar {
				v2, a2 := structFieldSources(root, q, idx, depth+1)
				vals, at = append(vals, v2...), append(at, a2...)
				continue
			}
			if v := structFieldAt(a[k], idx); v != nil {
				vals, at = append(vals, v), append(at, s.Instr.Block())
			}
		}
	}
	return vals, at
}

func (c *senderCtx) isItem(p *core.Path) func(ssa.Value) bool {
	return func(v ssa.Value) bool {
		if p != nil {
			v = p.Resolve(v)
		}
		return c.isItemVal(v)
	}
}

// isItemVal: v is the received item (the extracted value, its variable, or a load of it).
func (c *senderCtx) isItemVal(v ssa.Value) bool {
	v = core.Unwrap(v)
	if v == c.item {
		return true
	}
	if c.itemCell != nil {
		if v == ssa.Value(c.itemCell) {
			return true
		}
		if u, ok := v.(*ssa.UnOp); ok && u.Op == token.MUL && u.X == ssa.Value(c.itemCell) {
			return true
		}
	}
	return false
}

// isCurOffset: v is the Offset field of the item received in this iteration.
func (c *senderCtx) isCurOffset(p *core.Path, v ssa.Value) bool {
	v = core.Unwrap(p.Resolve(v))
	return fieldOf("Offset", c.isItem(p))(v)
}

func isTxnStatusVal(v ssa.Value) bool { return isResultOf("syncer.transactionStatus", 0)(v) }
func isTxnFlushVal(v ssa.Value) bool  { return isResultOf("syncer.transactionStatus", 1)(v) }

// appendsItem reports whether in is `append(queue, …item…)`.
func (c *senderCtx) appendedElems(in ssa.Instruction) ([]ssa.Value, bool) {
	call, ok := in.(*ssa.Call)
	if !ok {
		return nil, false
	}
	// a named piece of the loop that appends its argument: the call stands for the append
	if h := core.ResolveCall(call).Callee; h != nil && h != call.Parent() && c.isLoopHelper(h) {
		var out []ssa.Value
		for _, hin := range core.Instrs(h) {
			el, ok := c.appendedElems(hin)
			if !ok {
				continue
			}
			for _, e := range el {
				e = core.Unwrap(e)
				if u, isLd := e.(*ssa.UnOp); isLd && u.Op == token.MUL {
					// a parameter spilled to a cell
					if cell := core.Cell(u.X); cell != nil {
						for _, st := range core.CellStores(cell) {
							e = core.Unwrap(st.Val)
						}
					}
				}
				for k, par := range h.Params {
					if ssa.Value(par) == e && k < len(call.Call.Args) {
						out = append(out, call.Call.Args[k])
					}
				}
			}
		}
		if len(out) > 0 {
			return out, true
		}
		return nil, false
	}
	b, ok := call.Call.Value.(*ssa.Builtin)
	if !ok || b.Name() != "append" || len(call.Call.Args) != 2 {
		return nil, false
	}
	ld, ok := call.Call.Args[0].(*ssa.UnOp)
	if !ok || ld.Op != token.MUL || core.Cell(ld.X) != c.queue {
		return nil, false
	}
	el, ok := core.VariadicElems(call.Call.Args[1])
	if !ok {
		return nil, false
	}
	return el, true
}

// flushRole names a call of the retrying sender by what follows it.
func (c *senderCtx) flushRole(call ssa.Instruction) string {
	after := core.PathFrom(c.main, call, func(in ssa.Instruction) bool {
		el, ok := c.appendedElems(in)
		if !ok {
			return false
		}
		for _, e := range el {
			if c.isItemVal(e) {
				return true
			}
		}
		return false
	}, func(in ssa.Instruction) bool { return in == ssa.Instruction(c.sel) })
	if after != nil {
		return "flush-before-queue"
	}
	return "flush-after-queue"
}

// ------------------------------------------------------------------ C07

func init() {
	All["C07"] = c07
	core.Explanations["C07"] = "Decides necessary structural conditions of 'the stored resume position only moves forward along command boundaries': " +
		"(R07.1) no negative constant (the 'none yet' initialiser of the sender's last-offset variable) can reach the offset argument of the checkpoint HSET or the in-memory checkpoint without a dominating comparison that excludes it, followed inter-procedurally through the sender closures; " +
		"(R07.2) every non-constant origin of that argument is the Offset of an item received from the parser, and the parser computes item offsets as start offset + decoder offset; " +
		"(R07.3) full-sync completion stores the snapshot's own offset; (R07.4/R07.5) re-keying the checkpoint after a source id change writes the new position (in the old one's database) before deleting the old one on every path, so no intermediate state lacks the position. Not decided: monotonicity of the sequence of values written at run time across restarts."
}

// negReach follows v backwards (through phis, cells, closure parameters and
// their call sites) and returns a description of every negative constant that
// can reach it without a dominating comparison excluding negatives.
func negReach(w *core.World, root *ssa.Function, v ssa.Value, at *ssa.BasicBlock, seen map[string]bool, origins *[]ssa.Value) []string {
	return negReachG(w, root, v, at, seen, origins, false)
}

func negReachG(w *core.World, root *ssa.Function, v ssa.Value, at *ssa.BasicBlock, seen map[string]bool, origins *[]ssa.Value, guarded bool) []string {
	v = core.Unwrap(v)
	if at != nil && guardedNonNeg(at, v) {
		guarded = true
	}
	key := fmt.Sprintf("%p/%p/%v", v, at, guarded)
	if seen[key] {
		return nil
	}
	seen[key] = true
	negReach := func(w *core.World, root *ssa.Function, v ssa.Value, at *ssa.BasicBlock, seen map[string]bool, origins *[]ssa.Value) []string {
		return negReachG(w, root, v, at, seen, origins, guarded)
	}
	switch x := v.(type) {
	case *ssa.Const:
		if i, ok := core.ConstInt(x); ok && i < 0 && !guarded {
			return []string{fmt.Sprintf("constant %d", i)}
		}
		return nil
	case *ssa.Phi:
		var out []string
		for i, e := range x.Edges {
			out = append(out, negReach(w, root, e, x.Block().Preds[i], seen, origins)...)
		}
		return out
	case *ssa.Parameter:
		f := x.Parent()
		idx := -1
		for i, p := range f.Params {
			if p == x {
				idx = i
			}
		}
		var out []string
		n := 0
		for _, g := range core.DeepFuncs(root) {
			for _, s := range core.Sites(g, false) {
				if s.Callee != f {
					continue
				}
				n++
				args := s.Common().Args
				if idx < len(args) {
					out = append(out, negReach(w, root, args[idx], s.Instr.Block(), seen, origins)...)
				}
			}
		}
		if n == 0 {
			*origins = append(*origins, x)
		}
		return out
	case *ssa.Field:
		// a field of a struct parameter: what the callers put there
		if par, isPar := x.X.(*ssa.Parameter); isPar {
			vals, ats := structFieldSources(root, par, x.Field, 0)
			if len(vals) > 0 {
				var out []string
				for i, sv := range vals {
					out = append(out, negReach(w, root, sv, ats[i], seen, origins)...)
				}
				return out
			}
		}
	case *ssa.UnOp:
		if x.Op == token.MUL {
			if fa, isFa := x.X.(*ssa.FieldAddr); isFa {
				if par, isPar := spillOf(fa.X).(*ssa.Parameter); isPar {
					vals, ats := structFieldSources(root, par, fa.Field, 0)
					if len(vals) > 0 {
						var out []string
						for i, sv := range vals {
							out = append(out, negReach(w, root, sv, ats[i], seen, origins)...)
						}
						return out
					}
				}
			}
			if c := core.Cell(x.X); c != nil {
				var out []string
				for _, st := range core.CellStores(c) {
					out = append(out, negReach(w, root, st.Val, st.Block(), seen, origins)...)
				}
				return out
			}
		}
	}
	*origins = append(*origins, v)
	return nil
}

func guardedNonNeg(b *ssa.BasicBlock, v ssa.Value) bool {
	for _, f := range core.FactsAt(b) {
		c, ok := core.FactCmp(f)
		if !ok {
			continue
		}
		x, y, op := core.Unwrap(c.X), core.Unwrap(c.Y), c.Op
		if y == v { // c op' v
			x, y = y, x
			op = map[token.Token]token.Token{token.LSS: token.GTR, token.LEQ: token.GEQ, token.GTR: token.LSS, token.GEQ: token.LEQ,
				token.EQL: token.EQL, token.NEQ: token.NEQ}[op]
		}
		if x != v {
			continue
		}
		k, ok := core.ConstInt(y)
		if !ok {
			continue
		}
		if (op == token.GEQ && k >= 0) || (op == token.GTR && k >= -1) || (op == token.EQL && k >= 0) {
			return true
		}
	}
	return false
}

// checkpointOffsetSinks finds, in the sender closures, the values stored as
// the resume position: the argument after OffsetKey() in an HSET, and stores
// to the Offset field of the in-memory checkpoint.
func checkpointOffsetSinks(main *ssa.Function) (sinks []ssa.Value, at []ssa.Instruction, kinds []string) {
	for _, g := range core.DeepFuncs(main) {
		for _, s := range core.Sites(g, false) {
			if s.Method != "Put" && s.Method != "Do" && s.Method != "Send" {
				continue
			}
			cmd, ok := core.CmdName(s)
			if !ok || cmd != "hset" {
				continue
			}
			el, ok := core.CmdArgs(s)
			if !ok {
				continue
			}
			for i, e := range el {
				if isResultOf("*CheckpointInfo).OffsetKey", -1)(e) && i+1 < len(el) {
					sinks = append(sinks, el[i+1])
					at = append(at, s.Instr)
					kinds = append(kinds, "hset-offset")
				}
			}
		}
		for _, in := range core.Instrs(g) {
			st, ok := in.(*ssa.Store)
			if !ok {
				continue
			}
			fa, ok := st.Addr.(*ssa.FieldAddr)
			if !ok || core.FieldName(fa) != "Offset" || !strings.HasSuffix(core.TypeName(fa.X.Type()), "checkpoint.CheckpointInfo") {
				continue
			}
			sinks = append(sinks, st.Val)
			at = append(at, st)
			kinds = append(kinds, "in-memory-offset")
		}
	}
	return
}

func c07(w *core.World, r *core.Report) {
	c := newSenderCtx(w, r)
	r.Rule("R07.1", "no negative constant reaches a stored resume position without a dominating comparison excluding it (sentinel non-flow, inter-procedural over the sender closures)", 2)
	var allOrigins [][]ssa.Value
	var kinds []string
	if c != nil {
		sinks, at, ks := checkpointOffsetSinks(c.main)
		kinds = ks
		for i, v := range sinks {
			var origins []ssa.Value
			bad := negReach(w, c.main, v, at[i].Block(), map[string]bool{}, &origins)
			allOrigins = append(allOrigins, origins)
			cons := "sendCmdsBatch/" + kinds[i]
			if len(bad) > 0 {
				r.Fail(cons, at[i].Pos(), "%s can reach the stored resume position (an idle tick before the first item writes it): no dominating comparison excludes it", strings.Join(bad, ", "))
			} else {
				r.OK(cons, at[i].Pos(), "")
			}
		}
	}
	r.Rule("R07.2", "every non-constant origin of a stored resume position is the Offset of a received stream item; item offsets are start offset + decoder offset", 3)
	if c != nil {
		for i, origins := range allOrigins {
			cons := "sendCmdsBatch/" + kinds[i] + "/origin"
			okAll := len(origins) > 0
			for _, o := range origins {
				if !fieldOf("Offset", c.isItemVal)(o) {
					okAll = false
					r.Fail(cons, o.Pos(), "stored resume position can derive from %s (%s), which is not the offset of a consumed stream item", o.Name(), o.String())
				}
			}
			if okAll {
				r.OK(cons, token.NoPos, "")
			}
		}
	}
	checkItemOffsets(w, r, "(*syncer.RedisOutput).parseAofCommand")

	ruleUpdateCheckpoint(w, r, "R07.4", "R07.5")
	r.Rule("R07.7", "an offset is never stored without its run id: on every path of the batch sender the offset field is queued together with the run id fields, or into a database known to hold them", 1)
	if c != nil {
		ruleOffsetWithRunId(w, r, c)
	}
	r.Rule("R07.10", "the database said to hold the run-id fields already is the one the connection is in: the label the batch sender looks up is never the constant label of an item the sender made itself (keep-alive)", 1)
	if c != nil {
		ruleKnownDbIsConnectionDb(w, r, c)
	}
	r.Rule("R07.6", "the replay's start offset is the cache reader's reported position, and that is the requested offset (log reader) or the snapshot's own offset", 3)
	ruleReplayStartOffset(w, r)
	r.Rule("R17.10", "a running output adopts a new replication id only after its checkpoint was moved there (shared with C17)", 1)
	ruleRunIdAdoptedAfterMove(w, r)
	r.Rule("R17.11", "a failed look-up of the stored position surfaces as an error, never as 'nothing stored' (shared with C17)", 3)
	ruleLookupErrorsSurface(w, r)
	r.Rule("R17.3", "stale-checkpoint collection never removes the newest entry of an id a source still reports: the stored position would fall back to an older one (shared with C17)", 4)
	ruleStaleGC(w, r)
	r.Rule("R12.1", "the offsets stored are command boundaries only if the decoder counts every byte it consumes (shared with C12)", 4)
	for _, df := range decoderMethods(w) {
		r.Analysed(core.FuncName(df))
		ruleReadOffsetPairing(w, r, df)
	}
	r.Rule("R07.3", "full-sync completion stores the snapshot's offset (reader.Left()) and nothing else", 1)
	if f := fn(w, r, "(*syncer.RedisOutput).sendRdb"); f != nil {
		n := 0
		for _, s := range core.SitesNamed(f, false, "(*syncer.RedisOutput).setCheckpoint") {
			n++
			args := s.Args()
			ok := len(args) >= 3 && isIfaceCall(args[2], "ChannelReader.Left") && isIfaceCall(args[1], "ChannelReader.RunId")
			r.Check(ok, "sendRdb/setCheckpoint", s.Pos(), "setCheckpoint must be given reader.RunId() and reader.Left()")
		}
		if n == 0 {
			r.Fail("sendRdb/setCheckpoint", f.Pos(), "no checkpoint write at the end of the snapshot replay")
		}
	}
	// the (re)connection decisions of syncMeta decide what happens to the stored position (shared with C06)
	r.Rule("R06.3", "PSYNC argument choice and cache clearing on every successful path of syncMeta (shared with C06)", 3)
	r.Rule("R06.4", "reader start / writer offset / snapshot size definitions on every successful path of syncMeta (shared with C06)", 2)
	r.Rule("R06.6", "one id for cache and bookkeeping; CONTINUE keeps the source's current id (shared with C06)", 2)
	r.Rule("R06.10", "a full resynchronisation does not carry the target's old position over to the new replication id (shared with C06)", 2)
	r.Rule("R06.14", "a granted continuation keeps the position the target holds: the output is told to drop it only on a full resynchronisation (shared with C06)", 1)
	ruleSyncMetaPaths(w, r)
	r.Rule("R07.8", "every flush stores the one running position (the end offset of the last item taken, pings included) or the received item's own offset", 2)
	ruleFlushOffsetsFollowEveryItem(w, r, c)
	r.Rule("R07.9", "the database a checkpoint is accounted to is the database of the last command queued in the same batch: the per-database set that lets an offset go without its run id is asked and told about nothing else (a database remembered from an earlier batch is 0 after a keep-alive; seed C07-13)", 1)
	if c != nil {
		ruleCheckpointDbFromBatch(w, r, c)
	}
	r.Rule("R06.13", "a full resynchronisation under a new id starts from the 'none yet' marker and from nothing else: the old id's records are removed from every database before the marker is written and a failed removal ends the drop, or the new history inherits an offset of the previous one - a stored position that is no command boundary of the history replayed, followed by smaller ones (shared with C06; seed C07-14)", 1)
	ruleDropRemovesEveryRecord(w, r)
}

func isIfaceCall(v ssa.Value, suffix string) bool {
	c, ok := core.Unwrap(v).(*ssa.Call)
	if !ok {
		return false
	}
	return strings.HasSuffix(core.ResolveCall(c).Name, suffix)
}

// checkItemOffsets: every cmdExecution sent on the channel by the parser has
// Offset = startOffset (+ decoder offset of the same iteration).
func checkItemOffsets(w *core.World, r *core.Report, name string) {
	f := fn(w, r, name)
	if f == nil {
		return
	}
	start := paramOf(f, "int64", "startOffset")
	n := 0
	for _, in := range core.Instrs(f) {
		st, ok := in.(*ssa.Store)
		if !ok {
			continue
		}
		fa, ok := st.Addr.(*ssa.FieldAddr)
		if !ok || core.FieldName(fa) != "Offset" || !strings.HasSuffix(core.TypeName(fa.X.Type()), "syncer.cmdExecution") {
			continue
		}
		n++
		r.Check(isStartPlusDecoded(st.Val, start), "parseAofCommand/item-offset", st.Pos(),
			"item offset must be startOffset + the decoder's offset result of the same iteration, found %s", st.Val.String())
	}
	for _, s := range core.SitesNamed(f, false, "syncer.buildSelectCmdExecution") {
		a := s.Args()
		if len(a) != 2 {
			continue
		}
		n++
		var dec ssa.Instruction
		for _, d := range core.SitesNamed(f, false, "pkg/redis/client.MustDecodeOpt") {
			dec = d.Instr
		}
		at := s.Instr
		if at.Parent() != f {
			for _, cs := range callSitesOf(w, at.Parent()) {
				if cs.Parent() == f {
					at = cs.(ssa.CallInstruction)
				}
			}
		}
		inLoopSel := dec != nil && core.PathFrom(f, dec, core.Is(at), nil) != nil
		for _, off := range argValues(a[1], f) {
			if inLoopSel {
				r.Check(isStartPlusDecoded(off, start), "parseAofCommand/select-offset", s.Pos(), "a SELECT forwarded from the stream must carry startOffset + decoder offset of the same iteration (its own end), found %s", off.String())
			} else {
				r.Check(core.Unwrap(off) == ssa.Value(start), "parseAofCommand/resume-select-offset", s.Pos(), "the resume SELECT emitted before decoding must carry the start offset, found %s", off.String())
			}
		}
	}
	if n == 0 {
		r.Fail("parseAofCommand/item-offset", f.Pos(), "no item offset definition found")
	}
}

func isStartPlusDecoded(v ssa.Value, start *ssa.Parameter) bool {
	b, ok := core.Unwrap(v).(*ssa.BinOp)
	if !ok || b.Op != token.ADD {
		return false
	}
	x, y := core.Unwrap(b.X), core.Unwrap(b.Y)
	dec := isResultOf("pkg/redis/client.MustDecodeOpt", 1)
	return (x == ssa.Value(start) && dec(y)) || (y == ssa.Value(start) && dec(x))
}

// ------------------------------------------------------------------ C02 / C09 shared path rules

// flushEvent is a call of the retrying sender seen on a path.
type flushEvent struct {
	site     core.Site
	appended bool // the received item was queued before the call on this path
}

// walkSenderPaths enumerates the paths of one loop iteration of the sender.
func (c *senderCtx) walkSenderPaths(r *core.Report, cons string, yield func(p *core.Path)) bool {
	ok := core.EnumPaths(c.head, 0, 200000, yield)
	if !ok {
		r.Undecided(cons, c.head.Instrs[0].Pos(), "more than 200000 paths through one sender iteration: rule cannot enumerate them")
	}
	return ok
}

func (c *senderCtx) sendCalls(p *core.Path, each func(s core.Site, appended bool, idx int)) {
	appended := false
	for i, in := range p.Instrs {
		if el, ok := c.appendedElems(in); ok {
			for _, e := range el {
				if c.isItemVal(p.Resolve(e)) {
					appended = true
				}
			}
		}
		if ci, ok := in.(*ssa.Call); ok {
			s := core.ResolveCall(ci)
			if s.Callee == c.send {
				each(s, appended, i)
			}
		}
	}
}

// receivedOnPath: the path took the receive case with ok == true.
func (c *senderCtx) receivedOnPath(p *core.Path) bool {
	cb := caseBlock(c.sel, c.recvState)
	for _, b := range p.Blocks {
		if b == cb {
			return true
		}
	}
	return false
}

func init() {
	All["C02"] = c02
	core.Explanations["C02"] = "Decides necessary structural conditions of 'a crash at any instant loses no source write; transactional mode repeats none': " +
		"(R02.1) in transactional mode the batch sender puts MULTI, the queued commands, the checkpoint HSET and EXEC, in that order, on one batcher value before the single Exec/Dispatch; (R02.2) in ticker mode the checkpoint HSET is queued after the batch on the same batcher; " +
		"(R02.3) on every path of a sender iteration, a flush whose offset argument is the offset of the item received in that iteration happens only after the item was queued, or for a keep-alive, or on the EXEC edge (the stored position never covers an unexecuted SELECT/MULTI); " +
		"(R02.4) the start point keeps the checkpoint's database and the parser re-selects it before decoding; (R02.5) the newest checkpoint wins by (offset, mtime); (R02.6) the barrier flush precedes queuing of the barrier and its error edge returns. " +
		"Not decided: the set of target request histories for arbitrary crash points."
	All["C09"] = c09
	core.Explanations["C09"] = "Decides necessary structural conditions of 'a source transaction reaches the target as one atomic transaction': " +
		"(R09.1) in transactional mode every flush on a sender-iteration path is either triggered by the transaction state machine's own flush result or happens with the in-transaction flag known false; (R09.2) the flag is cleared only after a successful flush; " +
		"(R09.3) the state machine flushes inside a transaction only on EXEC and its command table is {select,multi,exec}; (R09.4) the resume position never lands between MULTI and EXEC (overshoot rule on the MULTI barrier); (R09.5) MULTI…checkpoint…EXEC ordering on one batcher. " +
		"Not decided: the target's executed history at run time."
}

// ruleOvershoot is R02.3 / R09.4.
func ruleOvershoot(w *core.World, r *core.Report, c *senderCtx, onlyBarrierKinds bool) {
	type verdict struct {
		pos  token.Pos
		bad  string
		seen int
	}
	res := map[string]*verdict{}
	c.walkSenderPaths(r, "sendCmdsBatch/paths", func(p *core.Path) {
		if !c.receivedOnPath(p) {
			return
		}
		c.sendCalls(p, func(s core.Site, appended bool, _ int) {
			role := c.flushRole(s.Instr)
			cons := "sendCmdsBatch/" + role
			v := res[cons]
			if v == nil {
				v = &verdict{pos: s.Pos()}
				res[cons] = v
			}
			v.seen++
			fa, okArgs := c.flushArgsOnPath(p, s)
			if !okArgs {
				v.bad = "the sender's call does not hand over (wrap, update checkpoint, offset) in a recognised form"
				return
			}
			if !c.isCurOffset(p, fa[2]) {
				return
			}
			if appended {
				return
			}
			if p.Holds(token.EQL, fieldOf("Cmd", c.isItem(p)), isConstStr("ping")) {
				return
			}
			if p.Holds(token.EQL, isTxnStatusVal, isConstInt(c.commit)) {
				return
			}
			if v.bad == "" {
				what := "an item that was not queued"
				if p.Holds(token.EQL, isTxnStatusVal, isConstInt(c.begin)) {
					what = "the MULTI that opens a transaction (resume would land inside the transaction)"
				}
				v.bad = "the flush stores the end offset of " + what + ": the batch committed here does not contain it, so a restart skips it; allowed only after the item is queued, for ping, or on the EXEC edge"
			}
		})
	})
	for cons, v := range res {
		if v.bad != "" {
			r.Fail(cons, v.pos, "%s", v.bad)
		} else {
			r.OK(cons, v.pos, "%d path instance(s)", v.seen)
		}
	}
}

func c02(w *core.World, r *core.Report) {
	c := newSenderCtx(w, r)
	r.Rule("R02.1", "transactional batch: MULTI ≺ queued commands ≺ checkpoint HSET ≺ EXEC ≺ Exec/Dispatch on one batcher value, on every path of the batch sender", 1)
	if c != nil {
		ruleBatchOrder(w, r, c, true)
	}
	r.Rule("R02.2", "ticker mode: checkpoint HSET is queued after the batch on the same batcher, before the single Exec/Dispatch", 1)
	if c != nil {
		ruleBatchOrder(w, r, c, false)
	}
	r.Rule("R02.3", "a flush never stores the offset of the current item unless the item is queued, is a keep-alive, or is the EXEC that closes a queued transaction (all paths of one sender iteration, constant flags pruned)", 2)
	if c != nil {
		ruleOvershoot(w, r, c, false)
	}
	r.Rule("R02.7", "transactional mode: every flush of queued commands is sent inside MULTI/EXEC; only the keep-alive ping queued into an empty queue may go bare (all paths of one sender iteration)", 1)
	if c != nil {
		ruleTxnFlushWrapped(w, r, c)
	}
	r.Rule("R02.4", "resume database: StartPoint keeps GetCheckpoint's database; the parser emits SELECT(startDbId) before decoding", 3)
	ruleResumeDb(w, r)
	ruleDbTracking(w, r) // after a resume the parser must not assume a database (shared with R01.6)
	r.Rule("R02.5", "newest checkpoint wins: replacement only under Offset greater, or equal with newer Mtime", 1)
	ruleNewestCheckpoint(w, r)
	r.Rule("R02.6", "barrier flush precedes queuing of the barrier item and its error edge returns", 2)
	if c != nil {
		ruleBarrierFlush(w, r, c)
	}
	// a restart resumes at the stored position, in the stored database, from the right place of the stream:
	// the re-keying rules of C17, the (re)connection decision rules of C06 and the mode wiring of C09 are
	// obligations of C02 as well
	ruleUpdateCheckpoint(w, r, "R17.1", "R17.2")
	r.Rule("R06.3", "PSYNC argument choice and cache clearing on every successful path of syncMeta (shared with C06)", 3)
	r.Rule("R06.4", "reader start / writer offset / snapshot size definitions on every successful path of syncMeta (shared with C06)", 2)
	r.Rule("R06.6", "one id for cache and bookkeeping; CONTINUE keeps the source's current id (shared with C06)", 2)
	r.Rule("R06.10", "a full resynchronisation does not carry the target's old position over to the new replication id (shared with C06)", 2)
	r.Rule("R06.14", "a granted continuation keeps the position the target holds (shared with C06)", 1)
	ruleSyncMetaPaths(w, r)
	r.Rule("R10.1", "nothing is forwarded while the source is in a withheld database: the offset a forwarded item carries would move the stored position past the database switch that was withheld, and a restart resumes in the wrong database (shared with C10)", 4)
	ruleForwardConsultsFilters(w, r)
	r.Rule("R09.7", "the transaction mode the sender runs in is the output's CanTransaction (shared with C09)", 1)
	if c != nil {
		ruleTxnModeWiring(w, r, c)
	}
	r.Rule("R09.3", "inside a source transaction only EXEC requests a flush: a flush at any other command commits a resume position between MULTI and EXEC (shared with C09)", 6)
	ruleTxnStateMachine(w, r)
	r.Rule("R02.8", "transactional mode: no flush stores a resume position while a source transaction is open, other than the flush the state machine requests at EXEC: the position would cover the consumed MULTI, which the target has not received (all paths of one sender iteration; seed C02-13)", 2)
	if c != nil {
		ruleNoPositionInsideOpenTxn(w, r, c)
	}
}

// batcher events of one path of sendFuncOnce
type batEvent struct {
	kind string // multi, exec, queue, hset-meta, hset-offset, other:<cmd>, run
	site core.Site
}

func ruleBatchOrder(w *core.World, r *core.Report, c *senderCtx, txn bool) {
	once := c.once
	if len(once.Blocks) == 0 {
		return
	}
	inTxn := c.onceRole(0)
	if inTxn == nil || !types.Identical(inTxn.Type().Underlying(), types.Typ[types.Bool]) {
		r.Unresolved("sendFuncOnce/shouldInTransaction", "first parameter of the batch sender is not the in-transaction flag")
		return
	}
	cons := "sendFuncOnce/txn-order"
	if !txn {
		cons = "sendFuncOnce/ticker-order"
	}
	paths, bad := 0, ""
	var badPos token.Pos
	okEnum := core.EnumPathsN(once.Blocks[0], 0, 400000, core.Unroll, func(p *core.Path) {
		v, known := p.Eval(inTxn)
		if !known || v != txn {
			return
		}
		var ev []batEvent
		var bat ssa.Value
		for _, in := range p.Instrs {
			ci, ok := in.(ssa.CallInstruction)
			if !ok {
				continue
			}
			s := core.ResolveCall(ci)
			switch {
			case strings.HasSuffix(s.Name, "Redis.NewBatcher"):
				bat = s.Value()
				ev = nil
			case strings.HasSuffix(s.Name, "CmdBatcher.Put"):
				k := "queue"
				if cmd, ok := core.CmdName(s); ok {
					k = "other:" + cmd
					switch cmd {
					case "multi", "exec":
						k = cmd
					case "hset":
						k = "hset-meta"
						if el, ok := core.CmdArgs(s); ok {
							for _, e := range el {
								if isResultOf("*CheckpointInfo).OffsetKey", -1)(e) {
									k = "hset-offset"
								}
							}
						}
					}
				}
				if p.Resolve(s.Recv()) != bat {
					k = "foreign:" + k
				}
				ev = append(ev, batEvent{k, s})
			case strings.HasSuffix(s.Name, "CmdBatcher.Exec") || strings.HasSuffix(s.Name, "CmdBatcher.Dispatch"):
				k := "run"
				if p.Resolve(s.Recv()) != bat {
					k = "foreign:run"
				}
				ev = append(ev, batEvent{k, s})
			}
		}
		// only paths that send something
		ran := false
		for _, e := range ev {
			if e.kind == "run" || e.kind == "foreign:run" {
				ran = true
			}
		}
		if !ran {
			return
		}
		paths++
		if bad != "" {
			return
		}
		// expected shape
		i := 0
		next := func() string {
			if i < len(ev) {
				return ev[i].kind
			}
			return "<end>"
		}
		fail := func(msg string) {
			bad = msg + " (sequence: " + kindsOf(ev) + ")"
			if i < len(ev) {
				badPos = ev[i].site.Pos()
			} else if len(ev) > 0 {
				badPos = ev[len(ev)-1].site.Pos()
			}
		}
		if txn {
			if next() != "multi" {
				fail("transactional batch does not start with MULTI")
				return
			}
			i++
		}
		for next() == "queue" {
			i++
		}
		if next() == "hset-meta" {
			i++
		}
		sawOffset := false
		if next() == "hset-offset" {
			sawOffset = true
			i++
		}
		if txn {
			if next() != "exec" {
				fail("expected EXEC after the queued commands and the checkpoint write, found " + next())
				return
			}
			i++
		}
		if next() != "run" {
			fail("expected the single Exec/Dispatch, found " + next())
			return
		}
		i++
		if next() != "<end>" {
			fail("batcher used again after Exec/Dispatch: " + next())
			return
		}
		// when the path updates the checkpoint on the target, the offset write must be present
		upd := false
		if updV := c.onceRole(1); updV != nil {
			if v, ok := p.Eval(updV); ok && v {
				upd = true
			}
		}
		if upd && !sawOffset && pathEnablesResume(p) {
			fail("checkpoint update requested and resume enabled, but no offset HSET is queued in the batch")
		}
	})
	if !okEnum {
		r.Undecided(cons, once.Pos(), "too many paths through the batch sender")
		return
	}
	if paths == 0 {
		r.Fail(cons, once.Pos(), "no path of the batch sender reaches Exec/Dispatch in this mode")
		return
	}
	if bad != "" {
		r.Fail(cons, badPos, "%s", bad)
		return
	}
	r.OK(cons, once.Pos(), "%d sending path(s)", paths)
}

// pathEnablesResume: the path took the true edge of the
// cfg.EnableResumeFromBreakPoint test.
func pathEnablesResume(p *core.Path) bool {
	for _, f := range p.Conds {
		if core.IsFieldLoad(core.Unwrap(f.Cond), "", "EnableResumeFromBreakPoint") && f.Val {
			return true
		}
	}
	return false
}

func kindsOf(ev []batEvent) string {
	var s []string
	for _, e := range ev {
		s = append(s, e.kind)
	}
	return strings.Join(s, " ")
}

func ruleResumeDb(w *core.World, r *core.Report) {
	// (a) checkpoint(): second result of GetCheckpoint is returned as dbid
	if f := fn(w, r, "(*syncer.RedisOutput).checkpoint"); f != nil {
		ok := false
		for _, in := range core.Instrs(f) {
			ret, isRet := in.(*ssa.Return)
			if !isRet || len(ret.Results) < 2 {
				continue
			}
			if core.DependsOn(core.RetVal(ret, 1), isResultOf("pkg/redis/checkpoint.GetCheckpoint", 1)) {
				ok = true
			}
		}
		r.Check(ok, "RedisOutput.checkpoint/dbid", f.Pos(), "the database returned by GetCheckpoint does not reach the caller")
	}
	// (b) StartPoint stores it into startDbId and returns it as DbId
	if f := fn(w, r, "(*syncer.RedisOutput).StartPoint"); f != nil {
		stored := false
		for _, g := range reachableFuncs(f) {
			if g != f && !(core.Transparent != nil && core.Transparent(g)) {
				continue
			}
			for _, in := range core.OwnInstrs(g) {
				st, ok := in.(*ssa.Store)
				if !ok {
					continue
				}
				if fa, ok := st.Addr.(*ssa.FieldAddr); ok && core.FieldName(fa) == "startDbId" {
					if core.DependsOn(st.Val, isResultOf("(*syncer.RedisOutput).checkpoint", 1)) {
						stored = true
					}
				}
			}
		}
		r.Check(stored, "RedisOutput.StartPoint/startDbId", f.Pos(), "the checkpoint's database is not stored as the database to re-select on resume")
		// ... on every path that returns a start point taken from the checkpoint (the output object is
		// reused across in-process restarts, so a skipped store leaves the previous run's database)
		// decided on paths, so that the two modes of StartPoint may live in methods of their own: a path that
		// found a checkpoint (its first result tested non-nil) and returns without an error has stored the
		// checkpoint's database
		n := 0
		bad := ""
		var badPos token.Pos = f.Pos()
		isCp := func(s core.Site) bool { return s.Name == "(*syncer.RedisOutput).checkpoint" }
		okEnum := core.EnumPathsN(f.Blocks[0], 0, 200000, 1, func(p *core.Path) {
			ret, isRet := p.End.(*ssa.Return)
			if !isRet || ret.Parent() != f || bad != "" || len(ret.Results) < 2 || !pathNil(p, ret.Results[len(ret.Results)-1]) {
				return
			}
			var cp core.Site
			for _, s := range pathSites(p) {
				if isCp(s) {
					cp = s
				}
			}
			if cp.Instr == nil {
				return
			}
			cpi := extractOf(cp.Value(), 0)
			if cpi == nil || pathNil(p, cpi) {
				return // nothing stored: the initial start point
			}
			n++
			stored := false
			for _, in := range p.Instrs {
				st, ok := in.(*ssa.Store)
				if !ok {
					continue
				}
				if fa, ok := st.Addr.(*ssa.FieldAddr); ok && core.FieldName(fa) == "startDbId" {
					if e, isE := core.Unwrap(p.Resolve(st.Val)).(*ssa.Extract); isE && e.Tuple == cp.Value() && e.Index == 1 {
						stored = true
					}
				}
			}
			if !stored {
				bad, badPos = "a start point taken from the checkpoint is returned on a path that did not store the checkpoint's database: a later restart re-selects a stale database", ret.Pos()
			}
		})
		if !okEnum {
			r.Undecided("RedisOutput.StartPoint/startDbId-unconditional", f.Pos(), "too many paths")
		} else if n == 0 {
			r.Fail("RedisOutput.StartPoint/startDbId-unconditional", f.Pos(), "no return of a checkpoint-derived start point found")
		} else {
			r.Check(bad == "", "RedisOutput.StartPoint/startDbId-unconditional", badPos, "%s", bad)
		}
	}
	// (c) the parser emits select(startDbId) before the decode loop
	if f := fn(w, r, "(*syncer.RedisOutput).parseAofCommand"); f != nil {
		var first ssa.Instruction
		for _, s := range core.SitesNamed(f, false, "pkg/redis/client.MustDecodeOpt") {
			first = s.Instr
		}
		ok := false
		var pos token.Pos = f.Pos()
		for _, s := range core.SitesNamed(f, false, "syncer.buildSelectCmdExecution") {
			a := s.Args()
			if len(a) == 2 && core.IsFieldLoad(core.Unwrap(a[0]), "RedisOutput", "startDbId") {
				pos = s.Pos()
				// executed before the loop: the call's block is not reachable from the decode call
				if first != nil && core.PathFrom(f, first, core.Is(s.Instr), nil) == nil {
					// and its guard is startDbId > 0 (or >= 0)
					ok = true
				}
			}
		}
		r.Check(ok, "parseAofCommand/resume-select", pos, "no SELECT of the stored resume database is emitted before the decode loop")
	}
}

func ruleNewestCheckpoint(w *core.World, r *core.Report) {
	f := fn(w, r, "pkg/redis/checkpoint.GetCheckpoint")
	if f == nil {
		return
	}
	// the loop that visits the databases: the one calling fetchCheckpoint
	var fetch core.Site
	for _, s := range core.SitesNamed(f, false, "pkg/redis/checkpoint.fetchCheckpoint") {
		fetch = s
	}
	// the election: the loop in which the best record so far is overwritten by a whole-record copy of
	// another one (`*best = *cand`), in GetCheckpoint or in a helper it hands the fetched records to
	var replaceSt *ssa.Store
	for _, g := range reachableFuncs(f) {
		if g != f && !(core.Transparent != nil && core.Transparent(g)) {
			continue
		}
		for _, in := range core.OwnInstrs(g) {
			st, ok := in.(*ssa.Store)
			if !ok {
				continue
			}
			ld, ok := st.Val.(*ssa.UnOp)
			if ok && ld.Op == token.MUL && strings.HasSuffix(core.TypeName(ld.Type()), "checkpoint.CheckpointInfo") && core.LoopHeadOf(st.Block()) != nil {
				replaceSt = st
			}
		}
	}
	if fetch.Instr == nil || replaceSt == nil {
		r.Undecided("GetCheckpoint/newest", f.Pos(), "the loop over the databases (calling fetchCheckpoint) or the election of the newest record was not found")
		return
	}
	head := core.LoopHeadOf(replaceSt.Block())
	candPtr := core.Unwrap(replaceSt.Val.(*ssa.UnOp).X)
	var curPath *core.Path
	isCand := func(v ssa.Value) bool {
		v = core.Unwrap(v)
		if e, ok := v.(*ssa.Extract); ok && e.Index == 0 && e.Tuple == fetch.Value() {
			return true
		}
		if v == candPtr {
			return true
		}
		if curPath == nil {
			return false
		}
		if v == core.Unwrap(curPath.Resolve(candPtr)) || curPath.Canon(v) == curPath.Canon(candPtr) {
			return true
		}
		// two loads of the same location (the loop's element variable is read more than once)
		lv, ok1 := v.(*ssa.UnOp)
		lc, ok2 := candPtr.(*ssa.UnOp)
		return ok1 && ok2 && lv.Op == token.MUL && lc.Op == token.MUL && core.CanonAddr(lv.X) == core.CanonAddr(lc.X)
	}
	classify := func(p *core.Path, v ssa.Value) string {
		curPath = p
		ld, ok := core.Unwrap(p.Resolve(v)).(*ssa.UnOp)
		if !ok || ld.Op != token.MUL {
			return ""
		}
		fa, ok := ld.X.(*ssa.FieldAddr)
		if !ok {
			return ""
		}
		dim := map[string]string{"Offset": "A", "Mtime": "B"}[core.FieldName(fa)]
		if dim == "" {
			return ""
		}
		base := core.Unwrap(p.Resolve(fa.X))
		if isCand(base) {
			return "c" + dim
		}
		return "b" + dim
	}
	// the best so far is replaced by a whole-record copy of the candidate
	isReplace := func(in ssa.Instruction) bool {
		st, ok := in.(*ssa.Store)
		if !ok {
			return false
		}
		ld, ok := st.Val.(*ssa.UnOp)
		return ok && ld.Op == token.MUL && strings.HasSuffix(core.TypeName(ld.Type()), "checkpoint.CheckpointInfo")
	}
	rep, paths, okEnum := orderingTable(head, isReplace, classify)
	if !okEnum || paths == 0 {
		r.Undecided("GetCheckpoint/newest", f.Pos(), "no path of the loop replaces the best record by the candidate (paths=%d)", paths)
		return
	}
	var wrong []string
	names := []string{"<", "=", ">"}
	for a := 0; a < 3; a++ {
		for b := 0; b < 3; b++ {
			want := a == 2 || (a == 1 && b == 2)
			if rep[a][b] != want {
				wrong = append(wrong, fmt.Sprintf("offset %s, mtime %s: replaced=%v", names[a], names[b], rep[a][b]))
			}
		}
	}
	r.Check(len(wrong) == 0, "GetCheckpoint/newest", head.Instrs[0].Pos(), "the record kept must be the one with the greatest offset, the newer modification time deciding equal offsets; decided over the nine orderings of (candidate offset ? best offset, candidate mtime ? best mtime), wrong for: %v", wrong)
}

func fieldNameOfLoad(v ssa.Value) string {
	v = core.Unwrap(v)
	switch x := v.(type) {
	case *ssa.Field:
		return core.FieldName(x)
	case *ssa.UnOp:
		if x.Op == token.MUL {
			if fa, ok := x.X.(*ssa.FieldAddr); ok {
				return core.FieldName(fa)
			}
		}
	}
	return ""
}

func ruleBarrierFlush(w *core.World, r *core.Report, c *senderCtx) {
	// every send call: error edge returns the error
	for _, s := range core.Sites(c.main, false) {
		if s.Callee != c.send {
			continue
		}
		role := c.flushRole(s.Instr)
		call := s.Value()
		// the block following the call tests err != nil and returns it
		ok := false
		for _, ref := range *call.Referrers() {
			b, isB := ref.(*ssa.BinOp)
			if !isB || b.Op != token.NEQ || !core.IsNilConst(b.Y) {
				continue
			}
			for _, r2 := range *b.Referrers() {
				iff, isIf := r2.(*ssa.If)
				if !isIf {
					continue
				}
				t := iff.Block().Succs[0]
				for _, in := range t.Instrs {
					if ret, isRet := in.(*ssa.Return); isRet && len(ret.Results) == 1 {
						for _, rv := range core.RetVals(ret, 0) {
							if rv == call {
								ok = true
							}
						}
					}
				}
			}
		}
		r.Check(ok, "sendCmdsBatch/"+role+"/error-edge", s.Pos(), "a failed flush must end the sender with that error")
	}
	// in transactional mode a flush requested by the state machine happens before the item is queued
	found := false
	for _, s := range core.Sites(c.main, false) {
		if s.Callee == c.send && c.flushRole(s.Instr) == "flush-before-queue" {
			found = true
			txn := c.txnModeParam()
			hasTxn, hasFlush := false, false
			for _, f := range core.FactsAt(s.Instr.Block()) {
				if f.Val && txn != nil && core.Unwrap(f.Cond) == ssa.Value(txn) {
					hasTxn = true
				}
				if f.Val && isTxnFlushVal(f.Cond) {
					hasFlush = true
				}
			}
			r.Check(hasTxn && hasFlush, "sendCmdsBatch/flush-before-queue/guard", s.Pos(),
				"the pre-barrier flush must be taken exactly when transactional mode is on and the state machine asks for a flush")
		}
	}
	if !found {
		r.Fail("sendCmdsBatch/flush-before-queue/guard", c.main.Pos(), "no flush of the pending batch before a barrier item is queued")
	}
}

// ------------------------------------------------------------------ C09

func c09(w *core.World, r *core.Report) {
	c := newSenderCtx(w, r)
	r.Rule("R09.1", "transactional mode: every flush on a sender-iteration path is requested by the transaction state machine or happens with the in-transaction flag false", 2)
	if c != nil {
		ruleNoFlushInTxn(w, r, c)
	}
	r.Rule("R09.2", "the in-transaction flag is cleared only after a successful flush", 1)
	if c != nil {
		ruleClearAfterFlush(w, r, c)
	}
	r.Rule("R09.3", "state machine: inside a transaction a flush is requested only on EXEC; outside, the result is the command-table lookup for every state; command table is {select: barrier, multi: begin, exec: commit}", 6)
	ruleTxnStateMachine(w, r)
	r.Rule("R09.4", "resume never lands inside a transaction (overshoot rule, see R02.3)", 2)
	if c != nil {
		ruleOvershoot(w, r, c, true)
	}
	r.Rule("R09.5", "MULTI ≺ commands ≺ checkpoint ≺ EXEC on one batcher (see R02.1)", 1)
	if c != nil {
		ruleBatchOrder(w, r, c, true)
	}
	r.Rule("R09.8", "transactional replay is the default in every replay mode: an omitted replayTransaction is normalised to true, unconditionally", 1)
	ruleTxnDefault(w, r)
	r.Rule("R09.7", "the transaction mode the sender runs in is the output's CanTransaction, and nothing narrower", 1)
	if c != nil {
		ruleTxnModeWiring(w, r, c)
	}
	r.Rule("R09.6", "transactional mode: every flush of queued commands, in every iteration, is sent inside MULTI/EXEC (see R02.7)", 1)
	if c != nil {
		ruleTxnFlushWrapped(w, r, c)
	}
	r.Rule("R10.3", "the key filter rejects a command only for its keys: MULTI and EXEC (no keys) always pass, or the sender never sees the brackets and cuts the transaction into batches (shared with C10)", 3)
	ruleProjection(w, r)
}

// txnModeParam: of the sender's two boolean parameters one selects the kind of
// batcher (it is NewBatcher's argument); the other one is the transaction mode.
func (c *senderCtx) txnModeParam() *ssa.Parameter {
	pipeline := map[ssa.Value]bool{}
	for _, g := range core.DeepFuncs(c.main) {
		for _, s := range core.SitesNamed(g, false, "*Redis.NewBatcher") {
			for _, a := range s.Args() {
				v := core.Unwrap(a)
				if fv, ok := v.(*ssa.FreeVar); ok {
					if b := core.Binding(fv); b != nil {
						v = core.Unwrap(b)
					}
				}
				if u, ok := v.(*ssa.UnOp); ok && u.Op == token.MUL {
					if cell := core.Cell(u.X); cell != nil {
						for _, st := range core.CellStores(cell) {
							pipeline[core.Unwrap(st.Val)] = true
						}
					}
				}
				pipeline[v] = true
			}
		}
	}
	var out []*ssa.Parameter
	for _, p := range c.main.Params {
		if b, ok := p.Type().Underlying().(*types.Basic); ok && b.Kind() == types.Bool && !pipeline[p] {
			out = append(out, p)
		}
	}
	if len(out) == 1 {
		return out[0]
	}
	return param(c.main, "transactionMode")
}

// flagPhis: the loop-carried boolean flags of the main loop, by role.
//   - the in-transaction flag is set to true exactly on the edge taken when the
//     state machine reports "transaction begins";
//   - the flush request is the flag whose value the state machine's second
//     result flows into.
func (c *senderCtx) inTxnPhi() *ssa.Phi {
	var cands []*ssa.Phi
	for _, in := range c.head.Instrs {
		ph, ok := in.(*ssa.Phi)
		if !ok {
			continue
		}
		if b, isB := ph.Type().Underlying().(*types.Basic); !isB || b.Kind() != types.Bool {
			continue
		}
		if c.phiSetTrueUnderBegin(ph, map[*ssa.Phi]bool{}) {
			cands = append(cands, ph)
		}
	}
	if len(cands) == 1 {
		return cands[0]
	}
	return nil
}

// phiSetTrueUnderBegin: some constant-true operand (through nested phis of
// the loop body) enters on an edge whose source block is reached only under
// txnStatus == begin.
func (c *senderCtx) phiSetTrueUnderBegin(ph *ssa.Phi, seen map[*ssa.Phi]bool) bool {
	if seen[ph] {
		return false
	}
	seen[ph] = true
	for i, e := range ph.Edges {
		if b, ok := core.ConstBool(e); ok && b {
			for _, fct := range core.FactsAt(ph.Block().Preds[i]) {
				cmp, ok := core.FactCmp(fct)
				if ok && cmp.Op == token.EQL && isTxnStatusVal(cmp.X) {
					if k, isK := core.ConstInt(cmp.Y); isK && k == c.begin {
						return true
					}
				}
			}
		}
		if inner, ok := e.(*ssa.Phi); ok && inner != ph {
			if c.phiSetTrueUnderBegin(inner, seen) {
				return true
			}
		}
	}
	return false
}

func (c *senderCtx) needFlushPhi() *ssa.Phi {
	var cands []*ssa.Phi
	for _, in := range c.head.Instrs {
		ph, ok := in.(*ssa.Phi)
		if !ok {
			continue
		}
		if b, isB := ph.Type().Underlying().(*types.Basic); !isB || b.Kind() != types.Bool {
			continue
		}
		if phiFedBy(ph, isTxnFlushVal, map[*ssa.Phi]bool{}) {
			cands = append(cands, ph)
		}
	}
	if len(cands) == 1 {
		return cands[0]
	}
	return nil
}

func phiFedBy(ph *ssa.Phi, is func(ssa.Value) bool, seen map[*ssa.Phi]bool) bool {
	if seen[ph] {
		return false
	}
	seen[ph] = true
	for _, e := range ph.Edges {
		if is(e) {
			return true
		}
		if inner, ok := e.(*ssa.Phi); ok && phiFedBy(inner, is, seen) {
			return true
		}
	}
	return false
}

func ruleNoFlushInTxn(w *core.World, r *core.Report, c *senderCtx) {
	ph := c.inTxnPhi()
	if ph == nil {
		r.Unresolved("sendCmdsBatch/inTransaction", "loop-carried in-transaction flag not found")
		return
	}
	txn := c.txnModeParam()
	if txn == nil {
		r.Unresolved("sendCmdsBatch/transactionMode", "transaction-mode parameter not found")
		return
	}
	// Loop invariant used to prune: in transactional mode no flush request is
	// pending when an iteration starts. Established inductively: it holds at
	// loop entry (constant false) and every path of one iteration that starts
	// with it re-establishes it.
	nf := c.needFlushPhi()
	invariant := false
	if nf != nil {
		invariant = true
		for i, pr := range c.head.Preds {
			if !inLoop(pr, c.head) {
				if b, ok := core.ConstBool(nf.Edges[i]); !ok || b {
					invariant = false
				}
			}
		}
		if invariant {
			okEnum := core.EnumPathsSeed(c.head, 0, 200000, 1, func(p *core.Path) {
				p.Assume(txn, true)
				p.Assume(nf, false)
			}, func(p *core.Path) {
				if !p.Closed {
					return
				}
				nv := p.NextIter(nf)
				if nv == nil {
					invariant = false
					return
				}
				if nv == ssa.Value(nf) {
					return
				}
				if b, ok := p.Eval(nv); !ok || b {
					invariant = false
				}
			})
			if !okEnum {
				invariant = false
			}
		}
	}
	type verdict struct {
		pos  token.Pos
		bad  string
		seen int
	}
	res := map[string]*verdict{}
	okEnum := core.EnumPathsSeed(c.head, 0, 200000, 1, func(p *core.Path) {
		p.Assume(txn, true)
		if invariant {
			p.Assume(nf, false)
		}
	}, func(p *core.Path) {
		c.sendCalls(p, func(s core.Site, _ bool, idx int) {
			cons := "sendCmdsBatch/" + c.flushRole(s.Instr) + "/not-inside-txn"
			v := res[cons]
			if v == nil {
				v = &verdict{pos: s.Pos()}
				res[cons] = v
			}
			v.seen++
			if b, ok := p.Eval(ph); ok && !b {
				return
			}
			// requested by the state machine: the path assumed transactionStatus's flush result true
			for _, f := range p.Conds {
				if f.Val && isTxnFlushVal(p.Resolve(f.Cond)) {
					return
				}
			}
			if v.bad == "" {
				v.bad = "a flush is reachable in transactional mode without the in-transaction flag being known false and without the state machine requesting it (a ticker or size flush can split a source transaction)"
				if !invariant {
					v.bad += "; note: the invariant 'no flush request pending at iteration start' could not be established"
				}
			}
		})
	})
	if !okEnum {
		r.Undecided("sendCmdsBatch/paths", c.head.Instrs[0].Pos(), "too many paths through one sender iteration")
	}
	for cons, v := range res {
		if v.bad != "" {
			r.Fail(cons, v.pos, "%s", v.bad)
		} else {
			r.OK(cons, v.pos, "%d path instance(s)", v.seen)
		}
	}
}

// phiFamily: the SSA versions of one source variable: every phi connected to
// root through phi operands, in either direction.
func phiFamily(fn *ssa.Function, root *ssa.Phi) map[*ssa.Phi]bool {
	fam := map[*ssa.Phi]bool{root: true}
	for changed := true; changed; {
		changed = false
		for _, in := range core.Instrs(fn) {
			ph, ok := in.(*ssa.Phi)
			if !ok || ph.Type() != root.Type() {
				continue
			}
			for _, e := range ph.Edges {
				if q, ok := e.(*ssa.Phi); ok {
					if fam[q] && !fam[ph] {
						fam[ph], changed = true, true
					}
					if fam[ph] && !fam[q] {
						fam[q], changed = true, true
					}
				}
			}
		}
	}
	return fam
}

func ruleClearAfterFlush(w *core.World, r *core.Report, c *senderCtx) {
	n := 0
	root := c.inTxnPhi()
	if root == nil {
		r.Unresolved("sendCmdsBatch/inTransaction", "loop-carried in-transaction flag not found")
		return
	}
	fam := phiFamily(c.main, root)
	for _, b := range c.main.Blocks {
		for _, in := range b.Instrs {
			ph, ok := in.(*ssa.Phi)
			if !ok || !fam[ph] {
				continue
			}
			for i, e := range ph.Edges {
				v, isC := core.ConstBool(e)
				if !isC || v {
					continue
				}
				pred := b.Preds[i]
				if !inLoop(pred, c.head) {
					continue // initialisation before the loop
				}
				n++
				// pred must be dominated by a successful send call
				ok := false
				for _, s := range core.Sites(c.main, false) {
					if s.Callee == c.send && (s.Instr.Block() == pred || s.Instr.Block().Dominates(pred)) && core.OnSuccessOf(pred, s.Value()) {
						ok = true
					}
				}
				r.Check(ok, "sendCmdsBatch/inTransaction=false", pred.Instrs[len(pred.Instrs)-1].Pos(), "the in-transaction flag is cleared on a path that did not pass a successful flush")
			}
		}
	}
	if n == 0 {
		r.Fail("sendCmdsBatch/inTransaction=false", c.main.Pos(), "the in-transaction flag is never cleared inside the loop")
	}
}

func ruleTxnStateMachine(w *core.World, r *core.Report) {
	f := fn(w, r, "syncer.transactionStatus")
	if f == nil {
		return
	}
	begin, _ := pkgConstInt(w, "syncer", "txnStatusBegin")
	in_, _ := pkgConstInt(w, "syncer", "txnStatusIn")
	commit, _ := pkgConstInt(w, "syncer", "txnStatusCommit")
	barrier, _ := pkgConstInt(w, "syncer", "txnStatusBarrier")
	if len(f.Params) != 2 {
		r.Unresolved("transactionStatus/params", "unexpected signature")
		return
	}
	no0, _ := pkgConstInt(w, "syncer", "txnStatusNo")
	if foldTxnStateMachine(w, r, f, map[string]int64{"no": no0, "begin": begin, "in": in_, "barrier": barrier, "commit": commit}) {
		return
	}
	prev := f.Params[1]
	if b, isB := f.Params[1].Type().Underlying().(*types.Basic); isB && b.Info()&types.IsString != 0 {
		prev = f.Params[0]
	}
	isPrev := func(v ssa.Value) bool { return core.Unwrap(v) == ssa.Value(prev) }
	bad := ""
	var badPos token.Pos
	insidePaths := 0
	core.EnumPaths(f.Blocks[0], 0, 10000, func(p *core.Path) {
		ret, ok := p.End.(*ssa.Return)
		if !ok || len(ret.Results) != 2 {
			return
		}
		inside := p.Holds(token.EQL, isPrev, isConstInt(begin)) || p.Holds(token.EQL, isPrev, isConstInt(in_))
		if !inside {
			return
		}
		insidePaths++
		fl, known := p.Eval(ret.Results[1])
		st, stKnown := core.ConstInt(p.Resolve(ret.Results[0]))
		switch {
		case !known:
			bad, badPos = "flush result inside a transaction is not a constant per path", ret.Pos()
		case fl:
			isLookup := func(v ssa.Value) bool {
				_, ok := core.Unwrap(v).(*ssa.Lookup)
				if ok {
					return true
				}
				e, ok := core.Unwrap(v).(*ssa.Extract)
				if ok {
					_, ok = e.Tuple.(*ssa.Lookup)
				}
				return ok
			}
			if !p.Holds(token.EQL, isLookup, isConstInt(commit)) || !stKnown || st != commit {
				bad, badPos = "inside a transaction a flush is requested on a path that is not the EXEC path", ret.Pos()
			}
		default:
			if !stKnown || st != in_ {
				bad, badPos = "inside a transaction the non-EXEC path must stay in the in-transaction state", ret.Pos()
			}
		}
	})
	if insidePaths == 0 {
		r.Fail("transactionStatus/inside", f.Pos(), "no path handles the begin/in states")
	} else {
		r.Check(bad == "", "transactionStatus/inside", badPos, "%s", bad)
	}
	// outside a transaction (previous state no / barrier / commit) the result is the table lookup:
	// (table[cmd], true) for a table command, (no, false) otherwise. A state missing from the case
	// list falls to the default and turns every following command into a barrier.
	no, _ := pkgConstInt(w, "syncer", "txnStatusNo")
	isLookupPart := func(idx int) func(ssa.Value) bool {
		return func(v ssa.Value) bool {
			e, ok := core.Unwrap(v).(*ssa.Extract)
			if !ok || e.Index != idx {
				return false
			}
			_, ok = e.Tuple.(*ssa.Lookup)
			return ok
		}
	}
	for name, st := range map[string]int64{"no": no, "barrier": barrier, "commit": commit} {
		n := 0
		okAll := true
		var pos token.Pos = f.Pos()
		core.EnumPaths(f.Blocks[0], 0, 10000, func(p *core.Path) {
			ret, ok := p.End.(*ssa.Return)
			if !ok || len(ret.Results) != 2 || !p.Holds(token.EQL, isPrev, isConstInt(st)) {
				return
			}
			n++
			found := false
			for _, fct := range p.Conds {
				if isLookupPart(1)(p.Resolve(fct.Cond)) {
					found = true
					fl, known := p.Eval(ret.Results[1])
					if !known || fl != fct.Val {
						okAll, pos = false, ret.Pos()
					}
					if fct.Val && !isLookupPart(0)(p.Resolve(ret.Results[0])) {
						okAll, pos = false, ret.Pos()
					}
					if !fct.Val {
						if k, isC := core.ConstInt(p.Resolve(ret.Results[0])); !isC || k != no {
							okAll, pos = false, ret.Pos()
						}
					}
				}
			}
			if !found {
				okAll, pos = false, ret.Pos()
			}
		})
		r.Check(n > 0 && okAll, "transactionStatus/outside-"+name, pos,
			"previous state %q must be handled by the command-table lookup: (table[cmd], true) for select/multi/exec, (no, false) otherwise (paths=%d)", name, n)
	}
	// table
	keys, pos, ok := astCompositeStrings(w, "syncer", "transactionCmdMap", true)
	if !ok {
		r.Unresolved("syncer.transactionCmdMap", "command table not found or not a literal")
		return
	}
	want := map[string]int64{"select": barrier, "multi": begin, "exec": commit}
	got := lowerSet(keys)
	okT := len(keys) == len(want)
	for k := range want {
		if !got[k] {
			okT = false
		}
	}
	r.Check(okT, "transactionCmdMap/keys", pos, "command table must be exactly {select, multi, exec}, found %v", keys)
	// values: each key maps to the right state
	vals := mapLiteralInts(w, "syncer", "transactionCmdMap")
	okV := len(vals) == len(want)
	for k, v := range want {
		if vals[k] != v {
			okV = false
		}
	}
	r.Check(okV, "transactionCmdMap/values", pos, "command table must map select→barrier, multi→begin, exec→commit, found %v", vals)
}

// ruleTxnFlushWrapped is R02.7.
func ruleTxnFlushWrapped(w *core.World, r *core.Report, c *senderCtx) {
	txn := c.txnModeParam()
	if txn == nil {
		r.Unresolved("sendCmdsBatch/transactionMode", "transaction-mode parameter not found")
		return
	}
	isQueueLen := func(v ssa.Value) bool {
		call, ok := core.Unwrap(v).(*ssa.Call)
		if !ok {
			return false
		}
		b, ok := call.Call.Value.(*ssa.Builtin)
		if !ok || b.Name() != "len" || len(call.Call.Args) != 1 {
			return false
		}
		ld, ok := call.Call.Args[0].(*ssa.UnOp)
		return ok && ld.Op == token.MUL && core.Cell(ld.X) == c.queue
	}
	bad := ""
	var badPos token.Pos
	n := 0
	okEnum := core.EnumPathsSeed(c.head, 0, 200000, 1, func(p *core.Path) { p.Assume(txn, true) }, func(p *core.Path) {
		pingQueued := false
		for _, in := range p.Instrs {
			if el, ok := c.appendedElems(in); ok {
				for _, e := range el {
					if !c.isItemVal(p.Resolve(e)) {
						pingQueued = true
					}
				}
			}
		}
		c.sendCalls(p, func(s core.Site, _ bool, _ int) {
			n++
			fa, okArgs := c.flushArgsOnPath(p, s)
			if !okArgs || bad != "" {
				return
			}
			v, known := p.Eval(fa[0])
			if known && v {
				return
			}
			if known && !v && pingQueued && p.Holds(token.EQL, isQueueLen, isConstInt(0)) {
				return
			}
			bad, badPos = "in transactional mode a flush can be sent without MULTI/EXEC although the queue may hold stream commands (only the keep-alive ping put into an empty queue may go bare): a crash inside that batch re-executes writes", s.Pos()
		})
	})
	if !okEnum {
		r.Undecided("sendCmdsBatch/txn-wrapped", c.head.Instrs[0].Pos(), "too many paths")
		return
	}
	if n == 0 {
		r.Fail("sendCmdsBatch/txn-wrapped", c.main.Pos(), "no flush found")
		return
	}
	r.Check(bad == "", "sendCmdsBatch/txn-wrapped", badPos, "%s", bad)
}

// ruleReplayStartOffset: item offsets are start offset + decoder offset
// (R07.2/R12.3); the start offset is what Send hands to sendAof, and that
// must be the position the cache reader was opened at.
func ruleReplayStartOffset(w *core.World, r *core.Report) {
	if f := fn(w, r, "(*syncer.RedisOutput).SendAof"); f != nil {
		n := 0
		for _, s := range core.SitesNamed(f, false, "(*syncer.RedisOutput).sendAof") {
			n++
			a := s.Args()
			r.Check(len(a) >= 4 && isIfaceCall(a[3], "ChannelReader.Left"), "SendAof/start-offset", s.Pos(), "the incremental replay must be started at reader.Left(), the position the cache reader was opened at")
		}
		if n == 0 {
			r.Fail("SendAof/start-offset", f.Pos(), "no incremental replay call found")
		}
	}
	ruleReaderLeft(w, r)
}

// ---------------------------------------------------------------- R07.7 an offset is never stored without its run id

// ruleOffsetWithRunId: GetCheckpoint reads a database's record by the run
// id's fields and prefers the database with the highest offset. An offset
// field written into a database that holds no <runid>_runid field makes that
// database win with an undefined run id, i.e. a restart without a usable
// position. On every path of the batch sender that queues the offset field,
// the run id must be queued in the same batch, or the database of the last
// queued command must be known to hold it already.
func ruleOffsetWithRunId(w *core.World, r *core.Report, c *senderCtx) {
	isKeyCall := func(v ssa.Value, method string) bool {
		call, ok := core.Unwrap(v).(*ssa.Call)
		return ok && strings.HasSuffix(core.ResolveCall(call).Name, "CheckpointInfo)."+method)
	}
	putHas := func(s core.Site, method string) bool {
		if s.Method != "Put" {
			return false
		}
		if name, ok := core.CmdName(s); !ok || name != "hset" {
			return false
		}
		args, ok := core.CmdArgs(s)
		if !ok {
			return false
		}
		for _, a := range args {
			if isKeyCall(a, method) {
				return true
			}
		}
		return false
	}
	bad := ""
	var badPos token.Pos
	n := 0
	okEnum := core.EnumPaths(c.once.Blocks[0], 0, 200000, func(p *core.Path) {
		if bad != "" {
			return
		}
		sites := pathSites(p)
		for i, s := range sites {
			if !putHas(s, "OffsetKey") {
				continue
			}
			n++
			withId := false
			for _, q := range sites[:i] {
				if putHas(q, "RunIdKey") {
					withId = true
				}
			}
			known := false
			for _, fct := range p.Conds {
				e, ok := core.Unwrap(fct.Cond).(*ssa.Extract)
				if !ok || e.Index != 1 || !fct.Val {
					continue
				}
				if lk, ok := e.Tuple.(*ssa.Lookup); ok && lk.CommaOk {
					if _, isMap := lk.X.Type().Underlying().(*types.Map); isMap {
						known = true // cpInDbs[lastCmd.Db] present
					}
				}
			}
			if !withId && !known {
				bad, badPos = "the offset field is queued on a path that neither queues the run id fields nor knows that the current database already holds them (a checkpoint tick with an empty queue after the source switched databases): a restart reads that database as 'offset N of an unknown run' and resynchronises in full", s.Pos()
			}
		}
	})
	if !okEnum {
		r.Undecided("sendCmdsBatch/offset-with-run-id", c.once.Pos(), "too many paths through the batch sender")
		return
	}
	r.Check(bad == "" && n > 0, "sendCmdsBatch/offset-with-run-id", badPos, "%s", bad)
}

// isLoopHelper: a closure of the sender (other than the batch sender and its
// retry wrapper) that is called from the main loop only: statements of the loop
// that were given a name.
func (c *senderCtx) isLoopHelper(f *ssa.Function) bool {
	if f == nil || f.Parent() != c.main || f == c.once || f == c.send {
		return false
	}
	called := false
	for _, g := range core.DeepFuncs(c.main) {
		for _, s := range core.Sites(g, false) {
			if s.Callee == f {
				if g != c.main {
					return false
				}
				called = true
			}
		}
	}
	return called
}


// ruleTxnModeWiring: every rule about transactional replay is stated "in
// transactional mode", i.e. under the sender's mode parameter. The promise is
// made for an output whose CanTransaction is set, so the parameter must be that
// flag itself at every call: a conjunction with something else (a checkpoint
// name being configured, resume being enabled) silently replays source
// transactions piecemeal in the configurations where the other operand is false.
func ruleTxnModeWiring(w *core.World, r *core.Report, c *senderCtx) {
	txn := c.txnModeParam()
	if txn == nil {
		r.Unresolved(senderName+"/txn-mode-param", "the sender's transaction-mode parameter was not identified")
		return
	}
	idx := -1
	for i, p := range c.main.Params {
		if p == txn {
			idx = i
		}
	}
	n := 0
	for _, site := range callSitesOf(w, c.main) {
		call, ok := site.(ssa.CallInstruction)
		if !ok {
			continue
		}
		args := call.Common().Args
		if idx >= len(args) {
			continue
		}
		n++
		v := core.Unwrap(args[idx])
		r.Check(fieldNameOfLoad(v) == "CanTransaction", shortName(core.FuncName(site.Parent()))+"/txn-mode-is-CanTransaction", site.Pos(), "the sender is started with a transaction mode other than the output's CanTransaction (%s): with the flag set but the other condition false, source MULTI/EXEC are dropped and size or ticker flushes cut through a source transaction", v.String())
	}
	if n == 0 {
		r.Fail(senderName+"/txn-mode-is-CanTransaction", c.main.Pos(), "no call of the sender found")
	}
}


// ---------------------------------------------------------------- R09.8 transactional replay is the default

// ruleTxnDefault: the promise "a source transaction reaches the target as one
// transaction" is made for the default configuration too: replayTransaction is
// documented as default true. The normalisation of the configuration may write
// the field only when the operator left it out, and then only the constant true
// — a default that depends on the replay mode (or on anything else) silently
// switches transactional replay off in some configurations, and a source
// transaction is then sent as bare pipelines.
func ruleTxnDefault(w *core.World, r *core.Report) {
	f := fn(w, r, "(*config.ReplayConfig).fix")
	if f == nil {
		return
	}
	n := 0
	for _, g := range reachableFuncs(f) {
		if g != f && !(core.Transparent != nil && core.Transparent(g)) {
			continue
		}
		for _, in := range core.OwnInstrs(g) {
			st, ok := in.(*ssa.Store)
			if !ok {
				continue
			}
			fa, ok := st.Addr.(*ssa.FieldAddr)
			if !ok || core.FieldName(fa) != "ReplayTransaction" || !strings.HasSuffix(core.TypeName(fa.X.Type()), "ReplayConfig") {
				continue
			}
			n++
			// the pointer stored: a fresh bool that holds the constant true — directly, or through a
			// "configured or default" helper that hands back the configured pointer when there is one
			var okValue func(v ssa.Value, sub map[ssa.Value]ssa.Value, depth int) (ok, keeps bool)
			okValue = func(v ssa.Value, sub map[ssa.Value]ssa.Value, depth int) (bool, bool) {
				v = core.Unwrap(v)
				if a, isSub := sub[v]; isSub {
					v = core.Unwrap(a)
				}
				if fieldNameOfLoad(v) == "ReplayTransaction" {
					return true, true // the operator's own value
				}
				if cell, isA := v.(*ssa.Alloc); isA {
					sts := core.CellStores(cell)
					if len(sts) == 0 {
						return false, false
					}
					for _, cs := range sts {
						x := core.Unwrap(cs.Val)
						if a, isSub := sub[x]; isSub {
							x = core.Unwrap(a)
						}
						if b, isB := core.ConstBool(x); !isB || !b {
							return false, false
						}
					}
					return true, false
				}
				if c, isC := v.(*ssa.Call); isC && depth < 3 {
					h := c.Call.StaticCallee()
					if h == nil || len(h.Blocks) == 0 || !core.Transparent(h) || len(c.Call.Args) != len(h.Params) {
						return false, false
					}
					sub2 := map[ssa.Value]ssa.Value{}
					for k, hp := range h.Params {
						a := c.Call.Args[k]
						if s2, isSub := sub[core.Unwrap(a)]; isSub {
							a = s2
						}
						sub2[hp] = a
					}
					all, anyKeep, nret := true, false, 0
					for _, in := range core.OwnInstrs(h) {
						ret, isRet := in.(*ssa.Return)
						if !isRet || len(ret.Results) != 1 {
							continue
						}
						for _, rv := range core.RetVals(ret, 0) {
							nret++
							o, k := okValue(rv, sub2, depth+1)
							all = all && o
							anyKeep = anyKeep || k
						}
					}
					return all && nret > 0, anyKeep
				}
				return false, false
			}
			okVal, keeps := okValue(st.Val, map[ssa.Value]ssa.Value{}, 0)
			// only when the operator gave none
			unset := keeps
			for _, fct := range core.FactsAt(st.Block()) {
				if c, ok := core.FactCmp(fct); ok && c.Op == token.EQL && core.IsNilConst(c.Y) && fieldNameOfLoad(core.Unwrap(c.X)) == "ReplayTransaction" {
					unset = true
				}
			}
			r.Check(okVal && unset, shortName(core.FuncName(g))+"/replayTransaction-default", st.Pos(), "replayTransaction may be written by the normalisation only when it was omitted (%v) and only with the constant true (%v): any other default replays source transactions piecemeal in the configurations it switches off", unset, okVal)
		}
	}
	if n == 0 {
		r.Fail("ReplayConfig.fix/replayTransaction-default", f.Pos(), "an omitted replayTransaction is not normalised: the field stays nil")
	}
}

// foldTxnStateMachine decides the transition function over its whole domain by constant folding: five previous
// states times the commands of the table plus "any other command" (the command parameter is used for nothing but
// the table look-up, so all other commands behave alike). It reports the same constructs as the path form and
// returns false when the function is outside what the folder reads (the path form then decides).
func foldTxnStateMachine(w *core.World, r *core.Report, f *ssa.Function, st map[string]int64) bool {
	var cmdPar, prevPar *ssa.Parameter
	for _, p := range f.Params {
		if b, isB := p.Type().Underlying().(*types.Basic); isB && b.Info()&types.IsString != 0 {
			cmdPar = p
		} else {
			prevPar = p
		}
	}
	if cmdPar == nil || prevPar == nil {
		return false
	}
	// the command is only ever looked up in the table, or compared for (in)equality with string constants (what a
	// `switch cmd` is), possibly inside a function of the module it is handed to. Every command that is neither a
	// key of the table nor one of those constants then takes the same way through the function as any other such
	// command: one representative stands for them all.
	var table *ssa.Global
	var compared []string
	var usesOf func(par *ssa.Parameter, depth int) bool
	usesOf = func(par *ssa.Parameter, depth int) bool {
		if depth > 3 {
			return false
		}
		for _, rf := range *par.Referrers() {
			switch x := rf.(type) {
			case *ssa.DebugRef:
			case *ssa.Lookup:
				ld, ok := x.X.(*ssa.UnOp)
				if !ok || x.Index != ssa.Value(par) {
					return false
				}
				g, ok := ld.X.(*ssa.Global)
				if !ok || (table != nil && g != table) {
					return false
				}
				table = g
			case *ssa.BinOp:
				if x.Op != token.EQL && x.Op != token.NEQ {
					return false
				}
				other := x.Y
				if other == ssa.Value(par) {
					other = x.X
				}
				k, isK := other.(*ssa.Const)
				if !isK || k.Value == nil || k.Value.Kind() != constant.String {
					return false
				}
				compared = append(compared, constant.StringVal(k.Value))
			case *ssa.Call:
				g := x.Call.StaticCallee()
				if g == nil || x.Call.IsInvoke() || len(g.Blocks) == 0 || g.Pkg != f.Pkg || len(g.Params) != len(x.Call.Args) {
					return false
				}
				for i, a := range x.Call.Args {
					if a == ssa.Value(par) && !usesOf(g.Params[i], depth+1) {
						return false
					}
				}
			default:
				return false
			}
		}
		return true
	}
	if !usesOf(cmdPar, 0) {
		return false
	}
	if table == nil && len(compared) == 0 {
		return false
	}
	tab := map[string]int64{}
	if table != nil {
		cf := &constFolder{w: w}
		content, known := cf.mapLiteral(table)
		if !known {
			return false
		}
		for _, e := range content {
			v, isC := e.val.(constant.Value)
			if e.key.Kind() != constant.String || !isC || v.Kind() != constant.Int {
				return false
			}
			k, _ := constant.Int64Val(v)
			tab[constant.StringVal(e.key)] = k
		}
	}
	const anyOther = "\x00any other command" // equal to no table key and to no constant the function compares with
	cmdSet := map[string]bool{anyOther: true, "select": true, "multi": true, "exec": true}
	for k := range tab {
		cmdSet[k] = true
	}
	for _, k := range compared {
		cmdSet[k] = true
	}
	var cmds []string
	for k := range cmdSet {
		cmds = append(cmds, k)
	}
	sort.Strings(cmds)
	eval := func(prev int64, cmd string) (next int64, flush, ok bool) {
		args := make([]interface{}, len(f.Params))
		for i, p := range f.Params {
			if p == cmdPar {
				args[i] = constant.MakeString(cmd)
			} else {
				args[i] = constant.MakeInt64(prev)
			}
		}
		cf := &constFolder{w: w}
		rs, ok := cf.foldCall(f, args, 0)
		if !ok || len(rs) != 2 {
			return 0, false, false
		}
		a, okA := rs[0].(constant.Value)
		b, okB := rs[1].(constant.Value)
		if !okA || !okB || a.Kind() != constant.Int || b.Kind() != constant.Bool {
			return 0, false, false
		}
		n, _ := constant.Int64Val(a)
		return n, constant.BoolVal(b), true
	}
	// everything must fold, else the path form decides
	for _, prev := range st {
		for _, c := range cmds {
			if _, _, ok := eval(prev, c); !ok {
				return false
			}
		}
	}
	tablePos := f.Pos()
	if table != nil {
		tablePos = table.Pos()
	} else {
		// no table: the function distinguishes commands by comparison. Its table is read off the function itself —
		// the commands that, outside a transaction (state "no"), are not treated like any other command, with the
		// state they lead to; the checks below hold every other state against it, and the last two hold it against
		// the protocol (select, multi, exec).
		oNext, oFlush, _ := eval(st["no"], anyOther)
		for _, c := range cmds {
			if next, flush, _ := eval(st["no"], c); c != anyOther && (next != oNext || flush != oFlush) {
				tab[c] = next
			}
		}
	}
	bad := ""
	for _, name := range []string{"begin", "in"} {
		for _, c := range cmds {
			next, flush, _ := eval(st[name], c)
			isExec := false
			if k, inTab := tab[c]; inTab && k == st["commit"] {
				isExec = true
			}
			switch {
			case isExec && !(next == st["commit"] && flush):
				bad = fmt.Sprintf("inside a transaction (%s) the EXEC command must lead to (commit, flush), got (%d, %v)", name, next, flush)
			case !isExec && flush:
				bad = fmt.Sprintf("inside a transaction (%s) a flush is requested for %q, which is not the EXEC command", name, c)
			case !isExec && next != st["in"]:
				bad = fmt.Sprintf("inside a transaction (%s) the non-EXEC command %q must stay in the in-transaction state, got %d", name, c, next)
			}
		}
	}
	r.Check(bad == "", "transactionStatus/inside", f.Pos(), "%s", bad)
	for _, name := range []string{"no", "barrier", "commit"} {
		bad := ""
		for _, c := range cmds {
			next, flush, _ := eval(st[name], c)
			if k, inTab := tab[c]; inTab {
				if next != k || !flush {
					bad = fmt.Sprintf("table command %q must give (table[cmd], true), got (%d, %v)", c, next, flush)
				}
			} else if next != st["no"] || flush {
				bad = fmt.Sprintf("a command outside the table must give (no, false), got (%d, %v)", next, flush)
			}
		}
		r.Check(bad == "", "transactionStatus/outside-"+name, f.Pos(),
			"previous state %q must be handled by the command-table lookup: (table[cmd], true) for select/multi/exec, (no, false) otherwise (%s)", name, bad)
	}
	// the table itself
	want := map[string]int64{"select": st["barrier"], "multi": st["begin"], "exec": st["commit"]}
	okK, okV := len(tab) == len(want), len(tab) == len(want)
	for k, v := range want {
		got, has := tab[k]
		if !has {
			okK = false
		}
		if got != v {
			okV = false
		}
	}
	var keys []string
	for k := range tab {
		keys = append(keys, k)
	}
	sort.Strings(keys)
	r.Check(okK, "transactionCmdMap/keys", tablePos, "command table must be exactly {select, multi, exec}, found %v", keys)
	r.Check(okV, "transactionCmdMap/values", tablePos, "command table must map select→barrier, multi→begin, exec→commit, found %v", tab)
	return true
}
