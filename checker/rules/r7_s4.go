package rules

import (
	"go/token"
	"go/types"
	"strings"

	"gunyucheck/core"

	"golang.org/x/tools/go/ssa"
)

// iterationStarts: the blocks from which a path enumeration sees the instruction as part of "one round" of
// the code that drives it. An instruction of a function the enumeration steps into (a small closure called
// directly, a helper the pinned tree does not have) is lifted to the calls of that function; in the function
// reached that way the round starts at the head of the loop around the call, or at the function's entry.
func iterationStarts(w *core.World, in ssa.Instruction, depth int) []*ssa.BasicBlock {
	g := in.Parent()
	if depth < 4 && core.Transparent(g) {
		var sites []ssa.Instruction
		if g.Parent() != nil {
			root := g
			for root.Parent() != nil {
				root = root.Parent()
			}
			for _, s := range core.Sites(root, true) {
				if s.Callee == g {
					if _, isCall := s.Instr.(*ssa.Call); isCall {
						sites = append(sites, s.Instr)
					}
				}
			}
		} else {
			for _, s := range callSitesOf(w, g) {
				if _, isCall := s.(*ssa.Call); isCall {
					sites = append(sites, s)
				}
			}
		}
		if len(sites) > 0 {
			var out []*ssa.BasicBlock
			seen := map[*ssa.BasicBlock]bool{}
			for _, s := range sites {
				for _, b := range iterationStarts(w, s, depth+1) {
					if !seen[b] {
						seen[b] = true
						out = append(out, b)
					}
				}
			}
			return out
		}
	}
	if h := core.LoopHeadOf(in.Block()); h != nil {
		return []*ssa.BasicBlock{h}
	}
	return []*ssa.BasicBlock{g.Blocks[0]}
}

// ---------------------------------------------------------------- R19.20 a failed request ends everything in flight on its connection

// ruleFailedRequestEndsInFlight: a node pipeline keeps several requests in
// flight on one connection and reads their replies in the order they were
// sent. When the send or the receive callback of one request fails — whatever
// the error is: a network error, or a reply of the target (MOVED / ASK) at
// which the callback stopped reading — the replies that remain on that
// connection can no longer be attributed: every request still in flight must
// be completed there and then (the fail-all loop, R19.16 says with what) and
// the connection given up. A request that stays queued across that point is
// later completed with whatever is read next — on a new connection that is
// the reply to a request sent after it (seed C19-14: a transaction the node
// refused is reported as committed, nothing is retried, nothing is reported).
// Decided on every path of one round of the pipeline loop (closures and new
// helpers stepped into) that passes the callback's invocation and knows its
// error to be non-nil.
func ruleFailedRequestEndsInFlight(w *core.World, r *core.Report) {
	f := fn(w, r, "(*pkg/redis/client/cluster.nodePipeline).run")
	if f == nil {
		return
	}
	errT := types.Universe.Lookup("error").Type()
	seenFn := map[*ssa.Function]bool{}
	var scope []*ssa.Function
	for _, g0 := range reachableFuncs(f) {
		for _, g := range core.DeepFuncs(g0) {
			if !seenFn[g] {
				seenFn[g] = true
				scope = append(scope, g)
			}
		}
	}
	// the fail-all loops: complete(nil, e) called in a loop (as in R19.16)
	failAllHead := map[*ssa.BasicBlock]bool{}
	for _, g := range scope {
		for _, in := range core.OwnInstrs(g) {
			c, ok := in.(*ssa.Call)
			if !ok || !strings.HasSuffix(core.ResolveCall(c).Name, "nodePipelineRequest).complete") {
				continue
			}
			if h := core.LoopHeadOf(c.Block()); h != nil {
				failAllHead[h] = true
			}
		}
	}
	isConn := func(v ssa.Value) bool {
		pt, ok := v.Type().(*types.Pointer)
		return ok && strings.HasSuffix(core.TypeName(pt.Elem()), "redisConn")
	}
	n := 0
	for _, g := range scope {
		for _, in := range core.OwnInstrs(g) {
			cb, ok := in.(*ssa.Call)
			if !ok || cb.Call.IsInvoke() {
				continue
			}
			// the invocation of a callback the request carries: the callee is read from a field of the request
			ld, ok := cb.Call.Value.(*ssa.UnOp)
			if !ok || ld.Op != token.MUL {
				continue
			}
			fa, ok := ld.X.(*ssa.FieldAddr)
			if !ok || !strings.HasSuffix(core.TypeName(recordOf(fa)), "nodePipelineRequest") {
				continue
			}
			res := cb.Call.Signature().Results()
			if res.Len() == 0 || !types.Identical(res.At(res.Len()-1).Type(), errT) {
				continue
			}
			var errV ssa.Value = cb
			if res.Len() > 1 {
				errV = extractOf(cb, res.Len()-1)
			}
			role := core.FieldName(fa)
			construct := "nodePipeline.run/failed-" + role + "-ends-requests-in-flight"
			n++
			if errV == nil {
				r.Fail(construct, cb.Pos(), "the error of the request's %s callback is not looked at: a failure on the connection goes unnoticed and the requests in flight behind it read replies that are not theirs", role)
				continue
			}
			bad := ""
			var pos token.Pos = cb.Pos()
			paths := 0
			undecided := false
			for _, start := range iterationStarts(w, cb, 0) {
				okEnum := core.EnumPathsN(start, 0, 200000, 1, func(p *core.Path) {
					if bad != "" {
						return
					}
					at := -1
					for i, pi := range p.Instrs {
						if pi == ssa.Instruction(cb) {
							at = i
							break
						}
					}
					if at < 0 {
						return
					}
					if _, isRet := p.End.(*ssa.Return); !isRet && !p.Closed {
						return
					}
					if isNil, known := p.IsNil(errV); !known || isNil {
						return
					}
					paths++
					failedAll, gaveUp := false, false
					for _, pi := range p.Instrs[at+1:] {
						if failAllHead[pi.Block()] {
							failedAll = true
						}
						if c, isCall := pi.(*ssa.Call); isCall {
							s := core.ResolveCall(c)
							if (s.Method == "shutdown" || s.Method == "Close") && s.Recv() != nil && isConn(s.Recv()) {
								gaveUp = true
							}
						}
					}
					// `if conn != nil { conn.shutdown() }`: nothing to give up on the other side
					for _, fct := range p.Conds {
						c, isCmp := core.FactCmp(fct)
						if !isCmp || c.Op != token.EQL || !core.IsNilConst(c.Y) || !isConn(c.X) || fct.If == nil {
							continue
						}
						for _, pi := range p.Instrs[at+1:] {
							if pi == ssa.Instruction(fct.If) {
								gaveUp = true
							}
						}
					}
					end := p.End.Pos()
					if !end.IsValid() {
						end = cb.Pos()
					}
					switch {
					case !failedAll:
						bad, pos = "after the request's "+role+" callback failed, the round ends on a path that does not fail the requests still in flight on that connection: they stay queued, and the next replies read for them — after a reconnect those of a request sent later — are taken for theirs (a transaction the node refused is reported as committed, or the other way round)", end
					case !gaveUp:
						bad, pos = "after the request's "+role+" callback failed, the round ends on a path that keeps the connection: replies that were not read stay on it and are handed to the next request", end
					}
				})
				if !okEnum {
					undecided = true
				}
			}
			if undecided {
				r.Undecided(construct, cb.Pos(), "too many paths")
				continue
			}
			if bad == "" && paths == 0 {
				r.Undecided(construct, cb.Pos(), "no path of the pipeline loop on which the error of the request's %s callback is known to be non-nil: the test of that error was not found (accepted: `if err != nil` on the callback's own error result)", role)
				continue
			}
			r.Check(bad == "", construct, pos, "%s", bad)
		}
	}
	if n == 0 {
		r.Fail("nodePipeline.run/failed-request-ends-requests-in-flight", f.Pos(), "the invocation of a request's send / receive callback was not found in the node pipeline")
	}
}

// ---------------------------------------------------------------- R20.19 the key-exists probe asks the entry's own database

// ruleEntryHandledInItsDatabase: a snapshot worker owns one connection and
// follows the databases of the snapshot with it: selectDB(tracked, entry's
// database) decides, SELECT goes out when that reports a change (R01.6 says
// that it does go out before the *next* entry). Whatever the worker does on
// the connection *for this entry* must come after that: the key-exists probe
// (EXISTS inside RdbReplay.Replay, inside the bidirectional unit builder)
// asks the database the connection is in. A worker that builds the unit first
// and switches afterwards asks the previous entry's database: under
// ignore/error a key that exists only in its own database is overwritten, one
// that exists only in the other is dropped or stops the replay (seed C20-14).
// Decided on every path of one round of the worker's loop (new helpers
// stepped into) that reaches a call which works on the connection for the
// entry.
func ruleEntryHandledInItsDatabase(w *core.World, r *core.Report) {
	type spec struct {
		fn        string
		consumers []string
	}
	for _, sp := range []spec{
		{"(*syncer.RedisOutput).rdbReplay", []string{"(*pkg/rdbrestore.RdbReplay).Replay"}},
		{"(*syncer.RedisOutput).rdbReplayBisync", []string{"(*syncer.RedisOutput).buildBisyncRdbReplayUnit", "(*syncer.RedisOutput).execBisyncRdbUnit"}},
	} {
		f := fn(w, r, sp.fn)
		if f == nil {
			continue
		}
		short := shortName(sp.fn)
		for _, cname := range sp.consumers {
			construct := short + "/" + shortName(cname) + "-in-the-entrys-database"
			var sites []core.Site
			for _, g := range reachableFuncs(f) {
				for _, s := range core.SitesNamed(g, true, cname) {
					if _, isCall := s.Instr.(*ssa.Call); isCall {
						dup := false
						for _, o := range sites {
							if o.Instr == s.Instr {
								dup = true
							}
						}
						if !dup {
							sites = append(sites, s)
						}
					}
				}
			}
			if len(sites) == 0 {
				r.Fail(construct, f.Pos(), "the snapshot worker does not call %s: where the entry is handled on the connection was not found", shortName(cname))
				continue
			}
			for _, cs := range sites {
				bad := ""
				var pos token.Pos = cs.Pos()
				paths := 0
				undecided := false
				for _, start := range iterationStarts(w, cs.Instr, 0) {
					if start.Parent() != f {
						continue // a second user of the helper: not this worker's loop
					}
					okEnum := core.EnumPathsN(start, 0, 200000, 1, func(p *core.Path) {
						if bad != "" {
							return
						}
						at := -1
						for i, pi := range p.Instrs {
							if pi == cs.Instr.(ssa.Instruction) {
								at = i
								break
							}
						}
						if at < 0 {
							return
						}
						paths++
						var decision *ssa.Call
						switched := false
						for _, pi := range p.Instrs[:at] {
							c, isCall := pi.(*ssa.Call)
							if !isCall {
								continue
							}
							switch core.ResolveCall(c).Name {
							case "(*syncer.RedisOutput).selectDB":
								decision, switched = c, false
							case "pkg/redis.SelectDB":
								if decision != nil {
									switched = true
								}
							}
						}
						if decision == nil {
							bad = "on a path of the worker's round the call is reached before selectDB has compared the entry's database with the one the connection is in"
							return
						}
						changed := func(v ssa.Value) bool {
							e, ok := core.Unwrap(v).(*ssa.Extract)
							return ok && e.Index == 1 && e.Tuple == ssa.Value(decision)
						}
						if pathAssumed(p, changed, true) && !switched {
							bad = "on a path of the worker's round selectDB reports a change of database and the call is reached before the SELECT has gone out"
						}
					})
					if !okEnum {
						undecided = true
					}
				}
				if undecided {
					r.Undecided(construct, cs.Pos(), "too many paths")
					continue
				}
				if bad == "" && paths == 0 {
					r.Undecided(construct, cs.Pos(), "no path of the worker's loop reaches the call")
					continue
				}
				r.Check(bad == "", construct, pos, "%s: what it does on the connection for this entry — first of all the key-exists probe — happens in the database of the entry handled before, so the ignore / error / replace policy is applied to the wrong key (an existing key of the entry's database is overwritten under ignore or error, a key that exists only in the other database is dropped or stops the replay)", bad)
			}
		}
	}
}

// ---------------------------------------------------------------- R20.20 whether an entry has a key is not read off the key's length (W37)

// keyDerived: v is (computed from) the key of a snapshot entry: a load of
// BinEntry.Key, a []byte / string result of a call that was handed such a
// value (the hashtag rewrite, a bytes-to-string conversion), or a []byte /
// string parameter at whose position some caller hands one in.
func keyDerived(w *core.World, v ssa.Value, depth int) bool {
	if v == nil || depth > 4 {
		return false
	}
	isText := func(t types.Type) bool {
		switch u := t.Underlying().(type) {
		case *types.Basic:
			return u.Info()&types.IsString != 0
		case *types.Slice:
			b, ok := u.Elem().Underlying().(*types.Basic)
			return ok && b.Kind() == types.Byte
		}
		return false
	}
	found := false
	core.Walk(v, func(x ssa.Value) bool {
		if found {
			return false
		}
		switch y := x.(type) {
		case *ssa.UnOp:
			if fa, ok := y.X.(*ssa.FieldAddr); ok && y.Op == token.MUL && core.FieldName(fa) == "Key" && strings.HasSuffix(core.TypeName(recordOf(fa)), "BinEntry") {
				found = true
				return false
			}
		case *ssa.Call:
			if _, isB := y.Call.Value.(*ssa.Builtin); isB || !isText(y.Type()) {
				return true
			}
			for _, a := range y.Call.Args {
				if isText(a.Type()) && keyDerived(w, a, depth+1) {
					found = true
					return false
				}
			}
		case *ssa.Parameter:
			g := y.Parent()
			if !isText(y.Type()) || g == nil {
				return true
			}
			for _, cs := range callSitesOf(w, g) {
				args := cs.(ssa.CallInstruction).Common().Args
				for k, gp := range g.Params {
					if gp == y && k < len(args) && keyDerived(w, args[k], depth+1) {
						found = true
						return false
					}
				}
			}
		}
		return true
	})
	return found
}

// excludesEmptyKey: the fact can only hold when a snapshot key is not the empty string: len(key) compared
// with a constant in a way that 0 does not satisfy, or key != "".
func excludesEmptyKey(w *core.World, fct core.Fact) bool {
	c, ok := core.FactCmp(fct)
	if !ok {
		return false
	}
	x, y, op := c.X, c.Y, c.Op
	if _, isC := x.(*ssa.Const); isC {
		x, y = y, x
		op = map[token.Token]token.Token{token.LSS: token.GTR, token.LEQ: token.GEQ, token.GTR: token.LSS, token.GEQ: token.LEQ, token.EQL: token.EQL, token.NEQ: token.NEQ}[op]
	}
	if s, isS := core.ConstString(y); isS {
		return s == "" && op == token.NEQ && keyDerived(w, x, 0)
	}
	n, isN := core.ConstInt(y)
	if !isN {
		return false
	}
	call, isCall := core.Unwrap(x).(*ssa.Call)
	if !isCall || !isBuiltin(call, "len") || len(call.Call.Args) != 1 {
		return false
	}
	holdsForZero := map[token.Token]bool{token.LSS: 0 < n, token.LEQ: 0 <= n, token.GTR: 0 > n, token.GEQ: 0 >= n, token.EQL: 0 == n, token.NEQ: 0 != n}[op]
	return !holdsForZero && keyDerived(w, call.Call.Args[0], 0)
}

// ruleKeylessIsNotEmptyKey: the empty string is a legal Redis key, and the
// snapshot loader delivers such an entry with a Key of length 0 and an
// ordinary object type. What has no key are function and aux entries — which
// the object type says. In the bidirectional unit builder every piece of the
// key-exists mechanism — the EXISTS probe, the DEL of the replace policy, the
// choice of RESTORE (which carries REPLACE and the expiry), the memo of an
// ignored chunked key, the PEXPIRE behind the expanded commands — must
// therefore not stand under a branch that can be taken only when the key is
// not empty: under such a guard the key "" gets no probe, no DEL, no expiry;
// under all three policies the snapshot's value is merged into whatever the
// target holds under "" and the old expiry stays (W37).
func ruleKeylessIsNotEmptyKey(w *core.World, r *core.Report) {
	f := fn(w, r, "(*syncer.RedisOutput).buildBisyncRdbReplayUnit")
	if f == nil {
		return
	}
	guardOf := func(in ssa.Instruction) (core.Fact, bool) {
		for _, fct := range core.FactsAt(in.Block()) {
			if excludesEmptyKey(w, fct) {
				return fct, true
			}
		}
		return core.Fact{}, false
	}
	type piece struct {
		what string
		in   ssa.Instruction
	}
	isDelStore := func(in ssa.Instruction, cmd string) bool {
		st, ok := in.(*ssa.Store)
		if !ok {
			return false
		}
		s, isS := core.ConstString(st.Val)
		return isS && s == cmd
	}
	// (a) in the builder: probe, DEL, RESTORE choice, memo calls
	var inBuilder []piece
	var memoFns []*ssa.Function
	for _, in := range core.Instrs(f) {
		if isDelStore(in, "del") {
			inBuilder = append(inBuilder, piece{"the DEL of the replace policy", in})
		}
		ci, ok := in.(*ssa.Call)
		if !ok {
			continue
		}
		s := core.ResolveCall(ci)
		switch {
		case s.Method == "Do":
			if cmd, isCmd := core.CmdName(s); isCmd && cmd == "exists" {
				inBuilder = append(inBuilder, piece{"the EXISTS probe", in})
			}
		case s.Name == "syncer.captureBisyncRdbRestoreCommand":
			inBuilder = append(inBuilder, piece{"the RESTORE form (REPLACE, expiry)", in})
		case s.Callee != nil && s.Recv() != nil && strings.HasSuffix(core.TypeName(derefT(s.Recv().Type())), "bisyncRdbReplayState"):
			inBuilder = append(inBuilder, piece{"the memo of an ignored key (" + s.Method + ")", in})
			memoFns = append(memoFns, s.Callee)
		}
	}
	{
		bad := ""
		var pos token.Pos = f.Pos()
		var guardedPieces []string
		guardText := ""
		for _, pc := range inBuilder {
			if fct, guarded := guardOf(pc.in); guarded {
				if guardText == "" {
					guardText, pos = factText(fct), pc.in.Pos()
				}
				dup := false
				for _, g := range guardedPieces {
					if g == pc.what {
						dup = true
					}
				}
				if !dup {
					guardedPieces = append(guardedPieces, pc.what)
				}
			}
		}
		if len(guardedPieces) > 0 {
			bad = strings.Join(guardedPieces, ", ") + " — stand(s) under `" + guardText + "`"
		}
		if len(inBuilder) < 4 {
			r.Undecided("buildBisyncRdbReplayUnit/keyless-is-not-empty-key", f.Pos(), "expected the EXISTS probe, the DEL of the replace policy, the RESTORE builder and the memo calls in the unit builder, found %d of them", len(inBuilder))
		} else {
			r.Check(bad == "", "buildBisyncRdbReplayUnit/keyless-is-not-empty-key", pos, "%s, a test that the empty key fails: \"\" is a legal key (the loader delivers it with an ordinary object type), so a snapshot entry stored under it bypasses the key-exists policy — no probe under ignore/error, no DEL / REPLACE under replace, and its value is merged into what the target holds under \"\". Whether an entry has a key is what its object type says (function and aux entries have none)", bad)
		}
	}
	// (b) the expiry behind the expanded commands, wherever the builder's helpers append it
	{
		n := 0
		bad := ""
		var pos token.Pos = f.Pos()
		name := ""
		for _, g := range reachableFuncs(f) {
			for _, h := range core.DeepFuncs(g) {
				for _, in := range core.OwnInstrs(h) {
					if !isDelStore(in, "pexpire") {
						continue
					}
					n++
					if name == "" {
						name = shortName(core.FuncName(g))
					}
					if fct, guarded := guardOf(in); guarded && bad == "" {
						bad, pos, name = "the PEXPIRE that carries the snapshot's expiry stands under `"+factText(fct)+"`", in.Pos(), shortName(core.FuncName(g))
					}
				}
			}
		}
		if n == 0 {
			r.Undecided("buildBisyncRdbReplayUnit/expiry-of-the-empty-key", f.Pos(), "the PEXPIRE appended behind the expanded commands was not found in the functions the unit builder uses")
		} else {
			r.Check(bad == "", name+"/expiry-of-the-empty-key", pos, "%s, a test that the empty key fails: a value replayed by native commands under the key \"\" loses its expiry (under replace the target does not end with the snapshot's expiry)", bad)
		}
	}
	// (c) inside the memo: what is recorded and what is answered
	{
		n := 0
		bad := ""
		var pos token.Pos = f.Pos()
		seen := map[*ssa.Function]bool{}
		for _, g := range memoFns {
			if seen[g] || len(g.Params) < 2 {
				continue
			}
			seen[g] = true
			for _, in := range core.OwnInstrs(g) {
				switch x := in.(type) {
				case *ssa.Store:
					if _, isFa := x.Addr.(*ssa.FieldAddr); !isFa {
						continue
					}
				case *ssa.Return:
					if len(x.Results) == 0 {
						continue
					}
					if _, isC := x.Results[0].(*ssa.Const); isC {
						continue
					}
				default:
					continue
				}
				n++
				if fct, guarded := guardOf(in); guarded && bad == "" {
					bad, pos = shortName(core.FuncName(g))+" records / answers only under `"+factText(fct)+"`", in.Pos()
				}
			}
		}
		if n == 0 {
			r.Undecided("bisyncRdbReplayState/memo-of-the-empty-key", f.Pos(), "the memo of an ignored chunked key (a method of the replay state that takes the key) was not found")
		} else {
			r.Check(bad == "", "bisyncRdbReplayState/memo-of-the-empty-key", pos, "%s, a test that the empty key fails: under ignore the later chunks of a chunked value stored under \"\" are not skipped and are merged into the existing key", bad)
		}
	}
}

func derefT(t types.Type) types.Type {
	if p, ok := t.Underlying().(*types.Pointer); ok {
		return p.Elem()
	}
	return t
}

// factText renders a branch fact for a message (the comparison as it holds).
func factText(fct core.Fact) string {
	c, ok := core.FactCmp(fct)
	if !ok {
		return fct.Cond.String()
	}
	side := func(v ssa.Value) string {
		if k, isC := v.(*ssa.Const); isC {
			if s, isS := core.ConstString(k); isS {
				return "\"" + s + "\""
			}
			return k.Value.String()
		}
		if call, isCall := core.Unwrap(v).(*ssa.Call); isCall && isBuiltin(call, "len") {
			return "len(<key>)"
		}
		return "<key>"
	}
	return side(c.X) + " " + c.Op.String() + " " + side(c.Y)
}

// ---------------------------------------------------------------- R13.10 the recogniser steps over the master's lazy-expiry deletion of the marker (W38)

// ruleMirroredTxnToleratesLazyExpiry: every transaction the tool writes begins
// with `SET <marker> … PX <ttl>`: the marker key is volatile, and each unit
// overwrites the marker the previous unit of the slot left behind. A master
// that executes a write on a key which is logically expired but not yet
// reaped deletes the key first and propagates that deletion — `DEL key`, or
// `UNLINK key` with lazyfree-lazy-expire — in front of the command, inside the
// same MULTI/EXEC. The opposite link then reads
// `MULTI; DEL marker; SET marker …; business…; EXEC`. A recogniser that tests
// element 0 of that list for the marker SET on every path takes the tool's own
// transaction for a client's and sends it back (W38). Necessary: for each of
// DEL and UNLINK there is a path of the recogniser on which the first command
// was seen to be that deletion and the marker test is applied to a later
// element of the list.
func ruleMirroredTxnToleratesLazyExpiry(w *core.World, r *core.Report) {
	f := fn(w, r, "syncer.isBisyncMirroredTransaction")
	if f == nil {
		return
	}
	const construct = "isBisyncMirroredTransaction/steps-over-lazy-expiry-deletion"
	// the writers make the marker volatile: SET <marker> <value> PX|EX|PXAT|EXAT …
	volatile, writers := false, 0
	for _, name := range []string{"(*syncer.RedisOutput).dispatchBisyncUnit", "(*syncer.RedisOutput).execBisyncRdbUnit"} {
		g := w.Func(name)
		if g == nil {
			continue
		}
		// the writer itself, or a helper of the package it puts the marker through
		var sites []core.Site
		for _, h := range reachableFuncs(g) {
			sites = append(sites, core.Sites(h, true)...)
		}
		for _, s := range sites {
			if !s.Common().IsInvoke() || s.Method != "Put" {
				continue
			}
			cmd, ok := core.CmdName(s)
			el, _ := core.CmdArgs(s)
			if !ok || cmd != "set" || len(el) == 0 || !core.DependsOn(el[0], isResultOf("pkg/redis/checkpoint.BisyncMarkerKey", -1)) {
				continue
			}
			writers++
			for _, a := range el[1:] {
				if str, isS := core.ConstString(core.Unwrap(a)); isS {
					switch strings.ToLower(str) {
					case "px", "ex", "pxat", "exat":
						volatile = true
					}
				}
			}
		}
	}
	if writers == 0 {
		r.Undecided(construct, f.Pos(), "the marker SET of the transaction writers (dispatchBisyncUnit, execBisyncRdbUnit) was not found: cannot tell whether the marker key is volatile")
		return
	}
	if !volatile {
		r.OK(construct, f.Pos(), "the writers give the marker no expiry: no lazy-expiry deletion can precede the marker SET")
		return
	}
	var cmdsPar *ssa.Parameter
	for _, p := range f.Params {
		if _, isSl := p.Type().Underlying().(*types.Slice); isSl {
			cmdsPar = p
		}
	}
	if cmdsPar == nil {
		r.Unresolved(construct, "isBisyncMirroredTransaction: the command list parameter was not found")
		return
	}
	// offsetsIn: the positions (in the list the function was handed) that v — an element, a load of it, a field of
	// it, or a re-slicing cmds[c:] of the list — may stand for, as a bit set over 0, 1, 2, "3 or more". A loop
	// variable (`for … { cmds = cmds[1:] }`) stays symbolic on a path: it stands for what flows in on any edge.
	shift := func(set uint, by int64) uint {
		out := uint(0)
		for k := int64(0); k < 4; k++ {
			if set&(1<<uint(k)) != 0 {
				n := k + by
				if n > 3 {
					n = 3
				}
				if n >= 0 {
					out |= 1 << uint(n)
				}
			}
		}
		return out
	}
	phiSet := map[*ssa.Phi]uint{}
	var offsetsIn func(p *core.Path, v ssa.Value, depth int) uint
	offsetsIn = func(p *core.Path, v ssa.Value, depth int) uint {
		if depth > 8 || v == nil {
			return 0
		}
		v = p.Resolve(v)
		switch x := v.(type) {
		case *ssa.Parameter:
			if x == cmdsPar {
				return 1
			}
		case *ssa.Phi:
			if cur, busy := phiSet[x]; busy {
				return cur
			}
			phiSet[x] = 0
			for round := 0; round < 4; round++ {
				set := phiSet[x]
				for _, e := range x.Edges {
					set |= offsetsIn(p, e, depth+1)
				}
				if set == phiSet[x] {
					break
				}
				phiSet[x] = set
			}
			set := phiSet[x]
			delete(phiSet, x)
			return set
		case *ssa.UnOp:
			if x.Op == token.MUL {
				return offsetsIn(p, x.X, depth+1)
			}
		case *ssa.IndexAddr:
			if idx, isC := core.ConstInt(p.Resolve(x.Index)); isC {
				return shift(offsetsIn(p, x.X, depth+1), idx)
			}
		case *ssa.Index:
			if idx, isC := core.ConstInt(p.Resolve(x.Index)); isC {
				return shift(offsetsIn(p, x.X, depth+1), idx)
			}
		case *ssa.Slice:
			if x.Low == nil {
				return offsetsIn(p, x.X, depth+1)
			}
			if lo, isC := core.ConstInt(p.Resolve(x.Low)); isC {
				return shift(offsetsIn(p, x.X, depth+1), lo)
			}
		case *ssa.FieldAddr:
			return offsetsIn(p, x.X, depth+1)
		case *ssa.Field:
			return offsetsIn(p, x.X, depth+1)
		case *ssa.Alloc:
			// a command copied into a local (a struct parameter is spilled to one): what was stored into it as a whole
			set := uint(0)
			for _, st := range core.CellStores(x) {
				set |= offsetsIn(p, st.Val, depth+1)
			}
			return set
		}
		return 0
	}
	// nameOfFirst: v is the command name of element 0 of the list (as handed in), possibly case-folded
	nameOfFirst := func(p *core.Path, v ssa.Value) bool {
		v = core.Unwrap(p.Resolve(v))
		for i := 0; i < 3; i++ {
			c, ok := v.(*ssa.Call)
			if !ok {
				break
			}
			switch core.ResolveCall(c).Name {
			case "strings.ToLower", "strings.ToUpper":
				v = core.Unwrap(p.Resolve(c.Call.Args[0]))
				continue
			}
			break
		}
		if bt, isB := v.Type().Underlying().(*types.Basic); !isB || bt.Info()&types.IsString == 0 {
			return false
		}
		switch v.(type) {
		case *ssa.UnOp, *ssa.Field:
		default:
			return false
		}
		return offsetsIn(p, v, 0)&1 != 0
	}
	sawDeletion := func(p *core.Path, want string) bool {
		for _, fct := range p.Conds {
			if c, ok := core.FactCmp(fct); ok && c.Op == token.EQL {
				x, y := c.X, c.Y
				if _, isC := x.(*ssa.Const); isC {
					x, y = y, x
				}
				if s, isS := core.ConstString(y); isS && strings.EqualFold(s, want) && nameOfFirst(p, x) {
					return true
				}
			}
			if call, isCall := core.Unwrap(p.Resolve(fct.Cond)).(*ssa.Call); isCall && fct.Val && core.ResolveCall(call).Name == "strings.EqualFold" && len(call.Call.Args) == 2 {
				a, b := call.Call.Args[0], call.Call.Args[1]
				if _, isC := a.(*ssa.Const); isC {
					a, b = b, a
				}
				if s, isS := core.ConstString(b); isS && strings.EqualFold(s, want) && nameOfFirst(p, a) {
					return true
				}
			}
		}
		return false
	}
	tolerated := map[string]bool{}
	tests := 0
	okEnum := core.EnumPathsN(f.Blocks[0], 0, 200000, 2, func(p *core.Path) {
		if _, isRet := p.End.(*ssa.Return); !isRet {
			return
		}
		for _, in := range p.Instrs {
			c, isCall := in.(*ssa.Call)
			if !isCall || core.ResolveCall(c).Name != "syncer.isBisyncMarkerCommand" || len(c.Call.Args) != 1 {
				continue
			}
			tests++
			if offsetsIn(p, c.Call.Args[0], 0)&^1 == 0 {
				continue // element 0, or not an element of the list at all
			}
			for _, want := range []string{"del", "unlink"} {
				if sawDeletion(p, want) {
					tolerated[want] = true
				}
			}
		}
	})
	if !okEnum {
		r.Undecided(construct, f.Pos(), "too many paths")
		return
	}
	if tests == 0 {
		r.Undecided(construct, f.Pos(), "the marker test (isBisyncMarkerCommand) is not applied on any path of the recogniser")
		return
	}
	var missing []string
	for _, want := range []string{"del", "unlink"} {
		if !tolerated[want] {
			missing = append(missing, strings.ToUpper(want))
		}
	}
	r.Check(len(missing) == 0, construct, f.Pos(), "on no path of the recogniser is the marker test applied behind a first command that was seen to be %s (it looks at the first command of the propagated transaction only): the writers create the marker with an expiry (SET <marker> … PX), so a master that finds the previous marker expired but not yet reaped deletes it while executing the SET and propagates `MULTI; %s <marker>; SET <marker> …; …; EXEC`. Such a transaction is not recognised as the tool's own: it is sent back to the site it came from (the business commands are applied there a second time, the other link's bookkeeping keys are created at the wrong site)", strings.Join(missing, " / "), strings.Join(missing, "|"))
}
