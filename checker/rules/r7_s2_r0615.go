package rules

import (
	"go/token"
	"go/types"
	"strings"

	"gunyucheck/core"

	"golang.org/x/tools/go/ssa"
)

// ---------------------------------------------------------------- R06.15 an optional capability asserted on an interface field is not hidden by a wrapper

// ruleOptionalCapabilityVisible. syncMeta reaches the output's DropStartPoint (R06.10) through a comma-ok
// assertion of an *optional* interface on the input's output field: when the assertion fails the drop is
// skipped silently. The assertion sees the dynamic type stored in the field. A type that is stored there
// and merely wraps an output (a decorator holding the real output in a field) answers the assertion for
// the wrapped one: if the wrapped type has the optional methods and the wrapper does not, the capability
// is lost, the output is re-keyed after FULLRESYNC without dropping its position, and the old offset is
// carried over to the new replication id. Decided on types: for every comma-ok interface assertion on an
// interface-typed field, every concrete type that can be stored in the field (followed through parameters
// to the call sites, through results, phis, variables and other fields) either implements the asserted
// interface, or holds no value of a type that implements it.
func ruleOptionalCapabilityVisible(w *core.World, r *core.Report) {
	type fieldRef struct {
		st  *types.Struct
		idx int
	}
	structOf := func(t types.Type) *types.Struct {
		if p, ok := t.Underlying().(*types.Pointer); ok {
			t = p.Elem()
		}
		s, _ := t.Underlying().(*types.Struct)
		return s
	}
	sameField := func(fa *ssa.FieldAddr, fr fieldRef) bool {
		return fa.Field == fr.idx && structOf(fa.X.Type()) == fr.st
	}
	// all stores into a field
	storesInto := func(fr fieldRef) []ssa.Value {
		var out []ssa.Value
		for _, g := range w.Funcs() {
			for _, b := range g.Blocks {
				for _, in := range b.Instrs {
					if st, ok := in.(*ssa.Store); ok {
						if fa, ok := st.Addr.(*ssa.FieldAddr); ok && sameField(fa, fr) {
							out = append(out, st.Val)
						}
					}
				}
			}
		}
		return out
	}
	// the concrete types a value of interface type can hold
	var trace func(v ssa.Value, seen map[ssa.Value]bool, out map[types.Type]bool) (undecided string)
	trace = func(v ssa.Value, seen map[ssa.Value]bool, out map[types.Type]bool) string {
		if seen[v] {
			return ""
		}
		seen[v] = true
		und := ""
		note := func(s string) {
			if und == "" {
				und = s
			}
		}
		switch x := v.(type) {
		case *ssa.MakeInterface:
			out[x.X.Type()] = true
		case *ssa.ChangeInterface:
			note(trace(x.X, seen, out))
		case *ssa.ChangeType:
			note(trace(x.X, seen, out))
		case *ssa.TypeAssert:
			note(trace(x.X, seen, out))
		case *ssa.Const:
			// nil holds nothing
		case *ssa.Phi:
			for _, e := range x.Edges {
				note(trace(e, seen, out))
			}
		case *ssa.Extract:
			c, ok := x.Tuple.(*ssa.Call)
			if ok {
				if g := c.Call.StaticCallee(); g != nil && len(g.Blocks) > 0 {
					for _, in := range core.OwnInstrs(g) {
						if ret, isRet := in.(*ssa.Return); isRet && x.Index < len(ret.Results) {
							note(trace(ret.Results[x.Index], seen, out))
						}
					}
					break
				}
			}
			if ta, isTA := x.Tuple.(*ssa.TypeAssert); isTA && x.Index == 0 {
				note(trace(ta.X, seen, out))
				break
			}
			note("the result of " + x.Tuple.String())
		case *ssa.Call:
			if g := x.Call.StaticCallee(); g != nil && len(g.Blocks) > 0 {
				for _, in := range core.OwnInstrs(g) {
					if ret, isRet := in.(*ssa.Return); isRet && len(ret.Results) == 1 {
						note(trace(ret.Results[0], seen, out))
					}
				}
			} else {
				note("the result of the call " + x.String())
			}
		case *ssa.Parameter:
			f := x.Parent()
			idx := -1
			for i, p := range f.Params {
				if p == x {
					idx = i
				}
			}
			if f.Parent() != nil || idx < 0 {
				note("a parameter of a closure")
				break
			}
			n := 0
			for _, g := range w.Funcs() {
				for _, b := range g.Blocks {
					for _, in := range b.Instrs {
						ci, ok := in.(ssa.CallInstruction)
						if !ok {
							continue
						}
						cc := ci.Common()
						switch {
						case !cc.IsInvoke() && cc.StaticCallee() == f && idx < len(cc.Args):
							n++
							note(trace(cc.Args[idx], seen, out))
						case cc.IsInvoke() && f.Signature.Recv() != nil && cc.Method.Name() == f.Name() && idx >= 1 && idx-1 < len(cc.Args):
							if it, isI := cc.Value.Type().Underlying().(*types.Interface); isI && types.Implements(f.Signature.Recv().Type(), it) {
								n++
								note(trace(cc.Args[idx-1], seen, out))
							}
						}
					}
				}
			}
			_ = n
		case *ssa.FreeVar:
			if b := core.Binding(x); b != nil {
				note(trace(b, seen, out))
			} else {
				note("a captured variable")
			}
		case *ssa.UnOp:
			if x.Op != token.MUL {
				note(x.String())
				break
			}
			if fa, ok := x.X.(*ssa.FieldAddr); ok {
				if s := structOf(fa.X.Type()); s != nil {
					for _, sv := range storesInto(fieldRef{s, fa.Field}) {
						note(trace(sv, seen, out))
					}
					break
				}
			}
			if cell := core.Cell(x.X); cell != nil {
				for _, st := range core.CellStores(cell) {
					note(trace(st.Val, seen, out))
				}
				break
			}
			note("a load of " + x.X.String())
		case *ssa.Field:
			if s := structOf(x.X.Type()); s != nil {
				for _, sv := range storesInto(fieldRef{s, x.Field}) {
					note(trace(sv, seen, out))
				}
				break
			}
			note(x.String())
		default:
			note(v.String())
		}
		return und
	}

	n := 0
	for _, f := range w.FuncsIn("syncer") {
		if core.ExpandedInto(f) != nil {
			continue
		}
		for _, in := range core.Instrs(f) {
			ta, ok := in.(*ssa.TypeAssert)
			if !ok || !ta.CommaOk {
				continue
			}
			want, isI := ta.AssertedType.Underlying().(*types.Interface)
			if !isI || want.NumMethods() == 0 {
				continue
			}
			ld, ok := core.Unwrap(ta.X).(*ssa.UnOp)
			if !ok || ld.Op != token.MUL {
				continue
			}
			fa, ok := ld.X.(*ssa.FieldAddr)
			if !ok || structOf(fa.X.Type()) == nil {
				continue
			}
			if _, isIface := ld.Type().Underlying().(*types.Interface); !isIface {
				continue
			}
			n++
			fr := fieldRef{structOf(fa.X.Type()), fa.Field}
			holder := core.TypeName(fa.X.Type()) + "." + core.FieldName(fa)
			var methods []string
			for i := 0; i < want.NumMethods(); i++ {
				methods = append(methods, want.Method(i).Name())
			}
			cons := shortName(core.FuncName(f)) + "/optional-" + strings.Join(methods, "+") + "-on-" + core.FieldName(fa)
			stored := map[types.Type]bool{}
			und := ""
			for _, sv := range storesInto(fr) {
				if u := trace(sv, map[ssa.Value]bool{}, stored); u != "" && und == "" {
					und = u
				}
			}
			if und != "" {
				r.Undecided(cons, ta.Pos(), "what is stored in %s cannot be followed to its concrete types (%s): whether a stored wrapper hides the optional methods %v asserted here cannot be decided", holder, und, methods)
				continue
			}
			if len(stored) == 0 {
				r.Fail(cons, ta.Pos(), "nothing is ever stored in %s", holder)
				continue
			}
			bad := ""
			for t := range stored {
				if types.Implements(t, want) {
					continue
				}
				// a type without the capability: acceptable unless it holds a value of a type that has it
				s := structOf(t)
				if s == nil {
					continue
				}
				for i := 0; i < s.NumFields(); i++ {
					ft := s.Field(i).Type()
					inner := map[types.Type]bool{}
					if _, isIface := ft.Underlying().(*types.Interface); isIface {
						for _, sv := range storesInto(fieldRef{s, i}) {
							if u := trace(sv, map[ssa.Value]bool{}, inner); u != "" && und == "" {
								und = u
							}
						}
					} else {
						inner[ft] = true
					}
					for u := range inner {
						if types.Implements(u, want) && types.Implements(u, ld.Type().Underlying().(*types.Interface)) {
							bad = core.Short(types.TypeString(t, nil)) + " wraps a " + core.Short(types.TypeString(u, nil)) + " (field " + s.Field(i).Name() + ") but does not have " + strings.Join(methods, ", ")
						}
					}
				}
			}
			if bad == "" && und != "" {
				r.Undecided(cons, ta.Pos(), "a type stored in %s holds a value that cannot be followed to its concrete types (%s)", holder, und)
				continue
			}
			r.Check(bad == "", cons, ta.Pos(), "the optional methods asserted on %s are hidden by a wrapper: %s. The comma-ok assertion fails silently for the wrapper, so the wrapped output is never asked: after a full resynchronisation its stored position is not dropped before it is re-keyed, and the old offset is carried over to the new replication id", holder, bad)
		}
	}
	if n == 0 {
		r.Fail("optional-capability-assertions", token.NoPos, "no optional-interface assertion on an interface-typed field found in package syncer (syncMeta reached DropStartPoint through one)")
	}
}
