package rules

import (
	"go/constant"
	"go/token"
	"go/types"

	"gunyucheck/core"

	"golang.org/x/tools/go/ssa"
)

// ---------------------------------------------------------------- R08.11 a verified snapshot has passed the comparison of its checksums

// ruleSnapshotChecksumSpec is the snapshot sibling of AofRotateReader.isCorrupted/spec (R08.4). The only
// recorded checksum of a cached snapshot is the trailer of its own file. The verification function may
// answer "not corrupted" (a nil error, or an error the path knows nothing about) only on a path that has
// established `checksum computed over the body == checksum stored in the trailer`; the one exemption is a
// file that cannot hold a body (its size is at most the width of the trailer). A success return that has
// not passed the comparison on its equal side (a trailer value that switches the comparison off, a size
// class that is waved through) serves a closed file that does not match its checksum with verification on.
func ruleSnapshotChecksumSpec(w *core.World, r *core.Report) {
	f := fn(w, r, "(*pkg/store.RdbReader).checkHeader")
	if f == nil {
		return
	}
	isSum := func(v ssa.Value) bool { return isIfaceCallName(core.Unwrap(v), "Sum64") }
	isStored := isResultOf("*littleEndian).Uint64", -1)
	isFileSize := func(v ssa.Value) bool {
		c, ok := core.Unwrap(v).(*ssa.Call)
		return ok && c.Call.IsInvoke() && c.Call.Method.Name() == "Size" && core.ResolveCall(c).Name == "iface:io/fs.FileInfo.Size"
	}
	var sizes []ssa.Value
	for _, in := range core.Instrs(f) {
		if v, ok := in.(ssa.Value); ok && isFileSize(v) {
			sizes = append(sizes, v)
		}
	}
	trailer := ssa.NewConst(constant.MakeInt64(8), types.Typ[types.Int64]) // the width of the stored checksum (Uint64)
	bad := ""
	var pos token.Pos = f.Pos()
	nCompared, nEmpty := 0, 0
	okEnum := core.EnumPathsN(f.Blocks[0], 0, 200000, core.Unroll, func(p *core.Path) {
		ret, ok := p.End.(*ssa.Return)
		if !ok || ret.Parent() != f || bad != "" || len(ret.Results) == 0 {
			return
		}
		if isNil, known := p.IsNil(ret.Results[len(ret.Results)-1]); known && !isNil {
			return
		}
		for _, fct := range p.Conds {
			c, ok := core.FactCmp(fct)
			if !ok || c.Op != token.EQL {
				continue
			}
			x, y := p.Resolve(c.X), p.Resolve(c.Y)
			if core.DependsOn(x, isSum) && core.DependsOn(y, isStored) || core.DependsOn(y, isSum) && core.DependsOn(x, isStored) {
				nCompared++
				return
			}
		}
		for _, s := range sizes {
			if p.Entails(s, token.LEQ, trailer) {
				nEmpty++
				return
			}
		}
		bad, pos = "the snapshot verification can answer 'not corrupted' on a path that has not established computed checksum == stored checksum (and the file is not too short to hold a body): with verification on, a closed snapshot whose content does not match its recorded checksum is served", ret.Pos()
	})
	if !okEnum {
		r.Undecided("RdbReader.checkHeader/spec", f.Pos(), "too many paths through the snapshot verification")
		return
	}
	r.Check(bad == "" && nCompared > 0, "RdbReader.checkHeader/spec", pos, "%s (success paths that compared: %d, paths of a file without a body: %d)", bad, nCompared, nEmpty)
}
