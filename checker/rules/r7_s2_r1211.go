package rules

import (
	"go/constant"
	"go/token"
	"strings"

	"gunyucheck/core"

	"golang.org/x/tools/go/ssa"
)

// ---------------------------------------------------------------- R12.11 no announced bulk length the protocol allows is refused

// protoMaxBulkLen is Redis' published default of proto-max-bulk-len: a master accepts (and therefore
// replicates) arguments of up to 512 MiB.
const protoMaxBulkLen = 512 * 1024 * 1024

// ruleBulkLengthBound: between reading the length header of a bulk string and reading its body the decoder
// may refuse the length (a damaged header must not be trusted with an allocation). Lossless decoding
// requires that no length a source can legally send is refused: on every path that ends in an error
// although the header was read successfully and the body has not been asked for yet, the facts about the
// announced length put it outside [0, 512 MiB].
func ruleBulkLengthBound(w *core.World, r *core.Report) {
	f := fn(w, r, "(*pkg/redis/client.Decoder).decodeBulkBytes")
	if f == nil {
		return
	}
	// the header read: a call of decodeInt in the function itself or in a helper the path steps into (a
	// length helper with several call sites); located per path
	const hdrName = "(*pkg/redis/client.Decoder).decodeInt"
	hdrOn := func(p *core.Path) *ssa.Call {
		for _, s := range pathSites(p) {
			if c, ok := s.Instr.(*ssa.Call); ok && s.Name == hdrName {
				return c
			}
		}
		return nil
	}
	sawHdr := false
	bad, und := "", ""
	var pos token.Pos = f.Pos()
	refusals := 0
	okEnum := core.EnumPathsN(f.Blocks[0], 0, 100000, core.Unroll, func(p *core.Path) {
		ret, ok := p.End.(*ssa.Return)
		if !ok || ret.Parent() != f || bad != "" || len(ret.Results) == 0 {
			return
		}
		hdr := hdrOn(p)
		if hdr == nil {
			return
		}
		sawHdr = true
		if pathNil(p, ret.Results[len(ret.Results)-1]) || failedOn(p, hdr) {
			return
		}
		for _, s := range pathSites(p) {
			if s.Name == "io.ReadFull" || strings.HasPrefix(s.Name, "(*bufio.Reader).") {
				return // the body has been asked for: what fails from here on is the stream or its framing
			}
		}
		var n ssa.Value
		for _, ref := range *hdr.Referrers() {
			if e, ok := ref.(*ssa.Extract); ok && e.Index == 0 {
				n = e
			}
		}
		if n == nil {
			und, pos = "the announced length is not taken from the header read", hdr.Pos()
			return
		}
		zero := ssa.NewConst(constant.MakeInt64(0), n.Type())
		max := ssa.NewConst(constant.MakeInt64(protoMaxBulkLen), n.Type())
		// the length as the function sees it: the header's result, or whatever resolves to it on this path (the
		// result of a helper that read the header)
		isLen := func(v ssa.Value) bool { return core.Unwrap(v) == n || core.Unwrap(p.Resolve(v)) == n }
		names := []ssa.Value{n}
		for _, fct := range p.Conds {
			if c, ok := core.FactCmp(fct); ok {
				for _, v := range []ssa.Value{c.X, c.Y} {
					if v != n && isLen(v) {
						names = append(names, v)
					}
				}
			}
		}
		refusals++
		for _, v := range names {
			if p.Entails(v, token.LSS, zero) || p.Entails(v, token.GTR, max) {
				return
			}
		}
		// what the refusal was decided on
		readable := false
		for _, fct := range p.Conds {
			c, ok := core.FactCmp(fct)
			if !ok {
				continue
			}
			x, y := p.Resolve(c.X), p.Resolve(c.Y)
			_, xc := core.ConstInt(x)
			_, yc := core.ConstInt(y)
			if core.DependsOn(x, isLen) && yc || core.DependsOn(y, isLen) && xc {
				readable = true
			}
		}
		if readable {
			bad, pos = "a bulk string is refused by its announced length on a path that does not put the length outside 0 … 536870912 (Redis' proto-max-bulk-len, 512 MiB): an argument the source may legally replicate is treated as a corrupt stream and never reaches the target", ret.Pos()
		} else if und == "" {
			und = "a bulk string is refused after its length header was read and before its body is read, on a condition that is not a comparison of the announced length with constants"
			pos = ret.Pos()
		}
	})
	switch {
	case okEnum && !sawHdr:
		r.Unresolved("Decoder.decodeBulkBytes/length-header", "the read of the announced length (decodeInt) was not found")
	case !okEnum:
		r.Undecided("Decoder.decodeBulkBytes/length-bound", f.Pos(), "too many paths")
	case bad != "":
		r.Fail("Decoder.decodeBulkBytes/length-bound", pos, "%s", bad)
	case und != "":
		r.Undecided("Decoder.decodeBulkBytes/length-bound", pos, "%s", und)
	default:
		r.OK("Decoder.decodeBulkBytes/length-bound", f.Pos(), "%d refusing path(s), all outside the legal range", refusals)
	}
}
