package rules

import (
	"fmt"
	"go/ast"
	"go/constant"
	"go/token"
	"go/types"
	"sort"
	"strings"

	"gunyucheck/core"

	"golang.org/x/tools/go/ssa"
)

func init() {
	All["C03"] = c03
	core.Explanations["C03"] = "Decides necessary structural conditions of 'a full sync reproduces the snapshot's dataset': " +
		"(R03.1) for every value parser the encodings routed to it by NewParser, the encodings its ReadBuffer consumes and the encodings its ExecCmd expands are the same set, NewParser's default is an error, and every RDB value-type constant is routed; " +
		"(R03.2) the DUMP payload is type ≺ data ≺ 2-byte version ≺ 8-byte CRC written through one tee with the CRC writer, little-endian, and its size is len+11; (R03.3) the CRC-64 table equals the Jones table computed in the checker and the update step has the reflected shape; " +
		"(R03.4) ziplist and intset integers are widened through a signed type of the encoding's width (24-bit through a sign-extension idiom); listpack sign parameters are 1<<(w-1) and 2^w-1 for every integer encoding; (R03.5) ziplist traversal terminates on 255 only; " +
		"(R03.6) every successful path of RdbReplay.Replay that expands a value with an expiry applies PEXPIRE afterwards, RESTORE carries the ttl, a past expiry becomes 1 ms in both replay paths; (R03.7) the parallel fan-out index of a keyed entry depends only on the key; (R03.8) in every ReadBuffer all value bytes are read through the tee into the payload buffer; (R03.9) the RESTORE/expansion choice agrees between plain and bidirectional replay; (R03.10) the probe/DEL of the key-exists policy run before the first chunk of a split value only, so later chunks append. " +
		"Not decided: value-level decoding correctness for all encodings (LZF, listpack payload bytes, stream reconstruction, float formatting)."
}

// rtypeCases returns the integer constants of the case clauses of the first
// `switch x.rtype` in the method, or nil when there is none.
func rtypeCases(w *core.World, recv, method string) ([]int64, bool) {
	fd, p := w.FuncDecl("pkg/rdb", recv, method)
	if fd == nil {
		return nil, false
	}
	var out []int64
	found := false
	ast.Inspect(fd.Body, func(n ast.Node) bool {
		sw, ok := n.(*ast.SwitchStmt)
		if !ok || found || sw.Tag == nil {
			return true
		}
		se, ok := sw.Tag.(*ast.SelectorExpr)
		if !ok || se.Sel.Name != "rtype" {
			return true
		}
		found = true
		for _, cl := range sw.Body.List {
			for _, e := range cl.(*ast.CaseClause).List {
				if tv, ok := p.TypesInfo.Types[e]; ok && tv.Value != nil {
					if v, ok := constant.Int64Val(constant.ToInt(tv.Value)); ok {
						out = append(out, v)
					}
				}
			}
		}
		return false
	})
	sort.Slice(out, func(i, j int) bool { return out[i] < out[j] })
	return out, found
}

func c03(w *core.World, r *core.Report) {
	r.Rule("R03.1", "type tables agree: NewParser routing = ReadBuffer cases = ExecCmd cases per parser; default is an error; every value type routed", 7)
	ruleTypeTables(w, r)
	r.Rule("R03.2", "DUMP framing: type ≺ data ≺ version(2, LE) ≺ CRC64(8, LE) through one tee; size = len + 11", 2)
	ruleDumpFraming(w, r)
	r.Rule("R03.3", "CRC-64 (Jones) table computed in the checker; reflected update step", 2)
	ruleCrc64(w, r)
	r.Rule("R03.4", "signed integer decoding: ziplist / intset through signed types of the encoding width; listpack sign parameters per width", 3)
	ruleSignedInts(w, r)
	r.Rule("R03.5", "ziplist traversal terminates on 255 (ZIP_END) only", 1)
	ruleZiplistEnd(w, r)
	r.Rule("R03.6", "expiry on every replay path", 3)
	ruleExpiryPaths(w, r)
	r.Rule("R03.7", "keyed fan-out: lane index of a keyed entry depends only on the key", 1)
	ruleKeyedFanout(w, r)
	r.Rule("R03.8", "value bytes are read through the tee in every ReadBuffer", 6)
	ruleTeeReads(w, r)
	r.Rule("R03.9", "RESTORE/expansion choice agrees between plain and bidirectional replay", 1)
	ruleRestoreChoiceAgrees(w, r)
	r.Rule("R03.10", "chunks of a split value are appended: probe and DEL only before the first chunk", 1)
	ruleChunksAppend(w, r)
	r.Rule("R03.11", "listpack entry stepping: back-length size table and per-encoding header sizes equal the published format", 2)
	ruleListpackStep(w, r)
	r.Rule("R03.13", "stream expansion: the master entry's field count has a single definition", 1)
	ruleStreamMasterFields(w, r)
	r.Rule("R20.2", "the key-exists policy the replay paths switch on is one of the three they know: the configuration normalises to that set (shared with C20)", 2)
	rulePolicySet(w, r)
	r.Rule("R03.16", "the LZF control byte is split 3 + 5 bits: length from bits 5..7, distance high part from bits 0..4", 1)
	ruleLzfControlByte(w, r)
	r.Rule("R03.15", "a key with an expiry is never replayed with ttl 0 (RESTORE's 'no expiry'): the remaining life is used only under ExpireAt > now", 1)
	ruleTtlNeverZero(w, r)
	r.Rule("R03.14", "nil means 'end of the packed structure' and nothing else: an element (also an empty one) is never answered with nil", 3)
	ruleNilIsEndOnly(w, r)
	r.Rule("R10.15", "every snapshot entry the filters let through is replayed: an intact entry is withheld only by the database, key or slot rule (shared with C10)", 2)
	ruleWithheldOnlyByFilters(w, r)
	r.Rule("R20.11", "chunks of one key are appended in order by one worker: the distributor picks the worker of a keyed entry from the key alone (shared with C20)", 1)
	ruleChunksSameWorker(w, r)
	r.Rule("R03.12", "the database an entry is replayed into: tracked database starts unknown/fresh, changes only with selectDB's result, and every change is sent to the target before the next entry (shared with R01.6)", 4)
	ruleDbTracking(w, r)
	r.Rule("R20.12", "every chunk of a split value is known as such, the last one included: a final chunk taken for a whole value is sent as a RESTORE payload and replaces what the earlier chunks built (shared with C20)", 1)
	ruleSplitKnownFromFirstChunk(w, r)
	r.Rule("R03.17", "the full sync waits for every goroutine that replays a part of the snapshot", 2)
	ruleFullSyncAwaitsEverySender(w, r)
}

func ruleTypeTables(w *core.World, r *core.Report) {
	fd, p := w.FuncDecl("pkg/rdb", "", "NewParser")
	if fd == nil {
		r.Unresolved("rdb.NewParser", "not found")
		return
	}
	// routing: case constants -> parser type named in the case body (&T{})
	route := map[string][]int64{}
	routed := map[int64]bool{}
	defaultErr := false
	ast.Inspect(fd.Body, func(n ast.Node) bool {
		sw, ok := n.(*ast.SwitchStmt)
		if !ok {
			return true
		}
		for _, cl := range sw.Body.List {
			cc := cl.(*ast.CaseClause)
			typ := ""
			ast.Inspect(cc, func(m ast.Node) bool {
				if cl, ok := m.(*ast.CompositeLit); ok && typ == "" {
					if id, ok := cl.Type.(*ast.Ident); ok {
						typ = id.Name
					}
				}
				return true
			})
			for _, e := range cc.List {
				if tv, ok := p.TypesInfo.Types[e]; ok && tv.Value != nil {
					if v, ok := constant.Int64Val(constant.ToInt(tv.Value)); ok {
						route[typ] = append(route[typ], v)
						routed[v] = true
					}
				}
			}
		}
		return false
	})
	// default: the function's last statement returns a non-nil error
	if f := fn(w, r, "pkg/rdb.NewParser"); f != nil {
		for _, in := range core.Instrs(f) {
			if ret, ok := in.(*ssa.Return); ok && len(ret.Results) == 2 && core.IsNilConst(core.RetVal(ret, 0)) && !core.IsNilConst(core.RetVal(ret, 1)) {
				defaultErr = true
			}
		}
	}
	r.Check(defaultErr, "NewParser/default-error", fd.Pos(), "an unknown value type must be an error, not a silently skipped entry")
	names := make([]string, 0, len(route))
	for t := range route {
		names = append(names, t)
	}
	sort.Strings(names)
	for _, t := range names {
		sort.Slice(route[t], func(i, j int) bool { return route[t][i] < route[t][j] })
		rb, okR := rtypeCases(w, t, "ReadBuffer")
		ex, okE := rtypeCases(w, t, "ExecCmd")
		if !okR && !okE {
			continue // single-encoding parser (string, module, function, aux)
		}
		same := func(a, b []int64) bool {
			if len(a) != len(b) {
				return false
			}
			for i := range a {
				if a[i] != b[i] {
					return false
				}
			}
			return true
		}
		ok := true
		if okR && !same(route[t], rb) {
			ok = false
		}
		if okE && !same(route[t], ex) {
			ok = false
		}
		r.Check(ok, t+"/case-sets", fd.Pos(), "encodings routed to %s %v, consumed by ReadBuffer %v, expanded by ExecCmd %v must be one set: a missing case silently skips that encoding (payload or expansion)", t, route[t], rb, ex)
	}
	// every RdbType*/RDBType* constant below 0xf0 is routed
	var missing []string
	scope := p.Types.Scope()
	for _, n := range scope.Names() {
		if !(strings.HasPrefix(n, "RdbType") || strings.HasPrefix(n, "RDBType")) {
			continue
		}
		c, ok := scope.Lookup(n).(*types.Const)
		if !ok {
			continue
		}
		v, _ := constant.Int64Val(constant.ToInt(c.Val()))
		if !routed[v] && n != "RdbTypeFunction" { // the pre-7.0 function format is rejected explicitly (error), not skipped
			missing = append(missing, n)
		}
	}
	r.Check(len(missing) == 0, "NewParser/all-types-routed", fd.Pos(), "value types declared but not routed to a parser: %v", missing)
}

func ruleDumpFraming(w *core.World, r *core.Report) {
	f := fn(w, r, "pkg/rdb.CreateValueDump")
	if f != nil {
		var seq []string
		var mw ssa.Value
		okTee := false
		for _, s := range core.Sites(f, false) {
			switch {
			case s.Name == "io.MultiWriter":
				mw = s.Value()
				el, ok := core.VariadicElems(s.Args()[0])
				if ok && len(el) == 2 {
					crc, buf := false, false
					for _, e := range el {
						if core.DependsOn(e, isResultOf("pkg/digest.New", -1)) {
							crc = true
						} else if strings.Contains(core.Unwrap(e).Type().String(), "bytes.Buffer") {
							buf = true
						}
					}
					okTee = crc && buf
				}
			case s.Method == "Write" && s.Common().IsInvoke() && mw != nil && s.Common().Value == mw:
				a := s.Args()[0]
				if a == ssa.Value(f.Params[1]) {
					seq = append(seq, "data")
				} else {
					seq = append(seq, "type")
				}
			case s.Name == "encoding/binary.Write":
				a := s.Args()
				kind := "?"
				if core.Unwrap(a[2]).Type().String() == "uint16" {
					kind = "version16"
				} else if isIfaceCallName(core.Unwrap(a[2]), "Sum64") {
					kind = "crc64"
				}
				le := false
				if ld, ok := core.Unwrap(a[1]).(*ssa.UnOp); ok {
					if g, ok := ld.X.(*ssa.Global); ok && g.Name() == "LittleEndian" {
						le = true
					}
				}
				if a[0] != mw || !le {
					kind += "(not little-endian through the tee)"
				}
				seq = append(seq, kind)
			}
		}
		want := "type data version16 crc64"
		r.Check(okTee && strings.Join(seq, " ") == want, "CreateValueDump/framing", f.Pos(), "expected writes [%s] through MultiWriter(buffer, crc), found [%s] tee=%v", want, strings.Join(seq, " "), okTee)
	}
	if g := fn(w, r, "(*pkg/rdb.BaseParser).ValueDumpSize"); g != nil {
		// sum of constants = 11 plus buf.Len()
		sum, hasLen := int64(0), false
		for _, in := range core.Instrs(g) {
			ret, ok := in.(*ssa.Return)
			if !ok {
				continue
			}
			var add func(v ssa.Value)
			add = func(v ssa.Value) {
				if b, ok := v.(*ssa.BinOp); ok && b.Op == token.ADD {
					add(b.X)
					add(b.Y)
					return
				}
				if k, ok := core.ConstInt(v); ok {
					sum += k
					return
				}
				if isIfaceCallName(v, "Len") || isResultOf("(*bytes.Buffer).Len", -1)(v) {
					hasLen = true
				}
			}
			add(core.RetVal(ret, 0))
		}
		r.Check(sum == 11 && hasLen, "BaseParser.ValueDumpSize", g.Pos(), "payload size must be len(data) + 1 + 2 + 8 (constants sum to %d)", sum)
	}
}

func isIfaceCallName(v ssa.Value, method string) bool {
	c, ok := v.(*ssa.Call)
	return ok && (c.Call.IsInvoke() && c.Call.Method.Name() == method || !c.Call.IsInvoke() && core.ResolveCall(c).Method == method)
}

func ruleCrc64(w *core.World, r *core.Report) {
	tab, pos, ok := tableLiteral(w, "pkg/digest", "crc64_table")
	if !ok {
		r.Unresolved("digest.crc64_table", "table literal not found")
	} else {
		// CRC-64/Jones, reflected, poly 0xad93d23594c935a9 (bit-reversed: 0x95ac9329ac4bc9b5)
		const rev = 0x95ac9329ac4bc9b5
		bad := -1
		if len(tab) != 256 {
			bad = len(tab)
		} else {
			for i := 0; i < 256 && bad < 0; i++ {
				crc := uint64(i)
				for j := 0; j < 8; j++ {
					if crc&1 == 1 {
						crc = crc>>1 ^ rev
					} else {
						crc >>= 1
					}
				}
				if tab[i] != crc {
					bad = i
				}
			}
		}
		r.Check(bad < 0, "digest.crc64_table", pos, "CRC-64 table differs from the Jones polynomial table at index/len %d: every RESTORE payload footer and the snapshot checksum would be wrong", bad)
	}
	f := fn(w, r, "(*pkg/digest.digest).update")
	if f == nil {
		return
	}
	okStep := false
	for _, in := range core.Instrs(f) {
		x, ok := in.(*ssa.BinOp)
		if !ok || x.Op != token.XOR {
			continue
		}
		for _, pair := range [][2]ssa.Value{{x.X, x.Y}, {x.Y, x.X}} {
			ld, ok := pair[0].(*ssa.UnOp)
			if !ok || ld.Op != token.MUL {
				continue
			}
			ia, ok := ld.X.(*ssa.IndexAddr)
			if !ok {
				continue
			}
			if g, ok := ia.X.(*ssa.Global); !ok || g.Name() != "crc64_table" {
				continue
			}
			ix, ok := core.Unwrap(ia.Index).(*ssa.BinOp)
			if !ok || ix.Op != token.XOR {
				continue
			}
			shr, ok := pair[1].(*ssa.BinOp)
			if !ok || shr.Op != token.SHR || !isConstInt(8)(shr.Y) || !core.IsFieldLoad(shr.X, "digest", "crc") {
				continue
			}
			// index = byte(crc) ^ b
			a, b := ix.X, ix.Y
			isLow := func(v ssa.Value) bool {
				c, ok := v.(*ssa.Convert)
				return ok && c.Type().String() == "byte" || ok && c.Type().String() == "uint8"
			}
			if (isLow(a) && core.IsFieldLoad(core.Unwrap(a), "digest", "crc")) || (isLow(b) && core.IsFieldLoad(core.Unwrap(b), "digest", "crc")) {
				// stored back into crc
				for _, ref := range *x.Referrers() {
					if st, ok := ref.(*ssa.Store); ok {
						if fa, ok := st.Addr.(*ssa.FieldAddr); ok && core.FieldName(fa) == "crc" {
							okStep = true
						}
					}
				}
			}
		}
	}
	r.Check(okStep, "digest.update/step", f.Pos(), "expected crc = table[byte(crc) ^ b] ^ (crc >> 8) for every byte")
}

func ruleSignedInts(w *core.World, r *core.Report) {
	// ziplist: per encoding constant, the value formatted goes through a signed type of that width
	if f := fn(w, r, "pkg/redis/types.ReadZiplistEntry2"); f != nil {
		want := map[string]string{"rdbZiplistInt8": "int8", "rdbZiplistInt16": "int16", "rdbZiplistInt24": "int24", "rdbZiplistInt32": "int32", "rdbZiplistInt64": "int64"}
		p := w.Pkg("pkg/redis/types")
		byVal := map[int64]string{}
		for n := range want {
			if c, ok := p.Types.Scope().Lookup(n).(*types.Const); ok {
				v, _ := constant.Int64Val(c.Val())
				byVal[v] = n
			}
		}
		seen := map[string]bool{}
		// per encoding: the bytes read under `encoding == K` are first converted to the signed type of
		// that width (24 bit: shifted up, converted to int32, shifted down), whatever is done with the
		// value afterwards (formatted at once, or returned as int64 by a helper and formatted by the caller)
		for _, g := range append([]*ssa.Function{f}, core.ExpandedCallees(f)...) {
			for _, in := range core.OwnInstrs(g) {
				call, ok := in.(*ssa.Call)
				if !ok {
					continue
				}
				m := core.ResolveCall(call).Name
				if !strings.Contains(m, "SliceBuffer).Read") {
					continue
				}
				enc := ""
				for _, fct := range core.FactsAt(call.Block()) {
					if c, ok := core.FactCmp(fct); ok && c.Op == token.EQL {
						if k, ok := core.ConstInt(c.Y); ok && byVal[k] != "" {
							enc = byVal[k]
						}
					}
				}
				if enc == "" {
					continue // length bytes of a string, the 4-bit immediate
				}
				seen[enc] = true
				okW := true
				uses := 0
				for _, ref := range *call.Referrers() {
					if _, isDbg := ref.(*ssa.DebugRef); isDbg {
						continue
					}
					uses++
					good := false
					switch want[enc] {
					case "int24":
						// sign-extension idiom: int32(x << 8) >> 8
						if shl, ok := ref.(*ssa.BinOp); ok && shl.Op == token.SHL && isConstInt(8)(shl.Y) {
							for _, r2 := range *shl.Referrers() {
								if cv, ok := r2.(*ssa.Convert); ok && cv.Type().String() == "int32" {
									for _, r3 := range *cv.Referrers() {
										if shr, ok := r3.(*ssa.BinOp); ok && shr.Op == token.SHR && isConstInt(8)(shr.Y) && shr.X == ssa.Value(cv) {
											good = true
										}
									}
								}
							}
						}
					default:
						if cv, ok := ref.(*ssa.Convert); ok && cv.Type().String() == want[enc] && isUnsigned(call.Type()) {
							good = true
						}
					}
					if !good {
						okW = false
					}
				}
				r.Check(okW && uses > 0, "ReadZiplistEntry2/"+enc, call.Pos(), "a %s ziplist integer must be widened through a signed %s (negative values otherwise decode as large positive ones)", enc, want[enc])
			}
		}
		for n := range want {
			if !seen[n] {
				r.Fail("ReadZiplistEntry2/"+n, f.Pos(), "integer encoding %s is not decoded", n)
			}
		}
	}
	// intset
	if f := fn(w, r, "(*pkg/rdb.SetParser).intset"); f != nil {
		n := 0
		okAll := true
		for _, s := range core.SitesNamed(f, false, "strconv.FormatInt") {
			n++
			v := s.Args()[0]
			// leaf call: binary.LittleEndian.UintNN -> signed type of NN
			width := ""
			core.Walk(v, func(x ssa.Value) bool {
				if c, ok := x.(*ssa.Call); ok {
					m := core.ResolveCall(c).Method
					if strings.HasPrefix(m, "Uint") {
						width = strings.TrimPrefix(m, "Uint")
					}
				}
				return true
			})
			signed := false
			core.Walk(v, func(x ssa.Value) bool {
				if cv, ok := x.(*ssa.Convert); ok && cv.Type().String() == "int"+width && isUnsigned(cv.X.Type()) {
					signed = true
				}
				return true
			})
			if width == "" || !signed {
				okAll = false
			}
		}
		r.Check(okAll && n == 3, "SetParser.intset/signed", f.Pos(), "each intset width must be reinterpreted as the signed type of that width before formatting (sites=%d)", n)
	}
	// listpack sign parameters
	if f := fn(w, r, "(*pkg/redis/types.Listpack).Next"); f != nil {
		width := map[[2]int64]int{{0xE0, 0xC0}: 13, {0xFF, 0xF1}: 16, {0xFF, 0xF2}: 24, {0xFF, 0xF3}: 32, {0xFF, 0xF4}: 64}
		got := map[int]map[string]uint64{}
		// roles, not names: the sign threshold is the right operand of `u >= T`,
		// the maximum the left operand of `M - u` on the same u.
		role := map[*ssa.Phi]string{}
		for _, in := range core.Instrs(f) {
			ge, ok := in.(*ssa.BinOp)
			if !ok || ge.Op != token.GEQ {
				continue
			}
			th, ok := ge.Y.(*ssa.Phi)
			if !ok {
				continue
			}
			for _, in2 := range core.Instrs(f) {
				sub, ok := in2.(*ssa.BinOp)
				if !ok || sub.Op != token.SUB || sub.Y != ge.X {
					continue
				}
				if mx, ok := sub.X.(*ssa.Phi); ok {
					role[th] = "negstart"
					role[mx] = "negmax"
				}
			}
		}
		for _, in := range core.Instrs(f) {
			ph, ok := in.(*ssa.Phi)
			if !ok || role[ph] == "" {
				continue
			}
			for i, e := range ph.Edges {
				c, ok := e.(*ssa.Const)
				if !ok || c.Value == nil {
					continue
				}
				pred := ph.Block().Preds[i]
				for _, fct := range core.FactsAt(pred) {
					cmp, ok := core.FactCmp(fct)
					if !ok || cmp.Op != token.EQL {
						continue
					}
					and, ok := cmp.X.(*ssa.BinOp)
					if !ok || and.Op != token.AND {
						continue
					}
					m, ok1 := core.ConstInt(and.Y)
					en, ok2 := core.ConstInt(cmp.Y)
					if !ok1 || !ok2 {
						continue
					}
					if wd, ok := width[[2]int64{m, en}]; ok {
						if got[wd] == nil {
							got[wd] = map[string]uint64{}
						}
						u, _ := constant.Uint64Val(c.Value)
						got[wd][role[ph]] = u
					}
				}
			}
		}
		var bad []string
		for _, wd := range []int{13, 16, 24, 32, 64} {
			g := got[wd]
			wantStart := uint64(1) << uint(wd-1)
			wantMax := ^uint64(0)
			if wd < 64 {
				wantMax = uint64(1)<<uint(wd) - 1
			}
			if g == nil || g["negstart"] != wantStart || g["negmax"] != wantMax {
				bad = append(bad, strings.TrimSpace(strings.Join([]string{itoa(wd), "bit"}, "-")))
			}
		}
		r.Check(len(bad) == 0, "Listpack.Next/sign-parameters", f.Pos(), "for a w-bit listpack integer the sign threshold must be 1<<(w-1) and the maximum 2^w-1; wrong or unrecognised for %v", bad)
	}
}

func ruleZiplistEnd(w *core.World, r *core.Report) {
	f := fn(w, r, "(*pkg/redis/types.Ziplist).Next")
	if f == nil {
		return
	}
	n := 0
	okAll := true
	var pos token.Pos = f.Pos()
	for _, in := range core.Instrs(f) {
		b, ok := in.(*ssa.BinOp)
		if !ok || (b.Op != token.EQL && b.Op != token.NEQ) {
			continue
		}
		if !isResultOf("(*pkg/util.SliceBuffer).ReadByte", -1)(b.X) {
			continue
		}
		k, ok := core.ConstInt(b.Y)
		if !ok {
			continue
		}
		n++
		if k != 255 {
			okAll = false
			pos = b.Pos()
		}
	}
	r.Check(okAll && n >= 2, "Ziplist.Next/terminator", pos, "the end of a ziplist is the byte 255; 254 is the marker of a 5-byte prevlen and occurs inside the list (comparisons=%d)", n)
}

func ruleExpiryPaths(w *core.World, r *core.Report) {
	f := fn(w, r, replayFn)
	if f == nil {
		return
	}
	isExpire := func(v ssa.Value) bool { return core.IsFieldLoad(core.Unwrap(v), "BinEntry", "ExpireAt") }
	bad := ""
	var badPos token.Pos
	n := 0
	core.EnumPathsN(f.Blocks[0], 0, 400000, core.Unroll, func(p *core.Path) {
		ret, ok := p.End.(*ssa.Return)
		if !ok || bad != "" {
			return
		}
		for _, rv := range core.RetVals(ret, 0) {
			if !core.IsNilConst(p.Resolve(rv)) {
				return
			}
		}
		ev := replayEvents(p)
		last := -1
		for i, e := range ev {
			if e.kind == "expand" {
				last = i
			}
		}
		if last < 0 {
			return
		}
		// paths on which the entry is known to have no expiry are exempt
		noExpiry := false
		hasExpiry := false
		for _, fct := range p.Conds {
			c, ok := core.FactCmp(fct)
			if ok && isExpire(p.Resolve(c.X)) && isConstInt(0)(c.Y) {
				if c.Op == token.EQL {
					noExpiry = true
				}
				if c.Op == token.NEQ {
					hasExpiry = true
				}
			}
		}
		if noExpiry {
			return
		}
		n++
		okExp := false
		for _, e := range ev[last+1:] {
			if e.kind == "pexpire" {
				okExp = true
			}
		}
		if !okExp && hasExpiry {
			bad, badPos = "a value with an expiry is expanded into native commands and the replay succeeds without PEXPIRE after it: the key never expires on the target", ev[last].pos
		}
	})
	r.Check(bad == "" && n > 0, "Replay/expiry-after-expansion", badPos, "%s", bad)
	// RESTORE carries ttlms as its second argument, and ttlms is 1 when the expiry is in the past
	okTTL := false
	for _, s := range core.Sites(f, false) {
		if s.Method != "Do" {
			continue
		}
		if cmd, ok := core.CmdName(s); ok && cmd == "restore" {
			// params slice: [key, ttlms, dump]
			core.Walk(s.Args()[1], func(v ssa.Value) bool {
				if ph, ok := v.(*ssa.Phi); ok && isTTLValue(ph) {
					okTTL = true
				}
				// or computed by a helper the rule base does not know: its returns are 1 and "expiry - now"
				if c, ok := v.(*ssa.Call); ok {
					if g := core.ResolveCall(c).Callee; g != nil && core.Transparent != nil && core.Transparent(g) {
						one, diff := false, false
						for _, in := range core.OwnInstrs(g) {
							ret, isRet := in.(*ssa.Return)
							if !isRet || len(ret.Results) != 1 {
								continue
							}
							for _, rv := range core.RetVals(ret, 0) {
								if isConstInt(1)(rv) {
									one = true
								}
								if b, isB := rv.(*ssa.BinOp); isB && b.Op == token.SUB {
									if fieldNameOfLoad(core.Unwrap(b.X)) == "ExpireAt" {
										diff = true
									}
									if par, isP := b.X.(*ssa.Parameter); isP {
										for i, q := range g.Params {
											if q == par && i < len(c.Call.Args) && fieldNameOfLoad(core.Unwrap(c.Call.Args[i])) == "ExpireAt" {
												diff = true
											}
										}
									}
								}
							}
						}
						if one && diff {
							okTTL = true
						}
					}
				}
				return true
			})
		}
	}
	r.Check(okTTL, "Replay/restore-ttl", f.Pos(), "RESTORE must carry the computed ttl")
	for _, name := range []string{replayFn, "syncer.bisyncRdbTTLms"} {
		g := w.Func(name)
		if g == nil {
			r.Unresolved(name, "ttl computation not found")
			continue
		}
		one := false
		for _, in := range core.Instrs(g) {
			ph, ok := in.(*ssa.Phi)
			if !ok {
				continue
			}
			for i, e := range ph.Edges {
				if !isConstInt(1)(e) {
					continue
				}
				for _, fct := range core.FactsAt(ph.Block().Preds[i]) {
					if c, ok := core.FactCmp(fct); ok && (c.Op == token.GEQ || c.Op == token.LEQ || c.Op == token.GTR || c.Op == token.LSS) {
						one = true
					}
				}
			}
		}
		if !one {
			// the computation may live in a helper of its own: one of its returns is the constant 1
			for _, h := range append([]*ssa.Function{g}, core.ExpandedCallees(g)...) {
				for _, in := range core.OwnInstrs(h) {
					if ret, ok := in.(*ssa.Return); ok && len(ret.Results) == 1 && isConstInt(1)(core.RetVal(ret, 0)) {
						one = true
					}
				}
			}
		}
		r.Check(one, shortName(name)+"/past-expiry-is-1ms", g.Pos(), "a key already past its expiry must be given a ttl of 1 ms (0 would mean 'no expiry')")
	}
}

func ruleKeyedFanout(w *core.World, r *core.Report) {
	f := fn(w, r, "(*syncer.RedisOutput).sendRdb")
	if f == nil {
		return
	}
	found := false
	for _, g := range core.DeepFuncs(f) {
		for _, s := range core.SitesNamed(g, false, "pkg/util.FnvHash") {
			found = true
			a := s.Args()[0]
			okKey := core.IsFieldLoad(core.Unwrap(a), "BinEntry", "Key")
			// used as hash % pipeLen, stored in idx, under len(e.Key) > 0
			okMod := false
			for _, ref := range *s.Value().Referrers() {
				if b, ok := ref.(*ssa.BinOp); ok && b.Op == token.REM {
					okMod = true
				}
			}
			r.Check(okKey && okMod, "sendRdb/keyed-fanout", s.Pos(), "the lane of an entry with a key must be hash(key) %% lanes, so that all chunks of one key stay on one ordered lane")
		}
	}
	if !found {
		r.Fail("sendRdb/keyed-fanout", f.Pos(), "entries are not distributed by key hash")
	}
}

func ruleTeeReads(w *core.World, r *core.Report) {
	n := 0
	for _, f := range w.FuncsIn("pkg/rdb") {
		if f.Name() != "ReadBuffer" || f.Signature.Recv() == nil || len(f.Params) != 2 {
			continue
		}
		lr := ssa.Value(f.Params[1])
		var tee ssa.Value
		for _, s := range core.SitesNamed(f, false, "pkg/rdb.NewRdbReader") {
			a := s.Args()[0]
			if core.DependsOn(a, isResultOf("io.TeeReader", -1)) {
				// the tee's sink is the parser's buf and its source the loader
				tee = s.Value()
			}
		}
		if tee == nil {
			continue
		}
		n++
		bad := ""
		var pos token.Pos
		for _, s := range core.Sites(f, false) {
			if s.Callee == nil || s.Callee.Signature.Recv() == nil {
				continue
			}
			rt := core.TypeName(s.Callee.Signature.Recv().Type())
			if !strings.HasSuffix(rt, "rdb.RdbReader") && !strings.HasSuffix(rt, "rdb.Loader") {
				continue
			}
			if !strings.HasPrefix(s.Method, "Read") && !strings.HasPrefix(s.Method, "read") {
				continue
			}
			rcv := s.Recv()
			if rcv == tee {
				continue
			}
			if strings.HasSuffix(s.Method, "readBufferBegin") || strings.HasSuffix(s.Method, "readBufferEnd") {
				continue
			}
			// reading the loader (or a reader built on it) directly bypasses the payload buffer
			if rcv == lr || core.DependsOn(rcv, func(v ssa.Value) bool { return v == lr }) {
				bad, pos = s.Method+" reads value bytes past the tee: they are missing from the RESTORE payload of this type", s.Pos()
			}
		}
		r.Check(bad == "", core.TypeName(f.Signature.Recv().Type())+".ReadBuffer/tee", pos, "%s", bad)
	}
	if n == 0 {
		r.Fail("ReadBuffer/tee", token.NoPos, "no ReadBuffer with a tee found")
	}
}

// ruleRestoreChoiceAgrees (R03.9): the plain replay (RdbReplay.Replay) and the bidirectional one
// (bisyncRdbUseRestore) choose RESTORE under the same four conditions. Stated on paths (r7_n1.go,
// restoreChoiceOnPaths): whatever chooses RESTORE has established all four, in whatever arrangement.
func ruleRestoreChoiceAgrees(w *core.World, r *core.Report) {
	a := fn(w, r, replayFn)
	b := fn(w, r, "(*syncer.RedisOutput).bisyncRdbUseRestore")
	if a == nil || b == nil {
		return
	}
	// plain replay: the path sends a RESTORE command
	sendsRestore := func(p *core.Path) (bool, ssa.Value, bool, bool) {
		for _, e := range replayEvents(p) {
			if e.kind == "restore" || e.kind == "restore-replace" {
				return true, nil, false, true
			}
		}
		return false, nil, false, true
	}
	// bidirectional replay: the predicate returns true
	returnsTrue := func(p *core.Path) (bool, ssa.Value, bool, bool) {
		ret, isRet := p.End.(*ssa.Return)
		if !isRet {
			return false, nil, false, true // a panic chooses nothing
		}
		if len(ret.Results) != 1 {
			return false, nil, false, false
		}
		v := p.Resolve(core.RetVal(ret, 0))
		if val, known := p.Eval(v); known {
			return val, nil, false, true
		}
		// a boolean expression is returned: RESTORE is chosen when it is true
		return true, v, true, true
	}
	badA, posA, nA, okA := restoreChoiceOnPaths(w, a, sendsRestore)
	badB, posB, nB, okB := restoreChoiceOnPaths(w, b, returnsTrue)
	if !okA || !okB {
		r.Undecided("restore-choice/agree", b.Pos(), "too many paths (plain enumerated: %v, bidirectional enumerated: %v)", okA, okB)
		return
	}
	pos := posB
	if badA != "" {
		pos = posA
	}
	r.Check(badA == "" && badB == "" && nA > 0 && nB > 0, "restore-choice/agree", pos, "both replay paths must choose RESTORE only when enabled, restorable, not split and payload <= proto-max-bulk-len; a RESTORE of one chunk of a split value, or of a payload the target refuses, loses part of the snapshot (plain replay: %s, paths choosing RESTORE=%d; bidirectional: %s, paths=%d)", badA, nA, badB, nB)
}

func isUnsigned(t types.Type) bool {
	b, ok := t.Underlying().(*types.Basic)
	return ok && b.Info()&types.IsUnsigned != 0
}

// ruleChunksAppend: the DEL (replace policy) and the existence probe of
// RdbReplay.Replay run for the first chunk of a value only; for a later
// chunk they would remove what the earlier chunks wrote.
func ruleChunksAppend(w *core.World, r *core.Report) {
	f := fn(w, r, replayFn)
	if f == nil {
		return
	}
	isFirst := func(x ssa.Value) bool {
		c, ok := core.Unwrap(x).(*ssa.Call)
		return ok && strings.HasSuffix(core.ResolveCall(c).Name, "BinEntry).FirstBin")
	}
	bad := ""
	var badPos token.Pos
	n := 0
	core.EnumPathsN(f.Blocks[0], 0, 400000, core.Unroll, func(p *core.Path) {
		if bad != "" {
			return
		}
		first := pathAssumed(p, isFirst, true)
		for _, e := range replayEvents(p) {
			if e.kind == "del" || e.kind == "exists" {
				n++
				whole := pathAssumedN(p, func(x ssa.Value) bool {
					c, ok := core.Unwrap(x).(*ssa.Call)
					return ok && c.Call.IsInvoke() && c.Call.Method.Name() == "IsSplited"
				}, false)
				if !first && !whole {
					bad, badPos = e.kind+" runs for a chunk that is not the first one of a split value: the chunks written before it are deleted (replace) or make the replay fail (error)", e.pos
				}
			}
		}
	})
	r.Check(bad == "" && n > 0, "Replay/chunks-append", badPos, "%s", bad)
}

// ---------------------------------------------------------------- R03.11 listpack entry stepping

// ruleListpackStep: Listpack.Next steps over an entry by header+payload+back
// length. Both tables are published constants of the listpack format
// (listpack.c): the back-length size by total entry size, and the header size
// by encoding.
func ruleListpackStep(w *core.World, r *core.Report) {
	if f := fn(w, r, "pkg/redis/types.lpEncodeBacklen"); f != nil && len(f.Params) == 1 {
		p := f.Params[0]
		type piece struct {
			lo, hi uint64
			k      int64
		}
		var got []piece
		undec := ""
		core.EnumPaths(f.Blocks[0], 0, 1000, func(pt *core.Path) {
			ret, ok := pt.End.(*ssa.Return)
			if !ok || len(ret.Results) != 1 {
				return
			}
			lo, hi := uint64(0), uint64(1)<<32-1
			for _, fct := range pt.Conds {
				c, ok := core.FactCmp(fct)
				if !ok || core.Unwrap(c.X) != ssa.Value(p) {
					undec = "a branch of the back-length function is not a comparison of its argument with a constant"
					return
				}
				k, ok := core.ConstInt(c.Y)
				if !ok || k < 0 {
					undec = "a branch of the back-length function is not a comparison of its argument with a constant"
					return
				}
				u := uint64(k)
				switch c.Op {
				case token.LEQ:
					if u < hi {
						hi = u
					}
				case token.LSS:
					if u == 0 {
						hi, lo = 0, 1
					} else if u-1 < hi {
						hi = u - 1
					}
				case token.GTR:
					if u+1 > lo {
						lo = u + 1
					}
				case token.GEQ:
					if u > lo {
						lo = u
					}
				default:
					undec = "unexpected comparison in the back-length function"
					return
				}
			}
			b, ok := core.Unwrap(pt.Resolve(ret.Results[0])).(*ssa.BinOp)
			if !ok || b.Op != token.ADD || core.Unwrap(b.X) != ssa.Value(p) {
				undec = "the back-length function must return its argument plus a constant size"
				return
			}
			k, ok := core.ConstInt(b.Y)
			if !ok {
				undec = "the back-length function must return its argument plus a constant size"
				return
			}
			if lo <= hi {
				got = append(got, piece{lo, hi, k})
			}
		})
		sort.Slice(got, func(i, j int) bool { return got[i].lo < got[j].lo })
		want := []piece{{0, 127, 1}, {128, 16382, 2}, {16383, 2097150, 3}, {2097151, 268435454, 4}, {268435455, 1<<32 - 1, 5}}
		same := len(got) == len(want)
		if same {
			for i := range got {
				if got[i] != want[i] {
					same = false
				}
			}
		}
		if undec != "" {
			r.Undecided("lpEncodeBacklen/size-table", f.Pos(), "%s", undec)
		} else {
			r.Check(same, "lpEncodeBacklen/size-table", f.Pos(), "the back-length of a listpack entry of total size l takes 1 byte for l<=127, 2 for l<16383, 3 for l<2097151, 4 for l<268435455, else 5 (listpack.c); found pieces %v: an entry of a boundary size would be stepped over by the wrong amount and every following element misread", got)
		}
	}
	if f := fn(w, r, "(*pkg/redis/types.Listpack).Next"); f != nil {
		// encoding (mask, value) -> header bytes, and whether a payload length is added
		type enc struct {
			hdr  int64
			plus bool
		}
		want := map[[2]int64]enc{{0x80, 0x00}: {1, false}, {0xC0, 0x80}: {1, true}, {0xE0, 0xC0}: {2, false}, {0xF0, 0xE0}: {2, true},
			{0xFF, 0xF0}: {5, true}, {0xFF, 0xF1}: {3, false}, {0xFF, 0xF2}: {4, false}, {0xFF, 0xF3}: {5, false}, {0xFF, 0xF4}: {9, false}}
		seen := map[[2]int64]bool{}
		var bad []string
		for _, s := range core.SitesNamed(f, false, "pkg/redis/types.lpEncodeBacklen") {
			var key [2]int64
			found := false
			facts := core.FactsAt(s.Instr.Block())
			for i := len(facts) - 1; i >= 0 && !found; i-- {
				fct := facts[i]
				cmp, ok := core.FactCmp(fct)
				if !ok || cmp.Op != token.EQL {
					continue
				}
				and, ok := cmp.X.(*ssa.BinOp)
				if !ok || and.Op != token.AND {
					continue
				}
				m, ok1 := core.ConstInt(and.Y)
				en, ok2 := core.ConstInt(cmp.Y)
				if ok1 && ok2 {
					key, found = [2]int64{m, en}, true
				}
			}
			if !found {
				bad = append(bad, "a step whose encoding test was not recognised at "+w.Pos(s.Pos()))
				continue
			}
			wt, known := want[key]
			if !known {
				bad = append(bad, fmt.Sprintf("unknown encoding mask/value %#x/%#x", key[0], key[1]))
				continue
			}
			seen[key] = true
			a := core.Unwrap(s.Args()[0])
			var hdr int64 = -1
			plus := false
			if c, ok := core.ConstInt(a); ok {
				hdr = c
			} else if b, ok := a.(*ssa.BinOp); ok && b.Op == token.ADD {
				if c, ok := core.ConstInt(b.X); ok {
					hdr, plus = c, true
				} else if c, ok := core.ConstInt(b.Y); ok {
					hdr, plus = c, true
				}
			}
			if hdr != wt.hdr || plus != wt.plus {
				bad = append(bad, fmt.Sprintf("encoding %#x/%#x steps over %d header byte(s) (payload added: %v), the format has %d (payload added: %v)", key[0], key[1], hdr, plus, wt.hdr, wt.plus))
			}
		}
		for k := range want {
			if !seen[k] {
				bad = append(bad, fmt.Sprintf("encoding %#x/%#x is not stepped over", k[0], k[1]))
			}
		}
		sort.Strings(bad)
		r.Check(len(bad) == 0, "Listpack.Next/entry-size", f.Pos(), "every listpack encoding must advance the cursor by its header size (+ payload length for strings) + back length: %v", bad)
	}
}

// ---------------------------------------------------------------- R03.13 stream master entry

// ruleStreamMasterFields: inside one stream listpack the master entry fixes
// the field names and their number for every entry flagged SAMEFIELDS. The
// count that bounds the loop indexing the master's field list must therefore
// have a single definition (the master entry's num-fields); if an entry with
// its own fields can redefine it, later SAMEFIELDS entries are expanded with
// the wrong number of values.
func ruleStreamMasterFields(w *core.World, r *core.Report) {
	f := fn(w, r, "(*pkg/rdb.StreamParser).ExecCmd")
	if f == nil {
		return
	}
	n := 0
	for _, in := range core.Instrs(f) {
		ia, ok := in.(*ssa.IndexAddr)
		if !ok || ia.X.Type().String() != "[][]byte" {
			continue
		}
		j, ok := ia.Index.(*ssa.Phi)
		if !ok {
			continue
		}
		// the bound j is compared with
		for _, ref := range *j.Referrers() {
			cmp, ok := ref.(*ssa.BinOp)
			if !ok || cmp.Op != token.LSS || cmp.X != ssa.Value(j) {
				continue
			}
			n++
			leaves := map[ssa.Value]bool{}
			seen := map[ssa.Value]bool{}
			var walk func(v ssa.Value)
			walk = func(v ssa.Value) {
				if seen[v] {
					return
				}
				seen[v] = true
				if ph, ok := v.(*ssa.Phi); ok {
					for _, e := range ph.Edges {
						walk(e)
					}
					return
				}
				leaves[v] = true
			}
			walk(cmp.Y)
			okOne := len(leaves) == 1
			for l := range leaves {
				if !isResultOf("(*pkg/redis/types.Listpack).NextInteger", -1)(l) {
					okOne = false
				}
			}
			r.Check(okOne, "StreamParser.ExecCmd/master-field-count", cmp.Pos(), "the number of values read for a SAMEFIELDS entry must be the master entry's field count and nothing else; it has %d definitions (an entry with its own fields overwrites it): later SAMEFIELDS entries of the listpack lose values or are misaligned", len(leaves))
		}
	}
	if n == 0 {
		r.Fail("StreamParser.ExecCmd/master-field-count", f.Pos(), "no loop over the master entry's fields found")
	}
}

// isTTLValue recognises the computed time-to-live by what it is made of: a
// merge of the constant 1 (expiry already past) and "expiry - now".
func isTTLValue(ph *ssa.Phi) bool {
	one, diff := false, false
	seen := map[*ssa.Phi]bool{}
	var walk func(p *ssa.Phi)
	walk = func(p *ssa.Phi) {
		if seen[p] {
			return
		}
		seen[p] = true
		for _, e := range p.Edges {
			switch x := e.(type) {
			case *ssa.Phi:
				walk(x)
			case *ssa.BinOp:
				if x.Op == token.SUB && fieldNameOfLoad(x.X) == "ExpireAt" {
					diff = true
				}
			default:
				if isConstInt(1)(e) {
					one = true
				}
			}
		}
	}
	walk(ph)
	return one && diff
}

// ---------------------------------------------------------------- R03.14 nil means "end of the packed structure" and nothing else

// ruleNilIsEndOnly: the ziplist consumers (list, hash, zset expansion) stop at
// the first nil that Next() hands them. An element must therefore never be
// nil: an empty string element is an empty, non-nil slice. The chain is
// Next -> ReadZiplistEntry2 -> SliceBuffer.Slice; each link may answer nil only
// where it does not return normally (a panic) or, for Slice1, together with an
// error.
func ruleNilIsEndOnly(w *core.World, r *core.Report) {
	afterPanic := func(ret *ssa.Return) bool {
		// the return follows a call that reports a non-nil error by panicking (util.PanicIfErr(fmt.Errorf(…)))
		for _, in := range ret.Block().Instrs {
			if c, ok := in.(*ssa.Call); ok {
				n := core.ResolveCall(c).Name
				if strings.HasSuffix(n, "util.PanicIfErr") || strings.HasSuffix(n, ".panicIfErr") {
					return true
				}
			}
		}
		return false
	}
	if f := fn(w, r, "(*pkg/util.SliceBuffer).Slice"); f != nil {
		bad := ""
		var pos token.Pos = f.Pos()
		n := 0
		okEnum := core.EnumPathsN(f.Blocks[0], 0, 100000, 1, func(p *core.Path) {
			ret, isRet := p.End.(*ssa.Return)
			if !isRet || ret.Parent() != f || len(ret.Results) == 0 {
				return
			}
			n++
			v := p.Resolve(ret.Results[0])
			if _, isSlice := core.Unwrap(v).(*ssa.Slice); !isSlice {
				bad, pos = "Slice returns something other than a slice of the buffer ("+v.String()+"): a nil answer for an empty element reads as 'end of the ziplist' in every consumer, the rest of the structure is silently dropped", ret.Pos()
			}
		})
		if !okEnum {
			bad = "too many paths"
		}
		r.Check(bad == "" && n > 0, "SliceBuffer.Slice/never-nil", pos, "%s", bad)
	}
	if f := fn(w, r, "(*pkg/util.SliceBuffer).Slice1"); f != nil {
		bad := ""
		var pos token.Pos = f.Pos()
		n := 0
		for _, ret := range core.ReturnsX(f) {
			if len(ret.Results) != 2 {
				continue
			}
			n++
			v, e := core.RetVal(ret, 0), core.RetVal(ret, 1)
			if core.IsNilConst(v) && core.IsNilConst(e) {
				bad, pos = "Slice1 answers (nil, nil): an empty element becomes indistinguishable from 'nothing there'", ret.Pos()
			}
		}
		r.Check(bad == "" && n > 0, "SliceBuffer.Slice1/nil-only-with-error", pos, "%s", bad)
	}
	if f := fn(w, r, "pkg/redis/types.ReadZiplistEntry2"); f != nil {
		bad := ""
		var pos token.Pos = f.Pos()
		n := 0
		for _, ret := range core.ReturnsX(f) {
			for _, v := range core.RetVals(ret, 0) {
				n++
				if core.IsNilConst(v) && !afterPanic(ret) {
					bad, pos = "an entry is answered with nil on a path that returns normally: the consumers take nil for the end of the ziplist", ret.Pos()
				}
			}
		}
		r.Check(bad == "" && n > 0, "ReadZiplistEntry2/never-nil", pos, "%s", bad)
	}
}

// ---------------------------------------------------------------- R03.15 a key with an expiry is never replayed with ttl 0

// ruleTtlNeverZero: the remaining life of a key is handed to RESTORE as its ttl
// argument, and RESTORE reads ttl 0 as "no expiry". An entry that carries an
// expiry must therefore never be replayed with 0: the difference ExpireAt − now
// may be used only where the tests in force say ExpireAt > now strictly (at
// ExpireAt == now the difference is 0 and the key the source is dropping lives on
// for ever on the target); everything else must be a positive constant.
func ruleTtlNeverZero(w *core.World, r *core.Report) {
	f := fn(w, r, "(*pkg/rdbrestore.RdbReplay).Replay")
	if f == nil {
		return
	}
	isExpire := func(v ssa.Value) bool { return fieldNameOfLoad(core.Unwrap(v)) == "ExpireAt" }
	n := 0
	for _, g := range reachableFuncs(f) {
		if g != f && !(core.Transparent != nil && core.Transparent(g)) {
			continue
		}
		for _, in := range core.OwnInstrs(g) {
			sub, ok := in.(*ssa.BinOp)
			if !ok || sub.Op != token.SUB || !isExpire(sub.X) {
				continue
			}
			n++
			strict := false
			for _, fct := range core.FactsAt(sub.Block()) {
				c, ok := core.FactCmp(fct)
				if !ok {
					continue
				}
				x, y := core.Unwrap(c.X), core.Unwrap(c.Y)
				a, b := core.Unwrap(sub.X), core.Unwrap(sub.Y)
				sameExp := func(v ssa.Value) bool { return v == a || isExpire(v) }
				if (c.Op == token.GTR && sameExp(x) && y == b) || (c.Op == token.LSS && x == b && sameExp(y)) {
					strict = true
				}
			}
			r.Check(strict, shortName(core.FuncName(g))+"/ttl-never-zero", sub.Pos(), "the remaining life ExpireAt − now is used where the tests in force do not say ExpireAt > now strictly: at equality the ttl is 0, which RESTORE reads as 'no expiry' — the key never expires on the target")
			// the other values the ttl can take: positive constants (0 only as the initial 'no expiry' value)
			if refs := sub.Referrers(); refs != nil {
				for _, ref := range *refs {
					ph, isPhi := ref.(*ssa.Phi)
					if !isPhi {
						continue
					}
					for i, e := range ph.Edges {
						k, isK := core.ConstInt(e)
						if !isK {
							continue
						}
						if k == 0 {
							// allowed only on the edge that skipped the expiry block altogether
							hasExp := false
							for _, fct := range core.FactsAt(ph.Block().Preds[i]) {
								if c, ok := core.FactCmp(fct); ok && c.Op == token.NEQ && isExpire(c.X) {
									hasExp = true
								}
							}
							if !hasExp && ph.Block().Preds[i] != sub.Block() {
								continue
							}
						}
						r.Check(k > 0, shortName(core.FuncName(g))+"/ttl-never-zero", ph.Pos(), "an entry with an expiry gets the constant ttl %d", k)
					}
				}
			}
		}
	}
	if n == 0 {
		r.Undecided("Replay/ttl-never-zero", f.Pos(), "the computation of the remaining life (ExpireAt − now) was not found")
	}
}

// ---------------------------------------------------------------- R03.16 the LZF control byte is split 3 + 5 bits

// ruleLzfControlByte: compressed strings and packed structures are LZF blobs. A
// control byte below 32 starts a literal run; otherwise its top three bits are
// the match length and its low FIVE bits the high part of the 13-bit distance.
// A narrower mask keeps the output length right (the only thing the decoder
// checks) and silently copies from the wrong place for every distance of 4096
// and more. Decided on the bit-level normal form of the expressions (whatever
// way they are written): (x << 8) must be bits 0..4 of the control byte at
// positions 8..12, the length bits 5..7 at positions 0..2.
func ruleLzfControlByte(w *core.World, r *core.Report) {
	f := fn(w, r, "pkg/rdb.lzfDecompress")
	if f == nil {
		return
	}
	isByteSlice := func(t types.Type) bool {
		sl, ok := t.Underlying().(*types.Slice)
		if !ok {
			return false
		}
		b, ok := sl.Elem().Underlying().(*types.Basic)
		return ok && b.Kind() == types.Uint8
	}
	isCtrl := func(v ssa.Value) bool {
		// a byte of the (compressed) input: an element of a byte slice
		switch x := v.(type) {
		case *ssa.UnOp:
			if ia, ok := x.X.(*ssa.IndexAddr); ok && x.Op == token.MUL && isByteSlice(ia.X.Type()) {
				return true
			}
		case *ssa.Index:
			return isByteSlice(x.X.Type())
		}
		return false
	}
	// the control byte may reach the expressions as a parameter of a helper: what the one caller hands in
	paramArg := map[ssa.Value]ssa.Value{}
	for _, g := range reachableFuncs(f) {
		if g == f || !(core.Transparent != nil && core.Transparent(g)) {
			continue
		}
		for _, par := range g.Params {
			if vs := argValues(par, f); len(vs) == 1 && vs[0] != ssa.Value(par) {
				paramArg[par] = vs[0]
			}
		}
	}
	newEnv := func() *bvEnv {
		sub := map[ssa.Value]ssa.Value{}
		for k, v := range paramArg {
			sub[k] = v
		}
		return &bvEnv{sub: sub, leaf: func(v ssa.Value) (int, int, bool) {
			if isCtrl(v) {
				return 0, 8, true
			}
			return 0, 0, false
		}}
	}
	okDist, okLen, nDist, nLen := true, true, 0, 0
	var pos token.Pos = f.Pos()
	for _, g := range reachableFuncs(f) {
		if g != f && !(core.Transparent != nil && core.Transparent(g)) {
			continue
		}
		for _, ins := range core.OwnInstrs(g) {
			b, ok := ins.(*ssa.BinOp)
			if !ok {
				continue
			}
			k, isK := constShift(b.Y)
			if !isK {
				continue
			}
			switch {
			case b.Op == token.SHL && k == 8:
				got, ok := newEnv().norm(b)
				if !ok {
					continue
				}
				nDist++
				for j := 0; j < 64; j++ {
					want := uint64(0)
					if j >= 8 && j <= 12 {
						want = 1 << uint(j-8)
					}
					if got.lin[j] != want {
						okDist, pos = false, b.Pos()
					}
				}
			case b.Op == token.SHR && k == 5:
				got, ok := newEnv().norm(b)
				if !ok {
					continue
				}
				nLen++
				for j := 0; j < 64; j++ {
					want := uint64(0)
					if j <= 2 {
						want = 1 << uint(j+5)
					}
					if got.lin[j] != want {
						okLen, pos = false, b.Pos()
					}
				}
			}
		}
	}
	r.Check(okDist && okLen && nDist >= 1 && nLen >= 1, "lzfDecompress/control-byte", pos, "the control byte must be split into length = bits 5..7 (ok: %v, sites %d) and distance high part = bits 0..4, shifted to 8..12 (ok: %v, sites %d): a narrower mask copies from the wrong place for distances of 4096 and more while the output length stays right", okLen, nLen, okDist, nDist)
}
