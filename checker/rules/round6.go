package rules

import (
	"fmt"
	"go/token"
	"go/types"
	"os"
	"strings"

	"golang.org/x/tools/go/ssa"

	"gunyucheck/core"
)

// Rules that came out of the sixth round of independently written breaking
// changes (DESIGN.md section 8). Each states a structural necessary condition
// of the property it is registered under and names the construct it judges.

func isSuccessReturn(in ssa.Instruction) bool {
	ret, ok := in.(*ssa.Return)
	return ok && len(ret.Results) > 0 && core.IsNilConst(ret.Results[len(ret.Results)-1])
}

func isGlobalLoad(v ssa.Value, name string) bool {
	ld, ok := core.Unwrap(v).(*ssa.UnOp)
	if !ok || ld.Op != token.MUL {
		return false
	}
	g, ok := ld.X.(*ssa.Global)
	return ok && g.Name() == name
}

// ---------------------------------------------------------------- R04.11 a plain cluster batch reports error replies

// ruleBatchExecChecksReplies: the expanded (native-command) replay pipelines its
// commands and looks only at the error of the receive step. On a cluster target
// that step is Batch.Exec: an error *reply* (-OOM, -WRONGTYPE, -READONLY) is an
// ordinary reply value there unless Exec scans the replies. Without the scan a
// refused command of a snapshot entry is taken for applied, the replay returns
// nil and the snapshot is recorded as complete.
func ruleBatchExecChecksReplies(w *core.World, r *core.Report) {
	f := fn(w, r, "(*pkg/redis/client/cluster.Batch).Exec")
	if f == nil {
		return
	}
	var scan core.Site
	for _, s := range core.SitesNamed(f, false, "pkg/redis/client/common.CheckRepliesError") {
		if failureReturned(f, s) {
			scan = s
		}
	}
	ok := scan.Instr != nil
	var pos token.Pos = f.Pos()
	n := 0
	for _, in := range core.Instrs(f) {
		ret, isRet := in.(*ssa.Return)
		if !isRet || !isSuccessReturn(in) || core.IsNilConst(ret.Results[0]) {
			continue
		}
		// the replies that were collected (an empty batch answers a fresh empty list)
		if !core.DependsOn(ret.Results[0], func(x ssa.Value) bool {
			c, ok := x.(*ssa.Call)
			return ok && isBuiltin(c, "append")
		}) {
			continue
		}
		n++
		if scan.Instr == nil || !core.Dominates(scan.Instr, in) {
			ok, pos = false, ret.Pos()
		}
	}
	r.Check(ok && n > 0, "Batch.Exec/error-replies-reported", pos, "the replies of a plain cluster batch are returned as a success without having been scanned for error replies (CheckRepliesError, its failure returned): a command the target refused counts as applied, and a snapshot entry replayed through native commands is recorded as complete although part of it is missing")
}

// ---------------------------------------------------------------- R05.15 every segment starts with a fresh checksum

// ruleOpenFileResetsChecksum: the header of a log segment records the CRC of
// that segment's bytes. The running checksum must be reset whenever a segment is
// opened — at every rotation, not only when the writer is built — or the CRC of
// the second and later segments covers the bytes of their predecessors and a
// verifying reader refuses bytes that are exactly what was written.
func ruleOpenFileResetsChecksum(w *core.World, r *core.Report) {
	f := fn(w, r, "(*pkg/store.AofRotater).openFile")
	if f == nil {
		return
	}
	isReset := func(in ssa.Instruction) bool {
		st, ok := in.(*ssa.Store)
		if !ok {
			return false
		}
		fa, ok := st.Addr.(*ssa.FieldAddr)
		if !ok || core.FieldName(fa) != "crc" {
			return false
		}
		c, ok := core.Unwrap(st.Val).(*ssa.Call)
		return ok && core.ResolveCall(c).Name == "pkg/digest.New"
	}
	n := 0
	for _, in := range core.Instrs(f) {
		if isReset(in) {
			n++
		}
	}
	esc := core.PathFromBlock(f.Blocks[0], isSuccessReturn, isReset)
	r.Check(n > 0 && esc == nil, "AofRotater.openFile/fresh-checksum", f.Pos(), "a segment is opened on a path that does not start a fresh running checksum (crc = digest.New()): the CRC stored in the header of a rotated segment then covers the bytes of the segments before it, and a reader that verifies refuses bytes that equal what was written (resets found: %d)", n)
}

// ---------------------------------------------------------------- R06.12 (second part) a failed holder look-up ends the start-up maintenance

// ruleHolderLookupFailureSurfaces: which of the source's ids holds the
// checkpoint decides the id the checkpoint keeps (R06.12). When that look-up
// fails, falling back to the source's own order re-keys a checkpoint of the
// previous id to the current one before the source was asked — the very thing
// the look-up exists to prevent. The failure must be returned (the caller
// retries).
func ruleHolderLookupFailureSurfaces(w *core.World, r *core.Report) {
	f := fn(w, r, "(*syncer.syncer).updateCheckpoint")
	if f == nil {
		return
	}
	n := 0
	for _, g := range core.DeepFuncs(f) {
		for _, s := range core.SitesNamed(g, false, "syncer.checkpointRunIdsHolderFirst") {
			if s.Instr.Parent() != g {
				continue
			}
			n++
			r.Check(failureReturned(g, s), "updateCheckpoint/holder-lookup-failure-surfaces", s.Pos(), "a failed look-up of the id that holds the checkpoint does not end the attempt: the maintenance goes on with the source's own order of ids and re-keys a checkpoint of the previous id to the current one before the source has been asked")
		}
	}
	if n == 0 {
		r.Fail("updateCheckpoint/holder-lookup-failure-surfaces", f.Pos(), "the look-up of the id that holds the checkpoint was not found")
	}
}

// ---------------------------------------------------------------- R14.13 the frontier is rebuilt from what is stored

// ruleRebuildFromStoredSnapshot: RebuildBisyncFrontier refuses a journal that
// neither follows a stored snapshot nor starts at sequence 1 — that refusal is
// what keeps a start from resuming behind a unit that never committed. The
// snapshot handed to it must be the stored one (or none); a base invented from
// the journal's lowest number turns every hole at the front into "committed".
func ruleRebuildFromStoredSnapshot(w *core.World, r *core.Report) {
	f := fn(w, r, "(*syncer.RedisOutput).bisyncStartPoint")
	if f == nil {
		return
	}
	n := 0
	for _, s := range core.SitesNamed(f, false, "pkg/redis/checkpoint.RebuildBisyncFrontier") {
		if s.Instr.Parent() != f {
			continue
		}
		n++
		bad := ""
		seen := map[ssa.Value]bool{}
		var visit func(v ssa.Value)
		visit = func(v ssa.Value) {
			v = core.Unwrap(v)
			if seen[v] {
				return
			}
			seen[v] = true
			switch x := v.(type) {
			case *ssa.Phi:
				for _, e := range x.Edges {
					visit(e)
				}
				return
			case *ssa.Const:
				if x.Value == nil {
					return
				}
			case *ssa.Extract:
				if c, ok := x.Tuple.(*ssa.Call); ok && x.Index == 0 && core.ResolveCall(c).Name == "pkg/redis/checkpoint.LoadBisyncFrontierSnapshot" {
					return
				}
			}
			bad = v.String()
		}
		visit(s.Args()[0])
		r.Check(bad == "", "bisyncStartPoint/rebuild-from-stored-snapshot", s.Pos(), "the frontier is rebuilt from a snapshot that is not the stored one (%s): a base made up for a journal that does not start at 1 declares the units before its first record committed, the start resumes behind a unit that may never have committed and the saved frontier passes a missing sequence number", bad)
	}
	if n == 0 {
		r.Fail("bisyncStartPoint/rebuild-from-stored-snapshot", f.Pos(), "no frontier rebuild found")
	}
}

// ---------------------------------------------------------------- R15.12 the lease period is fixed when the client is built

// ruleLeaseTtlFixedAtConstruction: the Redis cluster object has one ttl: the
// registry entry and every election created from it use it, and the scripts
// write the lease with it. It is the configured lease timeout; nothing may
// rewrite it afterwards (a "minimum registry ttl" written into the shared field
// silently lengthens every lease: a silent holder keeps the lease for several
// configured periods).
func ruleLeaseTtlFixedAtConstruction(w *core.World, r *core.Report) {
	n := 0
	for _, g := range w.FuncsIn("pkg/cluster") {
		for _, in := range core.OwnInstrs(g) {
			st, ok := in.(*ssa.Store)
			if !ok {
				continue
			}
			fa, ok := st.Addr.(*ssa.FieldAddr)
			if !ok || core.FieldName(fa) != "ttl" || !strings.HasSuffix(core.TypeName(fa.X.Type()), "redisCluster") {
				continue
			}
			n++
			root := g
			for root.Parent() != nil {
				root = root.Parent()
			}
			okHome := core.FuncName(root) == "pkg/cluster.NewRedisCluster" || calledOnlyFrom(w, root, "pkg/cluster.NewRedisCluster")
			r.Check(okHome, "redisCluster.ttl/written-at-construction-only", st.Pos(), "the lease period of the Redis cluster object is rewritten outside its constructor (in %s): elections created afterwards write their lease with a period that is not the configured one", core.FuncName(root))
		}
	}
	if n == 0 {
		r.Fail("redisCluster.ttl/written-at-construction-only", token.NoPos, "the lease period is never set")
	}
}

// ---------------------------------------------------------------- R20.17 the policy option reaches the replay under its own name

// rulePolicyWiredByName: every place that builds an output configuration copies
// the key-exists policy from the option of that name. (`functionExists` is a
// string option with an overlapping value set on the next line; wiring it into
// KeyExists type-checks.)
func rulePolicyWiredByName(w *core.World, r *core.Report) {
	n := 0
	for _, g := range w.Funcs() {
		for _, in := range core.OwnInstrs(g) {
			st, ok := in.(*ssa.Store)
			if !ok {
				continue
			}
			fa, ok := st.Addr.(*ssa.FieldAddr)
			if !ok {
				continue
			}
			name := core.FieldName(fa)
			if name != "KeyExists" && name != "FunctionExists" {
				continue
			}
			src := fieldNameOfLoad(core.Unwrap(st.Val))
			if src == "" {
				continue // a constant, a parameter, a normalised value: judged by R20.13
			}
			n++
			r.Check(src == name, shortName(core.FuncName(g))+"/"+name+"-wired-by-name", st.Pos(), "the %s policy of a configuration is filled from the option %s: the replay follows another option's value (unknown words fall through every policy case: BUSYKEY is swallowed, native commands write on top of the existing key)", name, src)
		}
	}
	if n == 0 {
		r.Fail("config/KeyExists-wired-by-name", token.NoPos, "no place copies the key-exists policy from an option")
	}
}

// ---------------------------------------------------------------- R08.9 every scan of a directory runs the gap truncation

// ruleScanAlwaysTruncates: the joint test between the snapshot and the first
// log segment, and the removal of what lies before a gap, live in TruncateGap.
// Every data set built from the files of a directory goes through it before it
// is handed out — also a directory with a single log segment (a snapshot and
// one segment that does not start at the snapshot's end is a hole like any
// other).
func ruleScanAlwaysTruncates(w *core.World, r *core.Report) {
	f := fn(w, r, "(*pkg/store.Storer).initDataSet")
	if f == nil {
		return
	}
	isTrunc := func(in ssa.Instruction) bool {
		ci, ok := in.(ssa.CallInstruction)
		return ok && strings.HasSuffix(core.ResolveCall(ci).Name, "dataSet).TruncateGap")
	}
	isRet := func(in ssa.Instruction) bool { _, ok := in.(*ssa.Return); return ok }
	n := 0
	for _, s := range core.SitesNamed(f, false, "pkg/store.newDataSet") {
		if s.Instr.Parent() != f {
			continue
		}
		n++
		esc := core.PathFrom(f, s.Instr, isRet, isTrunc)
		r.Check(esc == nil, "Storer.initDataSet/always-truncates", s.Pos(), "a data set built from the files of a directory is returned on a path that skips TruncateGap: the snapshot/log joint test and the gap removal do not run, the reopened cache reports a range with a hole and offers a snapshot whose continuation is missing")
	}
	if n == 0 {
		r.Fail("Storer.initDataSet/always-truncates", f.Pos(), "the data set of a scanned directory is not built with newDataSet")
	}
}

// ---------------------------------------------------------------- R19.18 a refused redirection of either kind restarts the replay with a new plan

// ruleDirectErrorEscalates: in transactional replay on a cluster the client
// does not follow redirections; the sender turns them into "typology changed",
// which makes the command re-read the cluster and re-plan (for ASK: switch to
// the non-transactional plan while the slot migrates). Both MOVED and ASK must
// be mapped: an ASK that falls through as a bare error reruns the same pinned
// plan for as long as the migration lasts.
func ruleDirectErrorEscalates(w *core.World, r *core.Report) {
	f := fn(w, r, "syncer.handleDirectError")
	if f == nil {
		return
	}
	isTest := func(sentinel string) func(ssa.Value) bool {
		return func(v ssa.Value) bool {
			c, ok := core.Unwrap(v).(*ssa.Call)
			if !ok || core.ResolveCall(c).Name != "errors.Is" || len(c.Call.Args) != 2 {
				return false
			}
			return isGlobalLoad(c.Call.Args[1], sentinel)
		}
	}
	for _, sentinel := range []string{"ErrMove", "ErrAsk"} {
		n := 0
		bad := false
		var pos token.Pos = f.Pos()
		core.EnumPathsN(f.Blocks[0], 0, 10000, 1, func(p *core.Path) {
			ret, ok := p.End.(*ssa.Return)
			if !ok || ret.Parent() != f || !pathAssumed(p, isTest(sentinel), true) {
				return
			}
			n++
			if os.Getenv("GC_DEBUG") == "R19.18" {
				fmt.Fprintln(os.Stderr, "DEBUG", sentinel, ret, p.Resolve(ret.Results[0]), len(p.Conds))
				for _, fct := range p.Conds {
					fmt.Fprintln(os.Stderr, "   ", fct.Val, fct.Cond, p.Resolve(fct.Cond))
				}
			}
			if !mentionsGlobal(p.Resolve(ret.Results[0]), "ErrRedisTypologyChanged") {
				bad, pos = true, ret.Pos()
			}
		})
		r.Check(n > 0 && !bad, "handleDirectError/escalates-"+sentinel, pos, "a refused %s redirection is not turned into 'typology changed' (paths that recognise it: %d): the replay is restarted with the same pinned-node plan instead of re-reading the cluster, for as long as the slot stays where it is", sentinel, n)
	}
}

// ---------------------------------------------------------------- R20.18 the unit builder's error is looked at before its 'skip'

// ruleBuilderErrorBeforeSkip: buildBisyncRdbReplayUnit returns (nil, false, err)
// for "key exists under the error policy", for a failed probe and for an entry
// that cannot be represented. The worker must stop on that error; a worker that
// first asks `skip || unit == nil` drops the error (unit is nil on every error
// return), goes on with the next entry and the full sync ends as a success.
func ruleBuilderErrorBeforeSkip(w *core.World, r *core.Report) {
	f := fn(w, r, "(*syncer.RedisOutput).rdbReplayBisync")
	if f == nil {
		return
	}
	n := 0
	for _, g := range reachableFuncs(f) {
		for _, s := range core.SitesNamed(g, false, "(*syncer.RedisOutput).buildBisyncRdbReplayUnit") {
			if s.Instr.Parent() != g {
				continue
			}
			n++
			errV := extractOf(s.Value(), 2)
			if errV == nil {
				r.Fail("rdbReplayBisync/builder-error-before-skip", s.Pos(), "the unit builder's error result is not used at all")
				continue
			}
			start := g.Blocks[0]
			if h := core.LoopHeadOf(s.Instr.Block()); h != nil {
				start = h
			}
			bad := false
			var pos token.Pos = s.Pos()
			paths := 0
			okEnum := core.EnumPathsN(start, 0, 100000, 1, func(p *core.Path) {
				on := false
				for _, in := range p.Instrs {
					if in == s.Instr {
						on = true
					}
				}
				if !on || bad {
					return
				}
				// the entry is done with (next round, or a return without error) ...
				if ret, isRet := p.End.(*ssa.Return); isRet {
					if ret.Parent() != g || len(ret.Results) == 0 || !pathNil(p, ret.Results[len(ret.Results)-1]) {
						return
					}
				} else if !p.Closed {
					return
				}
				paths++
				// ... only after the error was seen to be nil
				if isNil, known := p.IsNil(errV); !known || !isNil {
					bad, pos = true, p.End.Pos()
				}
			})
			if !okEnum {
				r.Undecided("rdbReplayBisync/builder-error-before-skip", s.Pos(), "too many paths")
				continue
			}
			r.Check(!bad && paths > 0, "rdbReplayBisync/builder-error-before-skip", pos, "the worker goes on to the next snapshot entry on a path that has not seen the unit builder's error to be nil: 'key exists' under the error policy, a failed probe or an entry that cannot be replayed is dropped, and the full sync reports success")
		}
	}
	if n == 0 {
		r.Fail("rdbReplayBisync/builder-error-before-skip", f.Pos(), "the unit builder call was not found")
	}
}

var _ = types.Typ

// mentionsGlobal: v is computed from the named package-level variable, also as one of the errors handed to a
// variadic errors.Join / fmt.Errorf.
func mentionsGlobal(v ssa.Value, name string) bool {
	is := func(x ssa.Value) bool { return isGlobalLoad(x, name) }
	if core.DependsOn(v, is) {
		return true
	}
	c, ok := core.Unwrap(v).(*ssa.Call)
	if !ok || len(c.Call.Args) == 0 {
		return false
	}
	if elems, ok := core.VariadicElems(c.Call.Args[len(c.Call.Args)-1]); ok {
		for _, e := range elems {
			if core.DependsOn(e, is) {
				return true
			}
		}
	}
	return false
}
