package rules

import (
	"fmt"
	"go/token"
	"go/types"
	"os"
	"strings"

	"golang.org/x/tools/go/ssa"

	"gunyucheck/core"
)

// Rules that came out of the sixth round of independently written breaking
// changes (DESIGN.md section 8). Each states a structural necessary condition
// of the property it is registered under and names the construct it judges.

func isSuccessReturn(in ssa.Instruction) bool {
	ret, ok := in.(*ssa.Return)
	return ok && len(ret.Results) > 0 && core.IsNilConst(ret.Results[len(ret.Results)-1])
}

func isGlobalLoad(v ssa.Value, name string) bool {
	ld, ok := core.Unwrap(v).(*ssa.UnOp)
	if !ok || ld.Op != token.MUL {
		return false
	}
	g, ok := ld.X.(*ssa.Global)
	return ok && g.Name() == name
}

// ---------------------------------------------------------------- R04.11 a plain cluster batch reports error replies

// ruleBatchExecChecksReplies: the expanded (native-command) replay pipelines its
// commands and looks only at the error of the receive step. On a cluster target
// that step is Batch.Exec: an error *reply* (-OOM, -WRONGTYPE, -READONLY) is an
// ordinary reply value there unless Exec scans the replies. Without the scan a
// refused command of a snapshot entry is taken for applied, the replay returns
// nil and the snapshot is recorded as complete.
func ruleBatchExecChecksReplies(w *core.World, r *core.Report) {
	f := fn(w, r, "(*pkg/redis/client/cluster.Batch).Exec")
	if f == nil {
		return
	}
	var scan core.Site
	for _, s := range core.SitesNamed(f, false, "pkg/redis/client/common.CheckRepliesError") {
		if failureReturned(f, s) {
			scan = s
		}
	}
	ok := scan.Instr != nil
	var pos token.Pos = f.Pos()
	n := 0
	collected := func(v ssa.Value) bool {
		// the replies that were collected (an empty batch answers a fresh empty list)
		return !core.IsNilConst(v) && core.DependsOn(v, func(x ssa.Value) bool {
			c, ok := x.(*ssa.Call)
			return ok && isBuiltin(c, "append")
		})
	}
	for _, in := range core.Instrs(f) {
		ret, isRet := in.(*ssa.Return)
		if !isRet || len(ret.Results) != 2 {
			continue
		}
		if isSuccessReturn(in) {
			if !collected(ret.Results[0]) {
				continue
			}
			n++
			if scan.Instr == nil || !core.Dominates(scan.Instr, in) {
				ok, pos = false, ret.Pos()
			}
			continue
		}
		// results spilled to cells because the function defers something: the place where the collected replies
		// are handed out is the store into the result cell; a store next to which a non-nil error is stored is not a
		// success (judged by the error stored in the same block)
		ld, isLd := ret.Results[0].(*ssa.UnOp)
		if !isLd || ld.Op != token.MUL {
			continue
		}
		for _, rf := range *ld.X.Referrers() {
			st, isSt := rf.(*ssa.Store)
			if !isSt || st.Addr != ld.X || !collected(st.Val) {
				continue
			}
			failure := false
			if eld, isE := ret.Results[1].(*ssa.UnOp); isE && eld.Op == token.MUL {
				for _, in2 := range st.Block().Instrs {
					if es, isES := in2.(*ssa.Store); isES && es.Addr == eld.X && !core.IsNilConst(es.Val) {
						failure = true
					}
				}
			}
			if failure {
				continue
			}
			n++
			if scan.Instr == nil || !core.Dominates(scan.Instr, st) {
				ok, pos = false, st.Pos()
			}
		}
	}
	r.Check(ok && n > 0, "Batch.Exec/error-replies-reported", pos, "the replies of a plain cluster batch are returned as a success without having been scanned for error replies (CheckRepliesError, its failure returned): a command the target refused counts as applied, and a snapshot entry replayed through native commands is recorded as complete although part of it is missing")
}

// ---------------------------------------------------------------- R05.15 every segment starts with a fresh checksum

// ruleOpenFileResetsChecksum: the header of a log segment records the CRC of
// that segment's bytes. The running checksum must be reset whenever a segment is
// opened — at every rotation, not only when the writer is built — or the CRC of
// the second and later segments covers the bytes of their predecessors and a
// verifying reader refuses bytes that are exactly what was written.
func ruleOpenFileResetsChecksum(w *core.World, r *core.Report) {
	f := fn(w, r, "(*pkg/store.AofRotater).openFile")
	if f == nil {
		return
	}
	isReset := func(in ssa.Instruction) bool {
		st, ok := in.(*ssa.Store)
		if !ok {
			return false
		}
		fa, ok := st.Addr.(*ssa.FieldAddr)
		if !ok || core.FieldName(fa) != "crc" {
			return false
		}
		c, ok := core.Unwrap(st.Val).(*ssa.Call)
		return ok && core.ResolveCall(c).Name == "pkg/digest.New"
	}
	n := 0
	for _, in := range core.Instrs(f) {
		if isReset(in) {
			n++
		}
	}
	// the reset itself, or a call of a helper that exists for this one call (its receiver then stands for
	// openFile's own: core.Unwrap reads the parameter as the argument) and performs the reset of this writer's
	// checksum on every way to its return
	resetOfThisWriter := func(in ssa.Instruction) bool {
		if !isReset(in) {
			return false
		}
		fa := in.(*ssa.Store).Addr.(*ssa.FieldAddr)
		return len(f.Params) > 0 && core.Unwrap(fa.X) == ssa.Value(f.Params[0])
	}
	resets := func(in ssa.Instruction) bool {
		if isReset(in) {
			return true
		}
		c, ok := in.(*ssa.Call)
		if !ok || c.Call.IsInvoke() {
			return false
		}
		g := c.Call.StaticCallee()
		return g != nil && core.ExpandedInto(g) == c && passedOnEveryReturn(g, resetOfThisWriter, 0)
	}
	esc := core.PathFromBlock(f.Blocks[0], isSuccessReturn, resets)
	r.Check(n > 0 && esc == nil, "AofRotater.openFile/fresh-checksum", f.Pos(), "a segment is opened on a path that does not start a fresh running checksum (crc = digest.New()): the CRC stored in the header of a rotated segment then covers the bytes of the segments before it, and a reader that verifies refuses bytes that equal what was written (resets found: %d)", n)
}

// ---------------------------------------------------------------- R06.12 (second part) a failed holder look-up ends the start-up maintenance

// ruleHolderLookupFailureSurfaces: which of the source's ids holds the
// checkpoint decides the id the checkpoint keeps (R06.12). When that look-up
// fails, falling back to the source's own order re-keys a checkpoint of the
// previous id to the current one before the source was asked — the very thing
// the look-up exists to prevent. The failure must be returned (the caller
// retries).
func ruleHolderLookupFailureSurfaces(w *core.World, r *core.Report) {
	f := fn(w, r, "(*syncer.syncer).updateCheckpoint")
	if f == nil {
		return
	}
	n := 0
	own := map[*ssa.Function]bool{}
	for _, g := range core.DeepFuncs(f) {
		own[g] = true
	}
	// the look-up is made by the maintenance itself (the retried closure), or by a function of the package that is
	// one attempt of it (a method the closure calls): its failure must then also be what the closure returns
	for _, g := range reachableFuncs(f) {
		for _, s := range core.SitesNamed(g, false, "syncer.checkpointRunIdsHolderFirst") {
			if s.Instr.Parent() != g {
				continue
			}
			n++
			ok := failureReturned(g, s)
			if ok && !own[g] {
				handedUp := false
				for h := range own {
					for _, cs := range core.Sites(h, false) {
						if cs.Callee == g && cs.Instr.Parent() == h {
							handedUp = failureReturned(h, cs)
						}
					}
				}
				ok = handedUp
			}
			r.Check(ok, "updateCheckpoint/holder-lookup-failure-surfaces", s.Pos(), "a failed look-up of the id that holds the checkpoint does not end the attempt: the maintenance goes on with the source's own order of ids and re-keys a checkpoint of the previous id to the current one before the source has been asked")
		}
	}
	if n == 0 {
		r.Fail("updateCheckpoint/holder-lookup-failure-surfaces", f.Pos(), "the look-up of the id that holds the checkpoint was not found")
	}
}

// ---------------------------------------------------------------- R14.13 the frontier is rebuilt from what is stored

// ruleRebuildFromStoredSnapshot: RebuildBisyncFrontier refuses a journal that
// neither follows a stored snapshot nor starts at sequence 1 — that refusal is
// what keeps a start from resuming behind a unit that never committed. The
// snapshot handed to it must be the stored one (or none); a base invented from
// the journal's lowest number turns every hole at the front into "committed".
func ruleRebuildFromStoredSnapshot(w *core.World, r *core.Report) {
	f := fn(w, r, "(*syncer.RedisOutput).bisyncStartPoint")
	if f == nil {
		return
	}
	n := 0
	var rebuilds []core.Site
	for _, g := range reachableFuncs(f) {
		if g != f && !(g.Parent() == nil && core.Transparent != nil && core.Transparent(g)) {
			continue
		}
		for _, s := range core.SitesNamed(g, false, "pkg/redis/checkpoint.RebuildBisyncFrontier") {
			if s.Instr.Parent() == g {
				rebuilds = append(rebuilds, s)
			}
		}
	}
	for _, s := range rebuilds {
		n++
		bad := ""
		seen := map[ssa.Value]bool{}
		var visit func(v ssa.Value)
		visit = func(v ssa.Value) {
			v = core.Unwrap(v)
			if seen[v] {
				return
			}
			seen[v] = true
			switch x := v.(type) {
			case *ssa.Phi:
				for _, e := range x.Edges {
					visit(e)
				}
				return
			case *ssa.Const:
				if x.Value == nil {
					return
				}
			case *ssa.Extract:
				if c, ok := x.Tuple.(*ssa.Call); ok && x.Index == 0 && core.ResolveCall(c).Name == "pkg/redis/checkpoint.LoadBisyncFrontierSnapshot" {
					return
				}
			case *ssa.Parameter:
				// handed to a helper of the start point: what its callers hand in
				h := x.Parent()
				sites := callSitesOf(w, h)
				if len(sites) > 0 {
					for _, cs := range sites {
						args := cs.(ssa.CallInstruction).Common().Args
						for k, hp := range h.Params {
							if hp == x && k < len(args) {
								visit(args[k])
							}
						}
					}
					return
				}
			}
			bad = v.String()
		}
		visit(s.Args()[0])
		r.Check(bad == "", "bisyncStartPoint/rebuild-from-stored-snapshot", s.Pos(), "the frontier is rebuilt from a snapshot that is not the stored one (%s): a base made up for a journal that does not start at 1 declares the units before its first record committed, the start resumes behind a unit that may never have committed and the saved frontier passes a missing sequence number", bad)
	}
	if n == 0 {
		r.Fail("bisyncStartPoint/rebuild-from-stored-snapshot", f.Pos(), "no frontier rebuild found")
	}
}

// ---------------------------------------------------------------- R15.12 the lease period is fixed when the client is built

// ruleLeaseTtlFixedAtConstruction: the Redis cluster object has one ttl: the
// registry entry and every election created from it use it, and the scripts
// write the lease with it. It is the configured lease timeout; nothing may
// rewrite it afterwards (a "minimum registry ttl" written into the shared field
// silently lengthens every lease: a silent holder keeps the lease for several
// configured periods).
func ruleLeaseTtlFixedAtConstruction(w *core.World, r *core.Report) {
	n := 0
	for _, g := range w.FuncsIn("pkg/cluster") {
		for _, in := range core.OwnInstrs(g) {
			st, ok := in.(*ssa.Store)
			if !ok {
				continue
			}
			fa, ok := st.Addr.(*ssa.FieldAddr)
			if !ok || core.FieldName(fa) != "ttl" || !strings.HasSuffix(core.TypeName(fa.X.Type()), "redisCluster") {
				continue
			}
			n++
			root := g
			for root.Parent() != nil {
				root = root.Parent()
			}
			okHome := core.FuncName(root) == "pkg/cluster.NewRedisCluster" || calledOnlyFrom(w, root, "pkg/cluster.NewRedisCluster")
			r.Check(okHome, "redisCluster.ttl/written-at-construction-only", st.Pos(), "the lease period of the Redis cluster object is rewritten outside its constructor (in %s): elections created afterwards write their lease with a period that is not the configured one", core.FuncName(root))
		}
	}
	if n == 0 {
		r.Fail("redisCluster.ttl/written-at-construction-only", token.NoPos, "the lease period is never set")
	}
}

// ---------------------------------------------------------------- R20.17 the policy option reaches the replay under its own name

// rulePolicyWiredByName: every place that builds an output configuration copies
// the key-exists policy from the option of that name. (`functionExists` is a
// string option with an overlapping value set on the next line; wiring it into
// KeyExists type-checks.)
func rulePolicyWiredByName(w *core.World, r *core.Report) {
	n := 0
	for _, g := range w.Funcs() {
		for _, in := range core.OwnInstrs(g) {
			st, ok := in.(*ssa.Store)
			if !ok {
				continue
			}
			fa, ok := st.Addr.(*ssa.FieldAddr)
			if !ok {
				continue
			}
			name := core.FieldName(fa)
			if name != "KeyExists" && name != "FunctionExists" {
				continue
			}
			src := fieldNameOfLoad(core.Unwrap(st.Val))
			if src == "" {
				continue // a constant, a parameter, a normalised value: judged by R20.13
			}
			n++
			r.Check(src == name, shortName(core.FuncName(g))+"/"+name+"-wired-by-name", st.Pos(), "the %s policy of a configuration is filled from the option %s: the replay follows another option's value (unknown words fall through every policy case: BUSYKEY is swallowed, native commands write on top of the existing key)", name, src)
		}
	}
	if n == 0 {
		r.Fail("config/KeyExists-wired-by-name", token.NoPos, "no place copies the key-exists policy from an option")
	}
}

// ---------------------------------------------------------------- R08.9 every scan of a directory runs the gap truncation

// ruleScanAlwaysTruncates: the joint test between the snapshot and the first
// log segment, and the removal of what lies before a gap, live in TruncateGap.
// Every data set built from the files of a directory goes through it before it
// is handed out — also a directory with a single log segment (a snapshot and
// one segment that does not start at the snapshot's end is a hole like any
// other).
func ruleScanAlwaysTruncates(w *core.World, r *core.Report) {
	f := fn(w, r, "(*pkg/store.Storer).initDataSet")
	if f == nil {
		return
	}
	isTrunc := func(in ssa.Instruction) bool {
		ci, ok := in.(ssa.CallInstruction)
		return ok && strings.HasSuffix(core.ResolveCall(ci).Name, "dataSet).TruncateGap")
	}
	isRet := func(in ssa.Instruction) bool { _, ok := in.(*ssa.Return); return ok }
	n := 0
	for _, s := range core.SitesNamed(f, false, "pkg/store.newDataSet") {
		if s.Instr.Parent() != f {
			continue
		}
		n++
		esc := core.PathFrom(f, s.Instr, isRet, isTrunc)
		r.Check(esc == nil, "Storer.initDataSet/always-truncates", s.Pos(), "a data set built from the files of a directory is returned on a path that skips TruncateGap: the snapshot/log joint test and the gap removal do not run, the reopened cache reports a range with a hole and offers a snapshot whose continuation is missing")
	}
	if n == 0 {
		r.Fail("Storer.initDataSet/always-truncates", f.Pos(), "the data set of a scanned directory is not built with newDataSet")
	}
}

// ---------------------------------------------------------------- R19.18 a refused redirection of either kind restarts the replay with a new plan

// ruleDirectErrorEscalates: in transactional replay on a cluster the client
// does not follow redirections; the sender turns them into "typology changed",
// which makes the command re-read the cluster and re-plan (for ASK: switch to
// the non-transactional plan while the slot migrates). Both MOVED and ASK must
// be mapped: an ASK that falls through as a bare error reruns the same pinned
// plan for as long as the migration lasts.
func ruleDirectErrorEscalates(w *core.World, r *core.Report) {
	f := fn(w, r, "syncer.handleDirectError")
	if f == nil {
		return
	}
	isTest := func(sentinel string) func(ssa.Value) bool {
		return func(v ssa.Value) bool {
			c, ok := core.Unwrap(v).(*ssa.Call)
			if !ok || core.ResolveCall(c).Name != "errors.Is" || len(c.Call.Args) != 2 {
				return false
			}
			return isGlobalLoad(c.Call.Args[1], sentinel)
		}
	}
	for _, sentinel := range []string{"ErrMove", "ErrAsk"} {
		n := 0
		bad := false
		var pos token.Pos = f.Pos()
		core.EnumPathsN(f.Blocks[0], 0, 10000, 1, func(p *core.Path) {
			ret, ok := p.End.(*ssa.Return)
			if !ok || ret.Parent() != f || !pathAssumed(p, isTest(sentinel), true) {
				return
			}
			n++
			if os.Getenv("GC_DEBUG") == "R19.18" {
				fmt.Fprintln(os.Stderr, "DEBUG", sentinel, ret, p.Resolve(ret.Results[0]), len(p.Conds))
				for _, fct := range p.Conds {
					fmt.Fprintln(os.Stderr, "   ", fct.Val, fct.Cond, p.Resolve(fct.Cond))
				}
			}
			if !mentionsGlobal(p.Resolve(ret.Results[0]), "ErrRedisTypologyChanged") {
				bad, pos = true, ret.Pos()
			}
		})
		r.Check(n > 0 && !bad, "handleDirectError/escalates-"+sentinel, pos, "a refused %s redirection is not turned into 'typology changed' (paths that recognise it: %d): the replay is restarted with the same pinned-node plan instead of re-reading the cluster, for as long as the slot stays where it is", sentinel, n)
	}
}

// ---------------------------------------------------------------- R20.18 the unit builder's error is looked at before its 'skip'

// ruleBuilderErrorBeforeSkip: buildBisyncRdbReplayUnit returns (nil, false, err)
// for "key exists under the error policy", for a failed probe and for an entry
// that cannot be represented. The worker must stop on that error; a worker that
// first asks `skip || unit == nil` drops the error (unit is nil on every error
// return), goes on with the next entry and the full sync ends as a success.
func ruleBuilderErrorBeforeSkip(w *core.World, r *core.Report) {
	f := fn(w, r, "(*syncer.RedisOutput).rdbReplayBisync")
	if f == nil {
		return
	}
	n := 0
	for _, g := range reachableFuncs(f) {
		for _, s := range core.SitesNamed(g, false, "(*syncer.RedisOutput).buildBisyncRdbReplayUnit") {
			if s.Instr.Parent() != g {
				continue
			}
			n++
			errV := extractOf(s.Value(), 2)
			if errV == nil {
				r.Fail("rdbReplayBisync/builder-error-before-skip", s.Pos(), "the unit builder's error result is not used at all")
				continue
			}
			start := g.Blocks[0]
			if h := core.LoopHeadOf(s.Instr.Block()); h != nil {
				start = h
			}
			bad := false
			var pos token.Pos = s.Pos()
			paths := 0
			okEnum := core.EnumPathsN(start, 0, 100000, 1, func(p *core.Path) {
				on := false
				for _, in := range p.Instrs {
					if in == s.Instr {
						on = true
					}
				}
				if !on || bad {
					return
				}
				// the entry is done with (next round, or a return without error) ...
				if ret, isRet := p.End.(*ssa.Return); isRet {
					if ret.Parent() != g || len(ret.Results) == 0 || !pathNil(p, ret.Results[len(ret.Results)-1]) {
						return
					}
				} else if !p.Closed {
					return
				}
				paths++
				// ... only after the error was seen to be nil
				if isNil, known := p.IsNil(errV); !known || !isNil {
					bad, pos = true, p.End.Pos()
				}
			})
			if !okEnum {
				r.Undecided("rdbReplayBisync/builder-error-before-skip", s.Pos(), "too many paths")
				continue
			}
			r.Check(!bad && paths > 0, "rdbReplayBisync/builder-error-before-skip", pos, "the worker goes on to the next snapshot entry on a path that has not seen the unit builder's error to be nil: 'key exists' under the error policy, a failed probe or an entry that cannot be replayed is dropped, and the full sync reports success")
		}
	}
	if n == 0 {
		r.Fail("rdbReplayBisync/builder-error-before-skip", f.Pos(), "the unit builder call was not found")
	}
}

var _ = types.Typ

// mentionsGlobal: v is computed from the named package-level variable, also as one of the errors handed to a
// variadic errors.Join / fmt.Errorf.
func mentionsGlobal(v ssa.Value, name string) bool {
	is := func(x ssa.Value) bool { return isGlobalLoad(x, name) }
	if core.DependsOn(v, is) {
		return true
	}
	c, ok := core.Unwrap(v).(*ssa.Call)
	if !ok || len(c.Call.Args) == 0 {
		return false
	}
	if elems, ok := core.VariadicElems(c.Call.Args[len(c.Call.Args)-1]); ok {
		for _, e := range elems {
			if core.DependsOn(e, is) {
				return true
			}
		}
	}
	return false
}

// ---------------------------------------------------------------- R05.16 the newest segment is read off the sorted list

// ruleNewestSegmentFromSortedList: after a restart "the newest log segment" is
// what tells a reader at the end of a segment whether it is on the live tail.
// It is the last element of the segment list *after* the numeric sort: the
// directory walk delivers names in lexical order ("105.aof" before "90.aof").
func ruleNewestSegmentFromSortedList(w *core.World, r *core.Report) {
	f := fn(w, r, "pkg/store.newDataSet")
	if f == nil {
		return
	}
	var sorted core.Site
	for _, s := range core.SitesNamed(f, false, "sort.Slice", "sort.SliceStable", "slices.SortFunc") {
		if s.Instr.Parent() == f {
			sorted = s
		}
	}
	n := 0
	for _, s := range core.Sites(f, false) {
		if s.Instr.Parent() != f || !strings.HasSuffix(s.Name, "atomic.Int64).Store") {
			continue
		}
		if fa, ok := s.Common().Args[0].(*ssa.FieldAddr); !ok || core.FieldName(fa) != "lastAofSeg" {
			continue
		}
		n++
		last := core.DependsOnDeep(s.Common().Args[1], func(x ssa.Value) bool {
			ia, ok := x.(*ssa.IndexAddr)
			if !ok {
				return false
			}
			b, ok := ia.Index.(*ssa.BinOp)
			if !ok || b.Op != token.SUB || !isConstInt(1)(b.Y) {
				return false
			}
			lc, ok := b.X.(*ssa.Call)
			return ok && isBuiltin(lc, "len")
		})
		after := sorted.Instr != nil && core.Dominates(sorted.Instr, s.Instr)
		r.Check(last && after, "newDataSet/newest-segment-from-sorted-list", s.Pos(), "the 'newest log segment' marker of a reopened directory must be the last element of the segment list after the numeric sort (last element: %v, after the sort: %v): taken in the order the files were found it points at the lexically last name, and a reader at the end of that segment waits for bytes that lie in the next one", last, after)
	}
	if n == 0 {
		r.Fail("newDataSet/newest-segment-from-sorted-list", f.Pos(), "the newest-segment marker is not set when a directory is opened")
	}
}

// ---------------------------------------------------------------- R12.10 an array is read to its announced length

// ruleArrayReadsAnnouncedCount: decodeArray reads exactly as many elements as
// the header announced. A bound that is clamped (a pre-allocation limit reused
// as the loop bound) returns a command cut short, with an offset that is too
// small, and leaves the rest of it in the stream.
func ruleArrayReadsAnnouncedCount(w *core.World, r *core.Report) {
	f := fn(w, r, "(*pkg/redis/client.Decoder).decodeArray")
	if f == nil {
		return
	}
	isCount := isResultOf("(*pkg/redis/client.Decoder).decodeInt", 0)
	n := 0
	for _, s := range core.SitesNamed(f, false, "(*pkg/redis/client.Decoder).decodeResp") {
		if s.Instr.Parent() != f {
			continue
		}
		head := core.LoopHeadOf(s.Instr.Block())
		if head == nil {
			continue
		}
		n++
		iff, ok := head.Instrs[len(head.Instrs)-1].(*ssa.If)
		c, okc := core.Cmp{}, false
		if ok {
			c, okc = core.AsCmp(iff.Cond, true)
		}
		if !okc || c.Op != token.LSS {
			r.Undecided("Decoder.decodeArray/reads-announced-count", s.Pos(), "the element loop is not of the form `i < bound`")
			continue
		}
		bound := core.Unwrap(c.Y)
		if lc, isL := bound.(*ssa.Call); isL && isBuiltin(lc, "len") {
			if mk, isMk := core.Unwrap(lc.Call.Args[0]).(*ssa.MakeSlice); isMk {
				bound = core.Unwrap(mk.Len)
			}
		}
		clamped := false
		core.Walk(bound, func(x ssa.Value) bool {
			if ph, isPhi := x.(*ssa.Phi); isPhi {
				for _, e := range ph.Edges {
					if _, isK := core.ConstInt(e); isK {
						clamped = true
					}
				}
			}
			return !clamped
		})
		// the count may come from a helper that reads the header (the announced count beside "absent" and the error):
		// then on every path that gets as far as reading an element the bound is that helper's decodeInt result
		r.Check(!clamped && core.DependsOn(bound, isCount) || holdsOnPathsThrough(f, s.Instr, bound, isCount), "Decoder.decodeArray/reads-announced-count", s.Pos(), "the number of elements read is not the announced count itself (clamped by a constant: %v): a command with more elements comes out cut short, its offset is too small and the rest of it is decoded as the next command", clamped)
	}
	if n == 0 {
		r.Fail("Decoder.decodeArray/reads-announced-count", f.Pos(), "the element loop was not found")
	}
}

// ---------------------------------------------------------------- R18.13 a node owns every slot of its ranges, both ends included

// ruleSlotTableCoversRangeEnds: CLUSTER SLOTS gives inclusive ranges. The
// client's slot table must be filled from start to end *inclusive*; a half-open
// loop leaves the last slot of every range (and every single-slot range)
// without an owner, and a unit whose keys hash there is refused although they
// share one slot.
func ruleSlotTableCoversRangeEnds(w *core.World, r *core.Report) {
	f := fn(w, r, "(*pkg/redis/client/cluster.Cluster).update")
	if f == nil {
		return
	}
	n := 0
	// the fill may sit in a helper split out of update (decode / install phases): such a helper, called from
	// one place, is read as part of update; the bounds are then followed through its parameters
	for _, in := range core.Instrs(f) {
		st, ok := in.(*ssa.Store)
		if !ok {
			continue
		}
		ia, ok := st.Addr.(*ssa.IndexAddr)
		if !ok {
			continue
		}
		isSlots := fieldNameOfLoad(core.Unwrap(ia.X)) == "slots"
		if fa, isFa := ia.X.(*ssa.FieldAddr); isFa && core.FieldName(fa) == "slots" {
			isSlots = true
		}
		if !isSlots {
			continue
		}
		head := core.LoopHeadOf(st.Block())
		if head == nil {
			continue
		}
		n++
		iff, okI := head.Instrs[len(head.Instrs)-1].(*ssa.If)
		if !okI {
			r.Undecided("Cluster.update/range-ends-included", st.Pos(), "the loop that fills the slot table has no recognisable bound")
			continue
		}
		c, okc := core.AsCmp(iff.Cond, true)
		isEnd := func(v ssa.Value) bool {
			// the second element of a (start, end) pair: slot[i+1]
			return core.DependsOn(v, func(x ssa.Value) bool {
				e, ok := x.(*ssa.IndexAddr)
				if !ok {
					return false
				}
				b, ok := e.Index.(*ssa.BinOp)
				return ok && b.Op == token.ADD && isConstInt(1)(b.Y)
			})
		}
		inclusive := false
		if okc {
			switch c.Op {
			case token.LEQ:
				inclusive = isEnd(c.Y)
			case token.LSS:
				if b, isB := core.Unwrap(c.Y).(*ssa.BinOp); isB && b.Op == token.ADD && isConstInt(1)(b.Y) && isEnd(b.X) {
					inclusive = true
				}
			}
		}
		r.Check(inclusive, "Cluster.update/range-ends-included", st.Pos(), "the slot table is not filled up to and including the end of each range CLUSTER SLOTS reports: the last slot of every range has no owner, and commands (or whole single-slot units) for keys that hash there are refused")
	}
	if n == 0 {
		r.Fail("Cluster.update/range-ends-included", f.Pos(), "the loop that fills the slot table was not found")
	}
}

// ---------------------------------------------------------------- R15.13 what a renewal attempt reports is the election's answer

// ruleRenewResultIsTheAnswer: clusterRenew reports nil only when the election's
// Renew answered nil. An attempt that gives up waiting (a timeout branch) and
// returns nil books a renewal that did not happen as a success; the late
// ErrNotLeader is never read and the instance keeps acting as leader after its
// lease was taken over.
func ruleRenewResultIsTheAnswer(w *core.World, r *core.Report) {
	f := fn(w, r, "(*cmd.SyncerCmd).clusterRenew")
	if f == nil {
		return
	}
	var renew ssa.Value
	for _, s := range core.Sites(f, false) {
		if s.Instr.Parent() == f && s.Common().IsInvoke() && s.Method == "Renew" {
			renew = s.Value()
		}
	}
	if renew == nil {
		r.Fail("clusterRenew/reports-the-election's-answer", f.Pos(), "the renewal is not made by clusterRenew itself (its answer is read, if at all, through a channel that a timeout can outrun): an attempt that gave up waiting is reported as a successful renewal")
		return
	}
	bad := false
	var pos token.Pos = f.Pos()
	n := 0
	core.EnumPathsN(f.Blocks[0], 0, 10000, 1, func(p *core.Path) {
		ret, ok := p.End.(*ssa.Return)
		if !ok || ret.Parent() != f || len(ret.Results) != 1 {
			return
		}
		n++
		v := p.Resolve(ret.Results[0])
		if v == renew || core.DependsOn(v, func(x ssa.Value) bool { return x == renew }) {
			return
		}
		if isNil, known := p.IsNil(v); known && !isNil {
			return
		}
		bad, pos = true, ret.Pos()
	})
	r.Check(!bad && n > 0, "clusterRenew/reports-the-election's-answer", pos, "clusterRenew can return a value that is neither the election's answer nor an error: a renewal that was not confirmed is booked as successful and the instance goes on as leader")
}

// ---------------------------------------------------------------- R16.12 the handshake is for followers that have nothing

// ruleHandshakeOnlyForNewFollower: the handshake frame (META, no data, the
// leader's newest offset) is indistinguishable, for the follower's metaSync,
// from the announcement of an empty snapshot. It may only answer a follower
// that named no id ("" or "?"). A follower that names an id the leader does not
// have must be refused (stale id) so that it starts over; answered with the
// handshake it wipes its copy, stores a zero-byte snapshot under its old id and
// asks again, for ever.
func ruleHandshakeOnlyForNewFollower(w *core.World, r *core.Report) {
	f := fn(w, r, "(*syncer.ReplicaLeader).Handle")
	if f == nil {
		return
	}
	meta, _ := pbCode(w, "SyncResponse_META")
	isID := func(v ssa.Value) bool {
		c, ok := core.Unwrap(v).(*ssa.Call)
		return ok && strings.HasSuffix(core.ResolveCall(c).Name, ").GetRunId")
	}
	// the handshake frames are looked for on the paths of Handle, in Handle itself or in a helper the path steps
	// into (a function the rule base does not know: the reply may be a method of its own); sendData, which
	// announces a snapshot with the same code, is a known function and is not entered
	type verdict struct {
		site  core.Site
		paths int
		bad   bool
	}
	sites := map[ssa.Instruction]*verdict{}
	var order []ssa.Instruction
	okEnum := core.EnumPathsN(f.Blocks[0], 0, 100000, 1, func(p *core.Path) {
		seen := map[ssa.Instruction]bool{}
		for _, in := range p.Instrs {
			ci, isCall := in.(*ssa.Call)
			if !isCall || seen[in] {
				continue
			}
			s := core.ResolveCall(ci)
			if s.Method != "Send" || !s.Common().IsInvoke() || len(s.Args()) == 0 {
				continue
			}
			code, ok := frameCode(s.Args()[0])
			if !ok || code != meta {
				continue
			}
			seen[in] = true
			v := sites[in]
			if v == nil {
				v = &verdict{site: s}
				sites[in] = v
				order = append(order, in)
			}
			v.paths++
			if !p.Holds(token.EQL, isID, isConstStr("")) && !p.Holds(token.EQL, isID, isConstStr("?")) {
				v.bad = true
			}
		}
	})
	if !okEnum {
		r.Undecided("ReplicaLeader.Handle/handshake-only-without-id", f.Pos(), "too many paths")
		return
	}
	n := 0
	for _, in := range order {
		v := sites[in]
		n++
		r.Check(!v.bad && v.paths > 0, "ReplicaLeader.Handle/handshake-only-without-id", v.site.Pos(), "the handshake frame answers a request on a path that did not establish that the follower named no replication id (\"\" or \"?\"): a follower that names an id the leader does not have takes the frame for the announcement of an empty snapshot, wipes its copy and asks again under the same id without end")
	}
	if n == 0 {
		r.Fail("ReplicaLeader.Handle/handshake-only-without-id", f.Pos(), "no handshake frame is sent")
	}
}

// ---------------------------------------------------------------- R19.17 the pipelined receiver closes the replay with the escalated error

// ruleEscalatedErrorClosesReplay: the receiving goroutine of the pipelined
// sender turns a refused redirection into 'typology changed' and then closes
// the replay with the error. The Close must see the escalated value: a
// `defer replayWait.Close(err)` at the top of the closure evaluates its
// argument at once, the replay ends with the bare MOVED/ASK and is restarted
// with the same plan.
func ruleEscalatedErrorClosesReplay(w *core.World, r *core.Report) {
	f := fn(w, r, "(*syncer.RedisOutput).sendCmdsBatch")
	if f == nil {
		return
	}
	n := 0
	for _, g := range core.DeepFuncs(f)[1:] {
		escalates := false
		isEsc := func(in ssa.Instruction) bool {
			if v, ok := in.(ssa.Value); ok && isGlobalLoad(v, "ErrRedisTypologyChanged") {
				return true
			}
			c, ok := in.(*ssa.Call)
			return ok && core.ResolveCall(c).Name == "syncer.handleDirectError"
		}
		for _, in := range core.OwnInstrs(g) {
			if isEsc(in) {
				escalates = true
			}
		}
		if !escalates {
			continue
		}
		for _, in := range core.OwnInstrs(g) {
			var cc *ssa.CallCommon
			deferred := false
			switch x := in.(type) {
			case *ssa.Call:
				cc = &x.Call
			case *ssa.Defer:
				cc, deferred = &x.Call, true
			default:
				continue
			}
			if !cc.IsInvoke() || cc.Method.Name() != "Close" || !strings.HasSuffix(core.TypeName(cc.Value.Type()), "WaitCloser") || len(cc.Args) != 1 {
				continue
			}
			n++
			if deferred {
				r.Fail("sendCmdsBatch/receiver-closes-with-escalated-error", in.Pos(), "the replay is closed by a deferred call in the closure that escalates refused redirections: the argument of a deferred call is evaluated when the defer statement runs, before the escalation, so the replay ends with the bare MOVED/ASK error and is restarted with the same pinned-node plan")
				continue
			}
			bad := false
			core.EnumPathsN(g.Blocks[0], 0, 10000, 1, func(p *core.Path) {
				on := false
				var esc ssa.Value
				for _, pi := range p.Instrs {
					if pi == in {
						on = true
					}
					if !on && pi.Parent() == g && isEsc(pi) {
						esc, _ = pi.(ssa.Value)
					}
				}
				if on && esc != nil {
					v := p.Resolve(cc.Args[0])
					if v != esc && !core.DependsOn(v, func(x ssa.Value) bool { return x == esc }) && !mentionsGlobal(v, "ErrRedisTypologyChanged") {
						bad = true
					}
				}
			})
			r.Check(!bad, "sendCmdsBatch/receiver-closes-with-escalated-error", in.Pos(), "on a path that escalated a refused redirection the replay is closed with another value than the escalated error")
		}
	}
	if n == 0 {
		r.Fail("sendCmdsBatch/receiver-closes-with-escalated-error", f.Pos(), "the pipelined receiver's error handler (escalation + Close) was not found")
	}
}

// ---------------------------------------------------------------- R10.17 command names are folded over the whole alphabet

// ruleCommandNameLowercased: the command black list is an exact-match table
// holding the lower-case (and upper-case) spellings; every parser looks a name
// up after ParseArgs folded it. The folding is strings.ToLower, or a loop that
// maps exactly 'A'..'Z' (both ends included).
func ruleCommandNameLowercased(w *core.World, r *core.Report) {
	f := fn(w, r, "pkg/redis/client.ParseArgs")
	if f == nil {
		return
	}
	var cmdVal ssa.Value
	// (a return that hands on the results of a helper with one call site is that helper's returns)
	for _, ret := range core.ReturnsX(f) {
		if len(ret.Results) != 3 {
			continue
		}
		// a return without error: the constant nil, also when the results are spilled because the function defers
		success := isSuccessReturn(ret)
		for _, ev := range core.RetVals(ret, 2) {
			if core.IsNilConst(ev) {
				success = true
			}
		}
		if success {
			cmdVal = core.RetVal(ret, 0)
		}
	}
	if cmdVal == nil {
		r.Unresolved("ParseArgs/command", "the returned command name was not found")
		return
	}
	lib := core.DependsOn(cmdVal, func(x ssa.Value) bool {
		c, ok := x.(*ssa.Call)
		if !ok {
			return false
		}
		n := core.ResolveCall(c).Name
		return n == "strings.ToLower" || n == "bytes.ToLower"
	})
	if lib {
		r.OK("ParseArgs/command-name-folded", f.Pos(), "strings.ToLower")
		return
	}
	// a hand-written fold: the byte comparisons of the helper that produces the name
	var helper *ssa.Function
	core.Walk(cmdVal, func(x ssa.Value) bool {
		if c, ok := x.(*ssa.Call); ok && helper == nil {
			if g := c.Call.StaticCallee(); g != nil && len(g.Blocks) > 0 && g.Pkg == f.Pkg {
				helper = g
			}
		}
		return helper == nil
	})
	if helper == nil {
		r.Undecided("ParseArgs/command-name-folded", f.Pos(), "the command name is neither folded with strings.ToLower nor by a helper of the package")
		return
	}
	lo, hi, other := false, false, false
	for _, in := range core.Instrs(helper) {
		b, ok := in.(*ssa.BinOp)
		if !ok {
			continue
		}
		k, isK := core.ConstInt(b.Y)
		if !isK {
			continue
		}
		switch {
		case (b.Op == token.GEQ && k == 'A') || (b.Op == token.GTR && k == 'A'-1) || (b.Op == token.LSS && k == 'A') || (b.Op == token.LEQ && k == 'A'-1):
			lo = true
		case (b.Op == token.LEQ && k == 'Z') || (b.Op == token.LSS && k == 'Z'+1) || (b.Op == token.GTR && k == 'Z') || (b.Op == token.GEQ && k == 'Z'+1):
			hi = true
		case b.Op == token.LSS || b.Op == token.LEQ || b.Op == token.GTR || b.Op == token.GEQ:
			if k >= 'A'-1 && k <= 'Z'+1 {
				other = true
			}
		}
	}
	r.Check(lo && hi && !other, "ParseArgs/command-name-folded", helper.Pos(), "the helper that folds command names does not map exactly 'A'..'Z' (lower end: %v, upper end: %v, another bound inside the alphabet: %v): a name with an unmapped letter keeps its upper-case spelling, matches neither entry of the command black list and is forwarded", lo, hi, other)
}

// ---------------------------------------------------------------- R10.16 merging slot ranges is a union

// ruleRangeMergeIsUnion: when an inserted slot range overlaps (or touches) a
// stored one, the merged range is [min(left), max(right)]: the two bounds are
// extended independently. An `else if` between them loses the right part of a
// later range nested in an earlier one, and IsSlotInList answers "no" for slots
// the operator configured in (or out).
func ruleRangeMergeIsUnion(w *core.World, r *core.Report) {
	f := fn(w, r, "(*pkg/filter.RangeList).InsertSlotInList")
	if f == nil {
		return
	}
	n := 0
	for _, in := range core.Instrs(f) {
		st, ok := in.(*ssa.Store)
		if !ok {
			continue
		}
		fa, ok := st.Addr.(*ssa.FieldAddr)
		if !ok {
			continue
		}
		name := core.FieldName(fa)
		if name != "Left" && name != "Right" || fieldNameOfLoad(core.Unwrap(st.Val)) != name {
			continue
		}
		other := "Left"
		if name == "Left" {
			other = "Right"
		}
		n++
		dependent := false
		for _, fct := range core.FactsAt(st.Block()) {
			c, isCmp := core.FactCmp(fct)
			if !isCmp {
				continue
			}
			if fieldNameOfLoad(core.Unwrap(c.X)) == other && fieldNameOfLoad(core.Unwrap(c.Y)) == other {
				dependent = true
			}
		}
		r.Check(!dependent, "RangeList.InsertSlotInList/bounds-extended-independently", st.Pos(), "when two slot ranges are merged the %s bound is extended only depending on how the %s bounds compare: the union loses part of a range nested in (or ending inside) an earlier one, and the slot rule answers wrongly for the lost slots", name, other)
	}
	if n < 2 {
		r.Fail("RangeList.InsertSlotInList/bounds-extended-independently", f.Pos(), "the merge of overlapping slot ranges (both bounds taken from the stored range) was not found")
	}
}

// ---------------------------------------------------------------- R08.10 a snapshot counts as "being written" only by its name

// ruleWritingOnlyForTmpName: a snapshot file under its final name is complete:
// its header is verified (size and CRC) when a reader opens it. Only the
// temporary name means "still being written, nothing to verify yet". Any other
// way of setting that flag (for instance "shorter than announced") lets a
// truncated, renamed snapshot be served without the check.
func ruleWritingOnlyForTmpName(w *core.World, r *core.Report) {
	f := fn(w, r, "pkg/store.NewRdbReader")
	if f == nil {
		return
	}
	missing := func(b *ssa.BasicBlock) bool {
		for _, fct := range core.FactsAt(b) {
			v := core.Unwrap(fct.Cond)
			if u, ok := v.(*ssa.UnOp); ok && u.Op == token.NOT {
				v = core.Unwrap(u.X)
				fct.Val = !fct.Val
			}
			if c, ok := v.(*ssa.Call); ok {
				n := core.ResolveCall(c).Name
				if strings.HasSuffix(n, "fileExist") && !fct.Val {
					return true
				}
				if (n == "os.IsNotExist" || n == "errors.Is") && fct.Val {
					return true
				}
			}
			if cm, ok := core.FactCmp(fct); ok && cm.Op == token.NEQ && core.IsNilConst(cm.Y) && isResultOf("os.Stat", 1)(core.Unwrap(cm.X)) {
				return true
			}
		}
		return false
	}
	n := 0
	for _, s := range core.SitesNamed(f, false, "pkg/store.newRdbReader") {
		if s.Instr.Parent() != f {
			continue
		}
		a := s.Args()
		flag := a[len(a)-1]
		if _, isStruct := flag.Type().Underlying().(*types.Struct); isStruct {
			// the constructor takes one record: the flag is the field whose being false the constructor
			// requires before it verifies the header; its value is what the caller's literal puts there
			flag = nil
			if idx, found := fieldTestedFalseBefore(s.Callee, "checkHeader"); found {
				flag = structFieldAt(a[len(a)-1], idx)
			}
			if flag == nil {
				r.Undecided("NewRdbReader/writing-only-for-temporary-name", s.Pos(), "the reader constructor takes a record; the field that skips the header verification, or the value the caller gives it, could not be read")
				n++
				continue
			}
		}
		n++
		bad := false
		var pos token.Pos = s.Pos()
		seen := map[ssa.Value]bool{}
		var visit func(v ssa.Value, from *ssa.BasicBlock)
		visit = func(v ssa.Value, from *ssa.BasicBlock) {
			if seen[v] {
				return
			}
			seen[v] = true
			switch x := v.(type) {
			case *ssa.Extract:
				// the flag is a result of a helper of the package that locates the file: every return of the
				// helper is judged where it stands (the facts of the helper's own branches)
				c, isCall := x.Tuple.(*ssa.Call)
				var g *ssa.Function
				if isCall && !c.Call.IsInvoke() {
					g = c.Call.StaticCallee()
				}
				if g == nil || len(g.Blocks) == 0 || g.Pkg != f.Pkg {
					bad = true
					return
				}
				nret := 0
				for _, in := range core.OwnInstrs(g) {
					if ret, isRet := in.(*ssa.Return); isRet && x.Index < len(ret.Results) {
						nret++
						for _, rv := range core.RetVals(ret, x.Index) {
							visit(rv, ret.Block())
						}
					}
				}
				if nret == 0 {
					bad = true
				}
				seen[v] = false
			case *ssa.Phi:
				for i, e := range x.Edges {
					visit(e, x.Block().Preds[i])
				}
				seen[v] = false
			case *ssa.Const:
				if b, ok := core.ConstBool(x); ok && b {
					if from == nil || !(missing(from) || missingAtOrAbove(from, missing)) {
						bad = true
					}
				}
				seen[v] = false
			default:
				bad = true
			}
		}
		visit(flag, nil)
		r.Check(!bad, "NewRdbReader/writing-only-for-temporary-name", pos, "the 'still being written' flag of a snapshot reader (which skips the size and CRC verification) is set on a path that did not establish that the file exists under its temporary name only: a truncated snapshot under its final name is served without the check")
	}
	if n == 0 {
		r.Fail("NewRdbReader/writing-only-for-temporary-name", f.Pos(), "the reader constructor call was not found")
	}
}

func missingAtOrAbove(b *ssa.BasicBlock, missing func(*ssa.BasicBlock) bool) bool {
	// the edge's source block itself ends the `if !exists` that decides it
	for d := b; d != nil; d = d.Idom() {
		if missing(d) {
			return true
		}
	}
	return false
}

// ---------------------------------------------------------------- R03.17 the full sync waits for every goroutine that replays a part of it

// ruleFullSyncAwaitsEverySender: sendRdb starts one distributor, one worker per
// configured lane and (bidirectional, cluster) one global lane; each reports on
// one channel and sendRdb reads cap(channel) results before it declares the
// snapshot replayed. The capacity must count every sender: Parallel + (the
// goroutines started once, unconditionally) + 1 per conditionally started one.
// One short and sendRdb returns — and cancels the context — while a worker still
// holds queued entries.
func ruleFullSyncAwaitsEverySender(w *core.World, r *core.Report) {
	f := fn(w, r, "(*syncer.RedisOutput).sendRdb")
	if f == nil {
		return
	}
	var mk *ssa.MakeChan
	for _, in := range core.OwnInstrs(f) {
		if m, ok := in.(*ssa.MakeChan); ok {
			if ch, isCh := m.Type().Underlying().(*types.Chan); isCh && types.Identical(ch.Elem(), types.Universe.Lookup("error").Type()) {
				mk = m
			}
		}
	}
	if mk == nil {
		r.Undecided("sendRdb/awaits-every-sender", f.Pos(), "the result channel of the replay goroutines was not found")
		return
	}
	cell := core.Cell(mk)
	if cell == nil {
		// the channel value is stored into the captured variable
		for _, rf := range *mk.Referrers() {
			if st, ok := rf.(*ssa.Store); ok {
				cell = core.Cell(st.Addr)
			}
		}
	}
	sendsOn := func(g *ssa.Function) bool {
		for _, h := range core.DeepFuncs(g) {
			for _, in := range core.OwnInstrs(h) {
				sd, ok := in.(*ssa.Send)
				if !ok {
					continue
				}
				if ld, isLd := sd.Chan.(*ssa.UnOp); isLd && cell != nil && core.Cell(ld.X) == cell {
					return true
				}
				if sd.Chan == ssa.Value(mk) {
					return true
				}
			}
		}
		return false
	}
	// where the results are awaited: a goroutine started on every way there is started "once"
	// (the wait loop may sit in a helper that exists for this one call: it is read as part of sendRdb, and the
	// place where the results are awaited is the block of the call through which the helper runs)
	var waitAt *ssa.BasicBlock
	for _, in := range core.Instrs(f) {
		c, ok := in.(*ssa.Call)
		if !ok || !isBuiltin(c, "cap") {
			continue
		}
		blk := c.Block()
		for blk != nil && blk.Parent() != f {
			if call := core.ExpandedInto(blk.Parent()); call != nil {
				blk = call.Block()
			} else {
				blk = nil
			}
		}
		if blk != nil {
			waitAt = blk
		}
	}
	if waitAt == nil {
		r.Fail("sendRdb/awaits-capacity", mk.Pos(), "the number of results sendRdb waits for is not the capacity of the result channel")
		return
	}
	once, perLane, conditional := 0, 0, 0
	for _, s := range core.SitesNamed(f, false, "pkg/sync.SafeGo") {
		if s.Instr.Parent() != f || len(s.Args()) == 0 {
			continue
		}
		mc, ok := core.Unwrap(s.Args()[0]).(*ssa.MakeClosure)
		if !ok {
			continue
		}
		g, ok := mc.Fn.(*ssa.Function)
		if !ok || !sendsOn(g) {
			continue
		}
		switch {
		case core.LoopHeadOf(s.Instr.Block()) != nil:
			perLane++
		case !s.Instr.Block().Dominates(waitAt):
			conditional++
		default:
			once++
		}
	}
	// the capacity: Parallel + k, with one conditional increment per conditionally started sender
	k, incs := int64(-1), 0
	var parse func(v ssa.Value, depth int) bool
	parse = func(v ssa.Value, depth int) bool {
		v = core.Unwrap(v)
		if ph, ok := v.(*ssa.Phi); ok && len(ph.Edges) == 2 && depth < 4 {
			// base, or base + 1
			for i, e := range ph.Edges {
				if b, isB := core.Unwrap(e).(*ssa.BinOp); isB && b.Op == token.ADD && isConstInt(1)(b.Y) && core.Unwrap(b.X) == core.Unwrap(ph.Edges[1-i]) {
					incs++
					return parse(ph.Edges[1-i], depth+1)
				}
			}
			return false
		}
		b, ok := v.(*ssa.BinOp)
		if !ok || b.Op != token.ADD {
			if fieldNameOfLoad(v) == "ReplayRdbParallel" {
				k = 0
				return true
			}
			return false
		}
		c, isK := core.ConstInt(b.Y)
		if !isK || fieldNameOfLoad(core.Unwrap(b.X)) != "ReplayRdbParallel" {
			return false
		}
		k = c
		return true
	}
	if !parse(mk.Size, 0) || perLane != 1 {
		r.Undecided("sendRdb/awaits-every-sender", mk.Pos(), "the capacity of the result channel is not of the form ReplayRdbParallel + k (+1 per conditional sender), or the per-lane workers are not started in one loop (per-lane groups: %d)", perLane)
		return
	}
	r.Check(k == int64(once) && incs == conditional, "sendRdb/awaits-every-sender", mk.Pos(), "the full sync waits for cap(result channel) results, and the capacity is ReplayRdbParallel + %d with %d conditional increment(s), while %d goroutine(s) are started once and %d conditionally besides the per-lane workers: sendRdb returns (and cancels the replay) while a worker still holds queued snapshot entries, or waits for a result nobody sends", k, incs, once, conditional)
	// the wait loop reads cap(channel) results
	waits := waitAt != nil
	r.Check(waits, "sendRdb/awaits-capacity", mk.Pos(), "the number of results sendRdb waits for is not the capacity of the result channel")
}

// ---------------------------------------------------------------- R07.8 every flush stores an offset of the one running position

// ruleFlushOffsetsFollowEveryItem: the sender keeps one running position — the
// end offset of the last item it took from the channel, pings included: the
// keep-alive flush stores it. Whatever another flush stores must be that
// position (as of the start of the iteration, or the item just received). A
// second variable that is advanced only at the end of an item's handling lags
// behind every ping (`continue`): the barrier flush that follows an idle period
// writes an offset that is older than what the keep-alive tick stored, and the
// stored position moves backwards.
func ruleFlushOffsetsFollowEveryItem(w *core.World, r *core.Report, c *senderCtx) {
	if c == nil || c.head == nil {
		return
	}
	// the received item's end offset
	var itemOff ssa.Value
	for _, in := range core.OwnInstrs(c.main) {
		v, ok := in.(ssa.Value)
		if ok && fieldOf("Offset", c.isItemVal)(v) && itemOff == nil {
			itemOff = v
		}
	}
	if itemOff == nil {
		r.Undecided("sendCmdsBatch/flush-offsets-follow-every-item", c.main.Pos(), "the end offset of the received item was not found")
		return
	}
	itemBlock := itemOff.(ssa.Instruction).Block()
	isItemOff := func(v ssa.Value) bool { return fieldOf("Offset", c.isItemVal)(core.Unwrap(v)) }
	// a loop variable that holds the running position: on every way round the loop that took an item it
	// becomes that item's offset, on every other way it keeps its value
	tracked := func(ph *ssa.Phi) (bool, token.Pos) {
		for i, e := range ph.Edges {
			pred := c.head.Preds[i]
			if !c.head.Dominates(pred) {
				continue // entry: the initial value (judged by R07.1)
			}
			tookItem := pred == itemBlock || itemBlock.Dominates(pred)
			okEdge := true
			seen := map[ssa.Value]bool{}
			var visit func(v ssa.Value)
			visit = func(v ssa.Value) {
				v = core.Unwrap(v)
				if seen[v] {
					return
				}
				seen[v] = true
				if q, isPhi := v.(*ssa.Phi); isPhi && q != ph {
					for _, e2 := range q.Edges {
						visit(e2)
					}
					return
				}
				if tookItem {
					if !isItemOff(v) {
						okEdge = false
					}
				} else if v != ssa.Value(ph) && !isItemOff(v) {
					okEdge = false
				}
			}
			visit(e)
			if !okEdge {
				return false, pred.Instrs[len(pred.Instrs)-1].Pos()
			}
		}
		return true, token.NoPos
	}
	n := 0
	for _, s := range core.Sites(c.main, false) {
		if s.Callee != c.send || s.Instr.Parent() != c.main {
			continue
		}
		args, ok := c.flushArgsAt(s)
		var offsets []ssa.Value // what the flush may store
		if ok {
			offsets = []ssa.Value{args[2]}
		} else if offsets, ok = c.flushOffsetSources(s); !ok {
			continue
		}
		n++
		bad := ""
		var pos token.Pos = s.Pos()
		seen := map[ssa.Value]bool{}
		var visit func(v ssa.Value)
		visit = func(v ssa.Value) {
			v = core.Unwrap(v)
			if seen[v] || bad != "" {
				return
			}
			seen[v] = true
			if isItemOff(v) {
				return
			}
			if ph, isPhi := v.(*ssa.Phi); isPhi {
				if ph.Block() == c.head {
					if okT, at := tracked(ph); !okT {
						bad = "a flush stores the value of a loop variable that is not advanced on every way round the loop that took an item (for instance the `continue` of a ping, last decision at " + w.Pos(at) + "): it lags behind the position the keep-alive flush stores, and the stored resume position moves backwards"
					}
					return
				}
				for _, e := range ph.Edges {
					visit(e)
				}
				return
			}
			if _, isK := core.ConstInt(v); isK {
				return // the 'nothing yet' constant: R07.1
			}
			bad = "a flush stores an offset that is neither the received item's nor the running position: " + v.String()
		}
		for _, o := range offsets {
			visit(o)
		}
		r.Check(bad == "", "sendCmdsBatch/"+c.flushRole(s.Instr)+"/offset-is-the-running-position", pos, "%s", bad)
	}
	if n == 0 {
		r.Fail("sendCmdsBatch/flush-offsets-follow-every-item", c.main.Pos(), "no flush found")
	}
}

// ---------------------------------------------------------------- R19.19 a slot's commands follow one route while earlier ones are unsettled

// ruleRouteFollowsUnsettledSlot: the plain (non-transactional) cluster batchers
// choose a command's node when it is queued (Put) and follow a MOVED/ASK only
// when its reply is read (Exec / Receive). Between the two the slot table can
// be refreshed. A later command of the same slot that is routed by the table
// alone goes straight to the new owner and is executed there before the
// earlier one has been redirected: two writes to one key arrive in the
// opposite order. Per-key order therefore needs the routing of a command to
// consult what was chosen for its slot by commands that are not settled yet
// (of this batch, and of the batches in flight): the call that picks the node
// in Put must be handed state of the batch itself, not only the cluster's
// table. (W32: reproduced on the unmodified tree, recorded as a known finding:
// the repair needs per-slot in-flight bookkeeping across three files.)
func ruleRouteFollowsUnsettledSlot(w *core.World, r *core.Report) {
	for _, name := range []string{"(*pkg/redis/client/cluster.Batch).Put", "(*pkg/redis/client/cluster.batch2).Put"} {
		f := fn(w, r, name)
		if f == nil || len(f.Params) == 0 {
			continue
		}
		label := "Batch.Put"
		if strings.Contains(name, "batch2") {
			label = "batch2.Put"
		}
		recv := f.Params[0]
		n := 0
		for _, s := range core.Sites(f, false) {
			if s.Instr.Parent() != f || s.Callee == nil || s.Callee.Signature.Results().Len() < 1 {
				continue
			}
			if pt, isPtr := s.Callee.Signature.Results().At(0).Type().(*types.Pointer); !isPtr || !strings.HasSuffix(core.TypeName(pt.Elem()), "redisNode") {
				continue
			}
			n++
			// batch state handed to the router: the batch itself, or a field of it other than the cluster handle
			consults := false
			for i, a := range s.Common().Args {
				v := core.Unwrap(a)
				if v == ssa.Value(recv) {
					consults = true
				}
				if ld, ok := v.(*ssa.UnOp); ok && ld.Op == token.MUL {
					if fa, isFa := ld.X.(*ssa.FieldAddr); isFa && core.Unwrap(fa.X) == ssa.Value(recv) && core.FieldName(fa) != "cluster" {
						consults = true
					}
				}
				_ = i
			}
			r.Check(consults, label+"/route-follows-unsettled-slot", s.Pos(), "the node of a queued command is chosen from the cluster's slot table alone, while redirections are followed only when replies are read: after a table refresh a later command of the same slot goes straight to the new owner and is executed before the earlier, still unsettled one is redirected there — two writes to one key reach the owner in the opposite order")
		}
		if n == 0 {
			r.Fail(label+"/route-follows-unsettled-slot", f.Pos(), "the call that picks the node of a queued command was not found")
		}
	}
}
