package rules

import (
	"fmt"
	"os"
	"go/token"
	"go/types"
	"strings"

	"gunyucheck/core"

	"golang.org/x/tools/go/ssa"
)

func init() {
	All["C13"] = c13
	core.Explanations["C13"] = "Decides necessary structural conditions of 'bidirectional sync never echoes its own writes nor swallows foreign ones': " +
		"(R13.1) every function that fills a transaction batcher puts the marker SET first, on every path, and the transaction batcher is created nowhere else; (R13.2) bookkeeping keys come from constructors whose format literals start with the reserved prefix, and the namespace test checks exactly the reserved prefixes; " +
		"(R13.3) the suppression predicates look at key positions only: the marker test reads the command name, the argument count and the first argument; the namespace test reads the first argument, or all arguments only for DEL/UNLINK (whose arguments are all keys); (R13.4) every Is…Key predicate answers true only under the reserved prefix; " +
		"(R13.5) on every path of the replay-unit parser a decoded command is dropped only for a documented reason (filters, ping, SELECT handling, sentinel hello, control-namespace command outside a transaction, transaction brackets); (R13.6) the transaction buffer starts fresh at every MULTI and is dropped after every EXEC, a mirrored transaction emits nothing, and the buffer is append-only in arrival order so the marker stays first. " +
		"Not decided: quiescence of the exchange at run time; interaction with user key filters (outside the quantifier)."
}

func c13(w *core.World, r *core.Report) {
	r.Rule("R13.1", "marker first in every transaction the tool writes; transaction batchers are created only by those writers", 3)
	ruleDispatchOrder(w, r, "(*syncer.RedisOutput).dispatchBisyncUnit", "dispatchBisyncUnit/marker-first")
	ruleMarkerFirstRdb(w, r)
	ruleTxnBatcherOwners(w, r)

	r.Rule("R13.2", "bookkeeping keys live under the reserved prefix; the namespace test checks exactly the reserved prefixes", 6)
	ruleReservedNamespace(w, r)

	r.Rule("R10.9", "what the reserved-prefix black list judges are keys: the static key table marks no value position of a multi-key command as a key (shared with C10)", 1)
	ruleMultiKeySpecs(w, r)
	r.Rule("R13.3", "suppression predicates read key positions only", 2)
	ruleKeyPositionsOnly(w, r)

	r.Rule("R13.4", "Is…Key predicates answer true only under the reserved prefix", 5)
	for _, f := range w.FuncsIn("pkg/redis/checkpoint") {
		n := f.Name()
		if !strings.HasPrefix(n, "IsBisync") || !strings.HasSuffix(n, "Key") || f.Signature.Recv() != nil {
			continue
		}
		r.Analysed(core.FuncName(f))
		bad := ""
		k := 0
		core.EnumPaths(f.Blocks[0], 0, 1000, func(p *core.Path) {
			ret, ok := p.End.(*ssa.Return)
			if !ok {
				return
			}
			v, known := p.Eval(ret.Results[0])
			if known && !v {
				return
			}
			k++
			pref := pathAssumed(p, func(x ssa.Value) bool {
				c, ok := core.Unwrap(x).(*ssa.Call)
				if !ok || core.ResolveCall(c).Name != "strings.HasPrefix" {
					return false
				}
				s, ok := core.ConstString(c.Call.Args[1])
				return ok && s == reservedPrefix(p0(w))+":" && core.Unwrap(p.Resolve(c.Call.Args[0])) == ssa.Value(f.Params[0])
			}, true)
			if !pref {
				bad = "the predicate can answer true for a key outside the reserved bookkeeping prefix: a client command on such a key would be suppressed"
			}
		})
		r.Check(bad == "" && k > 0, "checkpoint."+n+"/prefix", f.Pos(), "%s", bad)
	}

	r.Rule("R13.5", "replay-unit parser drops a decoded command only for documented reasons (all loop paths)", 1)
	ruleUnitParserRemovals(w, r)

	r.Rule("R13.9", "a stand-alone command on the tool's own keys is always a control command: only the namespace test can say otherwise", 1)
	ruleControlCommandIsNamespace(w, r)
	r.Rule("R13.7", "with bidirectional sync on, data reaches the target only through the marker writers: every unmarked replay path is entered only when bisyncEnabled() is false", 3)
	ruleMarkerPathSelection(w, r)

	r.Rule("R13.8", "on the bidirectional paths nothing but reads and bookkeeping is sent outside a marker-led transaction", 1)
	ruleNoBareWritesOnBisyncPaths(w, r)

	r.Rule("R13.6", "transaction buffer: fresh at MULTI, dropped after EXEC, append-only; a mirrored transaction emits nothing", 4)
	ruleTxnBuffer(w, r)
	r.Rule("R13.10", "the marker is volatile: the recogniser of the tool's own transactions steps over the master's lazy-expiry DEL / UNLINK of the marker in front of the marker SET", 1)
	ruleMirroredTxnToleratesLazyExpiry(w, r)
	r.Rule("R10.4", "the tool's own checkpoint and registry prefixes are on the key black list whatever the operator configured: bookkeeping traffic is never forwarded (shared with C10)", 1)
	ruleBookkeepingPrefixes(w, r)
	r.Rule("R19.5", "a mirrored transaction is dispatched again only after a resolved redirect: re-sending it after a lost connection applies the unit twice, both times with a marker (shared with C19)", 3)
	ruleTxnRedirect(w, r)
}

func p0(w *core.World) *core.World { return w }

func reservedPrefix(w *core.World) string {
	s, _ := pkgConstString(w, "pkg/redis/checkpoint", "BisyncKeyPrefix")
	return s
}

func ruleMarkerFirstRdb(w *core.World, r *core.Report) {
	f := fn(w, r, "(*syncer.RedisOutput).execBisyncRdbUnit")
	if f == nil {
		return
	}
	bad := ""
	var badPos token.Pos
	n := 0
	core.EnumPathsN(f.Blocks[0], 0, 100000, core.Unroll, func(p *core.Path) {
		var kinds []string
		var sites []core.Site
		var bat ssa.Value
		for _, s := range pathSites(p) {
			if !s.Common().IsInvoke() {
				continue
			}
			switch s.Method {
			case "Put":
				k := "business"
				if cmd, ok := core.CmdName(s); ok {
					k = "other:" + cmd
					if el, _ := core.CmdArgs(s); cmd == "set" && len(el) > 0 && core.DependsOn(el[0], isResultOf("pkg/redis/checkpoint.BisyncMarkerKey", -1)) {
						k = "marker"
					}
				}
				kinds = append(kinds, k)
				sites = append(sites, s)
				if bat == nil {
					bat = p.Resolve(s.Recv())
				} else if p.Resolve(s.Recv()) != bat {
					bad, badPos = "commands of one unit are put on different batchers", s.Pos()
				}
			case "Exec", "Dispatch":
				kinds = append(kinds, "run")
				sites = append(sites, s)
			}
		}
		ran := false
		for _, k := range kinds {
			if k == "run" {
				ran = true
			}
		}
		if !ran {
			return
		}
		n++
		if kinds[0] != "marker" {
			bad, badPos = "a snapshot unit is sent without the marker SET as its first command: the opposite link replays it back ("+strings.Join(kinds, " ")+")", sites[0].Pos()
		}
		for i, k := range kinds[1:] {
			if k != "business" && k != "run" {
				bad, badPos = "unexpected command in a snapshot unit: "+k, sites[i+1].Pos()
			}
		}
	})
	r.Check(bad == "" && n > 0, "execBisyncRdbUnit/marker-first", badPos, "%s", bad)
	ruleAllUnitCommands(w, r, f, "execBisyncRdbUnit")
}

func ruleTxnBatcherOwners(w *core.World, r *core.Report) {
	owners := map[string]token.Pos{}
	for _, f := range w.FuncsIn("syncer") {
		for _, s := range core.Sites(f, false) {
			if s.Method == "NewTxnBatcher" && s.Common().IsInvoke() {
				owners[core.FuncName(f)] = s.Pos()
			}
		}
	}
	okOwners := len(owners) > 0
	for n, pos := range owners {
		if n != "(*syncer.RedisOutput).newBisyncTxnBatcher" {
			okOwners = false
			r.Fail("NewTxnBatcher/owner/"+n, pos, "a transaction batcher is created outside the marker-writing senders: its transaction would carry no marker and be echoed by the opposite link")
		}
	}
	// and the helper is called only by the two marker-first writers
	h := w.Func("(*syncer.RedisOutput).newBisyncTxnBatcher")
	callers := map[string]bool{}
	for _, f := range w.FuncsIn("syncer") {
		for _, s := range core.Sites(f, false) {
			if h != nil && s.Callee == h {
				callers[core.FuncName(f)] = true
			}
		}
	}
	want := map[string]bool{"(*syncer.RedisOutput).dispatchBisyncUnit": true, "(*syncer.RedisOutput).execBisyncRdbUnit": true}
	okCallers := len(callers) == len(want)
	for c := range callers {
		if !want[c] {
			okCallers = false
		}
	}
	r.Check(okOwners && okCallers, "NewTxnBatcher/owners", token.NoPos, "transaction batchers must be created only by dispatchBisyncUnit and execBisyncRdbUnit (found %v)", callers)
}

func ruleReservedNamespace(w *core.World, r *core.Report) {
	prefix := reservedPrefix(w)
	if prefix == "" {
		r.Unresolved("checkpoint.BisyncKeyPrefix", "reserved prefix constant not found")
		return
	}
	// constructors: the key they build starts with the constant "<reserved prefix>:" (whether written with
	// Sprintf, by concatenation, or through a shared helper)
	for _, name := range []string{"BisyncMarkerKey", "BisyncCommitIndexKey", "BisyncLatestCheckpointKey", "BisyncCommitRecordKey", "BisyncRdbRecordKey"} {
		f := fn(w, r, "pkg/redis/checkpoint."+name)
		if f == nil {
			continue
		}
		t, ok := funcStrTemplate(f)
		if !ok {
			r.Undecided("checkpoint."+name+"/reserved-prefix", f.Pos(), "the shape of the key this function builds could not be determined")
			continue
		}
		if os.Getenv("GUNYU_DEBUG") != "" {
			for _, pc := range t {
				fmt.Printf("DEBUG tmpl %s: lit=%q hole=%v\n", name, pc.lit, pc.hole)
			}
		}
		good := len(t) > 0 && t[0].hole == nil && strings.HasPrefix(t[0].lit, prefix+":")
		r.Check(good, "checkpoint."+name+"/reserved-prefix", f.Pos(), "bookkeeping keys must be built as \"<reserved prefix>:…\" so that the opposite link can recognise and skip them")
	}
	// the namespace test of the parser
	if f := fn(w, r, "syncer.isBisyncNamespaceKey"); f != nil {
		cp, _ := pkgConstString(w, "config", "CheckpointKey")
		seen := map[string]bool{}
		other := false
		for _, s := range core.SitesNamed(f, false, "strings.HasPrefix") {
			if str, ok := core.ConstString(s.Args()[1]); ok {
				seen[str] = true
			} else {
				other = true
			}
		}
		for _, s := range core.Sites(f, false) {
			if strings.HasPrefix(s.Name, "strings.") && s.Name != "strings.HasPrefix" {
				other = true // Contains / HasSuffix would match client keys
			}
		}
		r.Check(seen[prefix+":"] && seen[cp] && len(seen) == 2 && !other, "isBisyncNamespaceKey/prefixes", f.Pos(), "the control-namespace test must be exactly HasPrefix(key, %q) || HasPrefix(key, %q) (found %v)", prefix+":", cp, seen)
	}
}

func ruleKeyPositionsOnly(w *core.World, r *core.Report) {
	// isBisyncMarkerCommand: depends on cmd.Cmd, len(cmd.Args), cmd.Args[0] only
	if f := fn(w, r, "syncer.isBisyncMarkerCommand"); f != nil {
		bad := ""
		for _, in := range core.Instrs(f) {
			ia, ok := in.(*ssa.IndexAddr)
			if !ok {
				continue
			}
			if k, isC := core.ConstInt(ia.Index); !isC || k != 0 {
				bad = "the marker test reads an argument other than the first one (a value that looks like a marker must not matter)"
			}
		}
		for _, in := range core.Instrs(f) {
			if _, isRange := in.(*ssa.Range); isRange {
				bad = "the marker test iterates over the arguments"
			}
			if ph, isPhi := in.(*ssa.Phi); isPhi && ph.Comment == "rangeindex" {
				bad = "the marker test iterates over the arguments"
			}
		}
		r.Check(bad == "", "isBisyncMarkerCommand/first-argument-only", f.Pos(), "%s", bad)
	}
	// touchesBisyncNamespace: isBisyncNamespaceKey on Args[0], or on every arg only under del/unlink
	if f := fn(w, r, "syncer.touchesBisyncNamespace"); f != nil {
		n := 0
		firstSeen, allBad := false, ""
		var allPos token.Pos = f.Pos()
		core.EnumPathsN(f.Blocks[0], 0, 100000, core.Unroll, func(p *core.Path) {
			for _, in := range p.Instrs {
				c, ok := in.(*ssa.Call)
				if !ok || core.ResolveCall(c).Name != "syncer.isBisyncNamespaceKey" {
					continue
				}
				n++
				first := false
				core.Walk(p.Resolve(c.Call.Args[0]), func(v ssa.Value) bool {
					if ia, ok := v.(*ssa.IndexAddr); ok {
						if k, isC := core.ConstInt(ia.Index); isC && k == 0 {
							first = true
						}
					}
					return true
				})
				if first {
					firstSeen = true
					continue
				}
				// some other argument is tested: only for commands whose arguments are all keys
				delOnly := false
				for _, fct := range p.Conds {
					if cm, ok := core.AsCmp(p.Resolve(fct.Cond), fct.Val); ok && cm.Op == token.EQL {
						if str, ok := core.ConstString(cm.Y); ok && (str == "del" || str == "unlink") {
							delOnly = true
						}
					}
				}
				if !delOnly {
					allBad, allPos = "every argument of a command is tested against the control namespace although only DEL/UNLINK have keys in every position: a client command whose value or member merely looks like a bookkeeping key is swallowed", c.Pos()
				}
			}
		})
		if firstSeen {
			r.OK("touchesBisyncNamespace/first-argument", f.Pos(), "")
		}
		r.Check(allBad == "", "touchesBisyncNamespace/all-arguments-only-for-del", allPos, "%s", allBad)
		if n == 0 {
			r.Fail("touchesBisyncNamespace", f.Pos(), "namespace test not used")
		}
	}
}

func ruleUnitParserRemovals(w *core.World, r *core.Report) {
	f := fn(w, r, "(*syncer.RedisOutput).parseAofReplayUnits")
	if f == nil {
		return
	}
	var dec ssa.Instruction
	for _, s := range core.SitesNamed(f, false, "pkg/redis/client.MustDecodeOpt") {
		dec = s.Instr
	}
	if dec == nil {
		r.Unresolved("parseAofReplayUnits/decode", "decode call not found")
		return
	}
	head := core.LoopHeadOf(dec.Block())
	isCmd := isResultOf("pkg/redis/client.ParseArgs", 0)
	drops, keeps := 0, 0
	bad := map[string]token.Pos{}
	okEnum := core.EnumPaths(head, 0, 400000, func(p *core.Path) {
		if !p.Closed {
			return
		}
		decoded := false
		for _, in := range p.Instrs {
			if in == dec {
				decoded = true
			}
		}
		if !decoded {
			return
		}
		// kept: appended to the transaction buffer, or emitted as a unit
		built := false
		for _, s := range pathSites(p) {
			if !strings.HasSuffix(s.Name, "buildBisyncReplayUnitWithMode") {
				continue
			}
			built = true
			// the unit that was built goes somewhere (emitted, queued, sent) before the next command is read
			tuple := s.Value()
			for _, in := range p.Instrs {
				var ops []ssa.Value
				switch x := in.(type) {
				case *ssa.Call:
					ops = x.Call.Args
				case *ssa.Send:
					ops = []ssa.Value{x.X}
				case *ssa.Store:
					ops = []ssa.Value{x.Val}
				}
				for _, o := range ops {
					if ex, ok := core.Unwrap(p.Resolve(o)).(*ssa.Extract); ok && ex.Tuple == tuple && ex.Index == 0 {
						keeps++
						return
					}
				}
			}
		}
		if built {
			pos := lastDecisionPos(p)
			bad[w.Pos(pos)] = pos
			return
		}
		for _, in := range p.Instrs {
			if c, ok := in.(*ssa.Call); ok {
				if b, ok := c.Call.Value.(*ssa.Builtin); ok && b.Name() == "append" && strings.HasSuffix(c.Type().String(), "bisyncAofCommand") {
					keeps++
					return
				}
			}
		}
		drops++
		// documented reasons
		if p.Holds(token.EQL, isCmd, isConstStr("multi")) || p.Holds(token.EQL, isCmd, isConstStr("exec")) || p.Holds(token.EQL, isCmd, isConstStr("ping")) {
			return
		}
		for _, fct := range p.Conds {
			cv := core.Unwrap(p.Resolve(fct.Cond))
			if call, ok := cv.(*ssa.Call); ok && fct.Val {
				n := core.ResolveCall(call).Name
				if core.MatchName(n, "*RedisKeyFilter).FilterCmd", "*RedisKeyFilter).FilterDb", "syncer.isBisyncControlCommand", "syncer.touchesBisyncNamespace") {
					return
				}
				if n == "strings.EqualFold" {
					for _, a := range call.Call.Args {
						if s, ok := core.ConstString(a); ok && (s == "__sentinel__:hello" || s == "select") {
							return
						}
					}
				}
			}
			if fct.Val && isResultOf("*RedisKeyFilter).FilterCmdKey", 1)(cv) {
				return
			}
			if fct.Val {
				// the "current database is filtered" flag: the loop-carried boolean fed by FilterDb
				if ph, ok := cv.(*ssa.Phi); ok && ph.Block() == head && phiFedBy(ph, isResultOf("*RedisKeyFilter).FilterDb", -1), map[*ssa.Phi]bool{}) {
					return
				}
			}
		}
		pos := lastDecisionPos(p)
		bad[w.Pos(pos)] = pos
	})
	if !okEnum {
		r.Undecided("parseAofReplayUnits/removals", head.Instrs[0].Pos(), "too many paths")
		return
	}
	if len(bad) > 0 {
		var ks []string
		var first token.Pos
		for k, v := range bad {
			ks = append(ks, k)
			first = v
		}
		r.Fail("parseAofReplayUnits/removals", first, "a decoded command is dropped on a loop path (last decision at %v) with no documented reason (filters, ping, SELECT, sentinel hello, control-namespace command, MULTI/EXEC): a foreign write is swallowed", ks)
		return
	}
	r.Check(drops > 0 && keeps > 0, "parseAofReplayUnits/removals", head.Instrs[0].Pos(), "expected both dropping and keeping paths (drops=%d keeps=%d)", drops, keeps)
}

func ruleTxnBuffer(w *core.World, r *core.Report) {
	f := fn(w, r, "(*syncer.RedisOutput).parseAofReplayUnits")
	if f == nil {
		return
	}
	var dec ssa.Instruction
	for _, s := range core.SitesNamed(f, false, "pkg/redis/client.MustDecodeOpt") {
		dec = s.Instr
	}
	if dec == nil {
		return
	}
	head := core.LoopHeadOf(dec.Block())
	var buf *ssa.Phi
	for _, in := range head.Instrs {
		// the buffer of the open source transaction: the loop-carried slice of commands
		if ph, ok := in.(*ssa.Phi); ok && strings.HasSuffix(ph.Type().String(), "syncer.bisyncAofCommand") && strings.HasPrefix(ph.Type().String(), "[]") {
			buf = ph
		}
	}
	if buf == nil {
		r.Unresolved("parseAofReplayUnits/txnCommands", "loop-carried transaction buffer not found")
		return
	}
	isCmd := isResultOf("pkg/redis/client.ParseArgs", 0)
	isMirrored := func(v ssa.Value) bool {
		c, ok := core.Unwrap(v).(*ssa.Call)
		return ok && core.ResolveCall(c).Name == "syncer.isBisyncMirroredTransaction"
	}
	badMulti, badExec, badAppend, badEmit := "", "", "", ""
	nMulti, nExec, nApp, nMir := 0, 0, 0, 0
	core.EnumPaths(head, 0, 400000, func(p *core.Path) {
		if !p.Closed {
			return
		}
		next := p.NextIter(buf)
		switch {
		case p.Holds(token.EQL, isCmd, isConstStr("multi")):
			nMulti++
			if _, fresh := next.(*ssa.MakeSlice); !fresh && !core.IsNilConst(next) {
				badMulti = "at MULTI the transaction buffer is not replaced by a fresh one: commands (and the marker) of an earlier transaction stay in front, so the next client transaction is taken for a mirrored one and dropped"
			}
		case p.Holds(token.EQL, isCmd, isConstStr("exec")):
			nExec++
			if !core.IsNilConst(next) {
				_, fresh := next.(*ssa.MakeSlice)
				empty := false
				for _, fct := range p.Conds {
					if c, ok := core.FactCmp(fct); ok && (c.Op == token.LEQ || c.Op == token.EQL) && isConstInt(0)(c.Y) && lenOf(func(v ssa.Value) bool { return v == ssa.Value(buf) })(c.X) {
						empty = true
					}
				}
				if !fresh && !empty {
					badExec = "after EXEC the transaction buffer is kept although it is not empty: its content leaks into the next transaction"
				}
			}
			if pathAssumed(p, isMirrored, true) {
				nMir++
				for _, s := range pathSites(p) {
					if strings.HasSuffix(s.Name, "buildBisyncReplayUnitWithMode") || strings.Contains(s.Name, "parseAofReplayUnits$") && s.Callee != nil && len(core.SitesNamed(s.Callee, false, "iface:pkg/sync.WaitCloser.Context")) > 0 {
						badEmit = "a transaction recognised as mirrored still builds or emits a replay unit (echo)"
					}
				}
			}
		default:
			// a command appended inside a transaction: the new buffer is append(old, cmd)
			if next != ssa.Value(buf) && next != nil {
				nApp++
				c, ok := next.(*ssa.Call)
				okApp := false
				if ok {
					if b, isB := c.Call.Value.(*ssa.Builtin); isB && b.Name() == "append" && c.Call.Args[0] == ssa.Value(buf) {
						okApp = true
					}
				}
				if !okApp {
					badAppend = "the transaction buffer is changed other than by appending the arriving command at its end (the marker would no longer be the first command)"
				}
			}
		}
	})
	r.Check(badMulti == "" && nMulti > 0, "parseAofReplayUnits/fresh-buffer-at-multi", head.Instrs[0].Pos(), "%s", badMulti)
	r.Check(badExec == "" && nExec > 0, "parseAofReplayUnits/buffer-dropped-after-exec", head.Instrs[0].Pos(), "%s", badExec)
	r.Check(badAppend == "" && nApp > 0, "parseAofReplayUnits/buffer-append-only", head.Instrs[0].Pos(), "%s", badAppend)
	r.Check(badEmit == "" && nMir > 0, "parseAofReplayUnits/mirrored-emits-nothing", head.Instrs[0].Pos(), "%s", badEmit)
	// the mirrored test looks at the first buffered command only
	if g := fn(w, r, "syncer.isBisyncMirroredTransaction"); g != nil {
		ok := false
		for _, s := range core.SitesNamed(g, false, "syncer.isBisyncMarkerCommand") {
			core.Walk(s.Args()[0], func(v ssa.Value) bool {
				if ia, isIA := v.(*ssa.IndexAddr); isIA && isConstInt(0)(ia.Index) {
					ok = true
				}
				return true
			})
		}
		r.Check(ok, "isBisyncMirroredTransaction/first-command", g.Pos(), "a mirrored transaction is recognised by its first command only")
	}
}


// ---------------------------------------------------------------- R13.7 the marker writers are the only writers while bidirectional sync is on

// ruleMarkerPathSelection: the plain snapshot replay (rdbReplay) and the plain
// command sender (parseAofCommand / sendCmdsBatch) write without the marker.
// Whatever they write is taken for a client write by the opposite link and
// sent back. Every place that starts one of them must have established that
// bidirectional sync is off, and by nothing weaker (for instance 'off, or the
// output cannot run transactions').
func ruleMarkerPathSelection(w *core.World, r *core.Report) {
	isEnabled := func(v ssa.Value) bool {
		c, ok := core.Unwrap(v).(*ssa.Call)
		return ok && core.ResolveCall(c).Name == "(*syncer.RedisOutput).bisyncEnabled"
	}
	n := 0
	for _, target := range []string{"(*syncer.RedisOutput).rdbReplay", "(*syncer.RedisOutput).parseAofCommand", "(*syncer.RedisOutput).sendCmdsBatch"} {
		tf := fn(w, r, target)
		if tf == nil {
			continue
		}
		for _, site := range callSitesOf(w, tf) {
			n++
			verdict := markerPathGuarded(w, site, site.Parent(), isEnabled, 4)
			name := shortName(core.FuncName(site.Parent()))
			if site.Parent().Parent() != nil {
				name = shortName(core.FuncName(outermost(site.Parent()))) + "$closure"
			}
			construct := name + "/" + shortName(target) + "-only-when-bisync-off"
			switch verdict {
			case "undecided":
				r.Undecided(construct, site.Pos(), "too many paths")
			default:
				r.Check(verdict == "ok", construct, site.Pos(), "the unmarked replay path %s can be started while bidirectional sync is enabled: what it writes carries no marker, the opposite link takes it for client writes and sends it back", shortName(target))
			}
		}
	}
	if n == 0 {
		r.Fail("marker-path-selection", token.NoPos, "no start of an unmarked replay path found")
	}
}

// markerPathGuarded: every path of g through anchor established that bidirectional sync is off; a
// closure is judged where it is created, a helper of the package (a function the pinned tree does not
// have) at every place that calls it or takes it as a method value.
func markerPathGuarded(w *core.World, anchor ssa.Instruction, g *ssa.Function, isEnabled func(ssa.Value) bool, depth int) string {
	all, paths := true, 0
	okEnum := core.EnumPathsN(g.Blocks[0], 0, 200000, 1, func(p *core.Path) {
		on := false
		for _, in := range p.Instrs {
			if in == anchor {
				on = true
			}
		}
		if !on {
			return
		}
		paths++
		if !pathAssumed(p, isEnabled, false) {
			all = false
		}
	})
	if !okEnum {
		return "undecided"
	}
	if all && paths > 0 {
		return "ok"
	}
	if depth == 0 {
		return "bad"
	}
	var uses []ssa.Instruction
	if g.Parent() != nil {
		for _, in := range core.OwnInstrs(g.Parent()) {
			if mc, ok := in.(*ssa.MakeClosure); ok && mc.Fn == ssa.Value(g) {
				uses = append(uses, in)
			}
		}
	} else if core.Transparent != nil && core.Transparent(g) {
		uses = append(uses, callSitesOf(w, g)...)
		for _, h := range w.Funcs() {
			for _, d := range core.DeepFuncs(h) {
				for _, in := range core.OwnInstrs(d) {
					if mc, ok := in.(*ssa.MakeClosure); ok {
						if wr, isF := mc.Fn.(*ssa.Function); isF && wr.Synthetic != "" && wr.Object() != nil && wr.Object() == g.Object() {
							uses = append(uses, in)
						}
					}
				}
			}
		}
	}
	if len(uses) == 0 {
		return "bad"
	}
	for _, u := range uses {
		if v := markerPathGuarded(w, u, u.Parent(), isEnabled, depth-1); v != "ok" {
			return v
		}
	}
	return "ok"
}

func outermost(f *ssa.Function) *ssa.Function {
	for f.Parent() != nil {
		f = f.Parent()
	}
	return f
}

// ---------------------------------------------------------------- R13.8 nothing is written outside a marker-led transaction on the bidirectional paths

// ruleNoBareWritesOnBisyncPaths: with bidirectional sync on, every write the
// tool makes at a site must travel in a transaction that starts with the
// marker (R13.1), otherwise the opposite link takes it for a client write and
// sends it back. On the bidirectional code paths a command may be issued
// directly on a connection (Do / Send / SendAndFlush, not through a
// transaction batcher) only if it does not write user data: a read-only
// command, or a command on the tool's own bookkeeping keys.
func ruleNoBareWritesOnBisyncPaths(w *core.World, r *core.Report) {
	readOnly := map[string]bool{"exists": true, "get": true, "hget": true, "hgetall": true, "hmget": true, "zrangebyscore": true, "zrange": true,
		"info": true, "command": true, "ping": true, "select": true, "type": true, "ttl": true, "pttl": true, "cluster": true, "scan": true, "keys": true, "dbsize": true}
	isBookkeepingKey := func(v ssa.Value) bool {
		return core.DependsOn(v, func(x ssa.Value) bool {
			if c, ok := x.(*ssa.Call); ok {
				n := core.ResolveCall(c).Name
				if strings.HasPrefix(n, "pkg/redis/checkpoint.") || strings.Contains(n, "bisyncCheckpointName") || strings.Contains(n, "CheckpointName") {
					return true
				}
			}
			if fieldNameOfLoad(x) == "CheckpointName" || fieldNameOfLoad(x) == "Key" {
				return true
			}
			if s, ok := core.ConstString(x); ok && (strings.HasPrefix(s, reservedPrefix(w)) || strings.HasPrefix(s, "redis-gunyu")) {
				return true
			}
			return false
		})
	}
	n, direct := 0, 0
	for _, f := range w.FuncsIn("syncer") {
		file := w.Pos(f.Pos())
		if !strings.Contains(file, "syncer/bisync") {
			continue
		}
		n++
		for _, s := range core.Sites(f, false) {
			if s.Instr.Parent() != f || !(s.Method == "Do" || s.Method == "Send" || s.Method == "SendAndFlush") {
				continue
			}
			recvT := ""
			if s.Common().IsInvoke() {
				recvT = core.TypeName(s.Common().Value.Type())
			} else if len(s.Common().Args) > 0 {
				recvT = core.TypeName(s.Common().Args[0].Type())
			}
			if !strings.Contains(recvT, "client.Redis") && !strings.Contains(recvT, "redis") && !strings.Contains(recvT, "Redis") {
				continue // sync.Once.Do and the like
			}
			direct++
			cmd, ok := core.CmdName(s)
			name := shortName(core.FuncName(outermost(f)))
			if !ok {
				r.Check(false, name+"/no-bare-write", s.Pos(), "a command whose name is not a constant is issued directly on a connection on a bidirectional path: it cannot be shown to leave user data alone")
				continue
			}
			if readOnly[strings.ToLower(cmd)] {
				r.OK(name+"/no-bare-write", s.Pos(), "%s", cmd)
				continue
			}
			keyOK := false
			if args, ok := core.CmdArgs(s); ok && len(args) >= 1 {
				keyOK = isBookkeepingKey(args[0])
			}
			r.Check(keyOK, name+"/no-bare-write", s.Pos(), "%s is sent to the target directly (outside a marker-led transaction) on a bidirectional path, on a key that is not one of the tool's bookkeeping keys: the opposite link takes it for a client write and sends it back to the site the data came from", strings.ToUpper(cmd))
		}
	}
	if n == 0 {
		r.Fail("bisync/no-bare-write", token.NoPos, "no function of the bidirectional paths found")
	}
	if direct == 0 {
		r.OK("bisync/no-bare-write", token.NoPos, "no direct command on the bidirectional paths")
	}
}

// ---------------------------------------------------------------- R13.9 every command on the tool's own keys is a control command

// ruleControlCommandIsNamespace: a stand-alone command (outside MULTI/EXEC) that
// touches the tool's own key namespace is bookkeeping of the opposite link and is
// skipped. isBisyncControlCommand may answer "not a control command" only when
// the namespace test itself said so: an exemption for one kind of key (for
// instance the marker, "which only ever opens a mirrored transaction") forwards
// that key whenever the master propagates it alone — a Redis 7 master unwraps a
// transaction in which only one command took effect.
func ruleControlCommandIsNamespace(w *core.World, r *core.Report) {
	f := fn(w, r, "syncer.isBisyncControlCommand")
	if f == nil {
		return
	}
	isNs := func(v ssa.Value) bool {
		c, ok := core.Unwrap(v).(*ssa.Call)
		if !ok {
			return false
		}
		n := core.ResolveCall(c).Name
		// the namespace test itself, or (when it is written out in place) the key test it is made of
		return strings.HasSuffix(n, "syncer.touchesBisyncNamespace") || strings.HasSuffix(n, "syncer.isBisyncNamespaceKey")
	}
	// the predicate was folded into its only caller: there the namespace test must decide a branch itself
	if res := f.Signature.Results(); res.Len() != 1 || !types.Identical(res.At(0).Type().Underlying(), types.Typ[types.Bool]) {
		decides := false
		for _, in := range core.Instrs(f) {
			if iff, ok := in.(*ssa.If); ok && isNs(iff.Cond) {
				decides = true
			}
		}
		r.Check(decides, "isBisyncControlCommand/namespace-decides", f.Pos(), "the control-command predicate is gone and its caller does not branch on the namespace test in its place")
		return
	}
	bad := ""
	var pos token.Pos = f.Pos()
	n := 0
	okEnum := core.EnumPathsN(f.Blocks[0], 0, 100000, 2, func(p *core.Path) {
		ret, isRet := p.End.(*ssa.Return)
		if !isRet || ret.Parent() != f || len(ret.Results) != 1 || bad != "" {
			return
		}
		n++
		val, known := p.Eval(ret.Results[0])
		if b, isC := core.ConstBool(p.Resolve(ret.Results[0])); isC {
			val, known = b, true
		}
		if known && val {
			return
		}
		// a command without arguments has no key to judge
		empty := false
		for _, fct := range p.Conds {
			c, ok := core.FactCmp(fct)
			if !ok {
				continue
			}
			c.X, c.Y = p.Resolve(c.X), p.Resolve(c.Y)
			if c.Op == token.EQL && isLenZero(c) {
				empty = true
			}
			// a scan over the arguments that left its loop at the first test: there was none to visit
			if fct.If != nil && core.LoopHeadOf(fct.If.Block()) == fct.If.Block() {
				visits := 0
				for _, in := range p.Instrs {
					if in == ssa.Instruction(fct.If) {
						visits++
					}
				}
				isLenCall := func(v ssa.Value) bool {
					call, ok := core.Unwrap(v).(*ssa.Call)
					return ok && isBuiltin(call, "len")
				}
				if visits == 1 && (c.Op == token.GEQ || c.Op == token.LEQ) && (isLenCall(c.X) || isLenCall(c.Y)) {
					empty = true
				}
			}
		}
		if !pathAssumed(p, isNs, false) && !empty {
			bad, pos = "the command is answered 'not a control command' on a path on which the namespace test did not say so: a command on the tool's own keys that reaches the stream alone is forwarded to the other site", ret.Pos()
		}
	})
	if !okEnum {
		r.Undecided("isBisyncControlCommand/namespace-decides", f.Pos(), "too many paths")
		return
	}
	r.Check(bad == "" && n > 0, "isBisyncControlCommand/namespace-decides", pos, "%s", bad)
}
