package rules

import (
	"go/token"
	"go/types"
	"strings"

	"gunyucheck/core"

	"golang.org/x/tools/go/ssa"
)

// ---------------------------------------------------------------- R12.12 every decoder that is handed out counts from zero

// ruleDecoderStartsAtZero. The parsers compute every offset as start offset of the session + the decoder's
// byte count. That is right only if the decoder obtained for a session has counted nothing yet. Every way
// of obtaining a Decoder is looked at: a fresh allocation (its counter field is never given anything but
// the constant 0 there), or an object taken from somewhere else — a type assertion to *Decoder, which is
// what a sync.Pool.Get needs — in which case either the counter is reset before the object is used or
// handed on in the obtaining function, or the object comes from a pool whose every Put is preceded by the
// reset (and whose New allocates). A recycled decoder that keeps the count of its previous stream makes
// every offset of the next session too high by that amount.
func ruleDecoderStartsAtZero(w *core.World, r *core.Report) {
	isDecoderPtr := func(t types.Type) bool {
		p, ok := t.Underlying().(*types.Pointer)
		return ok && strings.HasSuffix(core.TypeName(p.Elem()), decoderType) && !strings.Contains(core.TypeName(p.Elem()), "*")
	}
	isDecoderStruct := func(t types.Type) bool {
		_, isS := t.Underlying().(*types.Struct)
		return isS && strings.HasSuffix(core.TypeName(t), decoderType)
	}
	counterStores := func(g *ssa.Function, obj ssa.Value) []*ssa.Store {
		var out []*ssa.Store
		for _, in := range core.OwnInstrs(g) {
			st, ok := in.(*ssa.Store)
			if !ok {
				continue
			}
			if fa, ok := st.Addr.(*ssa.FieldAddr); ok && core.FieldName(fa) == "offset" && isDecoderPtr(fa.X.Type()) && sameObj(fa.X, obj) {
				out = append(out, st)
			}
		}
		return out
	}
	name := func(g *ssa.Function) string {
		root := g
		for root.Parent() != nil {
			root = root.Parent()
		}
		n := shortName(core.FuncName(root))
		if root != g {
			n += "$closure"
		}
		return n
	}
	n := 0
	for _, g := range w.Funcs() {
		for _, in := range core.OwnInstrs(g) {
			switch x := in.(type) {
			case *ssa.Alloc:
				if !isDecoderPtr(x.Type()) || !isDecoderStruct(x.Type().Underlying().(*types.Pointer).Elem()) {
					continue
				}
				n++
				bad := false
				var pos token.Pos = x.Pos()
				for _, st := range counterStores(g, x) {
					if !isConstInt(0)(st.Val) {
						bad, pos = true, st.Pos()
					}
				}
				r.Check(!bad, name(g)+"/new-decoder-counts-from-zero", pos, "a newly allocated decoder is given a byte count other than the constant 0: the offsets of its session (start offset + byte count) are wrong by that amount")
			case *ssa.TypeAssert:
				if !isDecoderPtr(x.AssertedType) {
					continue
				}
				n++
				var obj ssa.Value = x
				if x.CommaOk {
					obj = nil
					for _, ref := range *x.Referrers() {
						if e, ok := ref.(*ssa.Extract); ok && e.Index == 0 {
							obj = e
						}
					}
					if obj == nil {
						continue // only the type is tested
					}
				}
				cons := name(g) + "/recycled-decoder-counts-from-zero"
				// (a) reset in the obtaining function, before the object is used for anything else
				var reset *ssa.Store
				for _, st := range counterStores(g, obj) {
					if isConstInt(0)(st.Val) && (reset == nil || core.Dominates(st, reset)) {
						reset = st
					}
				}
				if reset != nil {
					esc := ""
					for _, in2 := range core.OwnInstrs(g) {
						uses := false
						switch y := in2.(type) {
						case ssa.CallInstruction:
							for _, a := range y.Common().Args {
								uses = uses || sameObj(a, obj)
							}
						case *ssa.Return:
							for _, a := range y.Results {
								uses = uses || sameObj(a, obj)
							}
						case *ssa.Store:
							uses = sameObj(y.Val, obj)
						}
						if uses && !core.Dominates(reset, in2) {
							esc = in2.String()
						}
					}
					if esc == "" {
						r.OK(cons, x.Pos(), "reset before use")
						continue
					}
				}
				// (b) a pool that only ever receives reset decoders
				get, _ := core.Unwrap(x.X).(*ssa.Call)
				if get == nil || core.ResolveCall(get).Name != "(*sync.Pool).Get" || len(get.Call.Args) != 1 {
					if reset != nil {
						r.Fail(cons, x.Pos(), "a decoder taken over from elsewhere is used or handed on before its byte count is reset to 0")
					} else {
						r.Undecided(cons, x.Pos(), "a *Decoder is obtained by a type assertion from a value that is not the result of sync.Pool.Get, and its byte count is not reset to 0 here: whether it has counted bytes of an earlier stream cannot be decided (accepted: a fresh allocation; a reset `offset = 0` that dominates every use; a pool whose every Put follows a reset)")
					}
					continue
				}
				pool, isG := get.Call.Args[0].(*ssa.Global)
				if !isG {
					r.Undecided(cons, x.Pos(), "the pool a decoder is taken from is not a package-level variable: its Put sites cannot be enumerated")
					continue
				}
				puts, dirty := 0, ""
				var pos token.Pos = x.Pos()
				for _, h := range w.Funcs() {
					for _, in2 := range core.OwnInstrs(h) {
						ci, ok := in2.(ssa.CallInstruction)
						if !ok || core.ResolveCall(ci).Name != "(*sync.Pool).Put" || len(ci.Common().Args) != 2 || ci.Common().Args[0] != ssa.Value(pool) {
							continue
						}
						puts++
						put := core.Unwrap(ci.Common().Args[1])
						okReset := false
						for _, st := range counterStores(h, put) {
							if isConstInt(0)(st.Val) && core.Dominates(st, in2) {
								okReset = true
							}
						}
						if !okReset {
							dirty, pos = name(h), in2.Pos()
						}
					}
				}
				r.Check(dirty == "" && puts > 0, cons, pos, "decoders are recycled through a pool, and neither is the byte count reset to 0 where a decoder is taken out (%s), nor where it is put back (%s; Put sites: %d): a recycled decoder keeps the count of its previous stream session, and every offset of the next session (start offset + byte count) is too high by that amount", name(g), dirty, puts)
			}
		}
	}
	if n == 0 {
		r.Fail("decoder-sources", token.NoPos, "no place that allocates or obtains a Decoder was found")
	}
}

// sameObj: a and b name the same pointer value (conversions and single-assignment variables looked through).
func sameObj(a, b ssa.Value) bool {
	a, b = core.Unwrap(a), core.Unwrap(b)
	if a == b {
		return true
	}
	if oa, ob := objOf(a), objOf(b); oa != nil && oa == ob {
		return true
	}
	res := func(v ssa.Value) ssa.Value {
		ld, ok := v.(*ssa.UnOp)
		if !ok || ld.Op != token.MUL {
			return v
		}
		if cell := core.Cell(ld.X); cell != nil {
			if sts := core.CellStores(cell); len(sts) == 1 {
				return core.Unwrap(sts[0].Val)
			}
		}
		return v
	}
	return res(a) == res(b)
}
