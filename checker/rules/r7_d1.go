package rules

import (
	"fmt"
	"go/constant"
	"go/token"
	"go/types"
	"os"
	"sort"
	"strings"

	"gunyucheck/core"

	"golang.org/x/tools/go/ssa"
)

// ---------------------------------------------------------------- R07.10 "this database holds the run id" is said of the connection's database

// ruleKnownDbIsConnectionDb is the sibling of R07.7. R07.7 accepts an offset that
// is queued without the run-id fields when the path looked the database up in
// the set of databases that already received them. That knowledge is only worth
// something if the label the set is keyed with is the database the connection is
// in. The batch sender takes the label from the last queued item; the items the
// parser sends carry the database the parser has switched the target to (R01.6),
// but the sender also queues items of its own making (the keep-alive), which
// carry whatever constant the literal gives them - the zero value, database 0,
// when it gives none. Whenever the label read can be such a constant the set is
// asked about (and filled for) a database the connection is not in: an offset
// lands in a database without the run-id fields and wins GetCheckpoint with an
// undefined run id after the restart (W33).
//
// Condition: on every path of the batch sender that omits the run-id fields on
// the strength of the set, the label is the database label of a queued item,
// and for every constant label a synthesised item can carry the path has passed
// a comparison of that same label which the constant fails.
func ruleKnownDbIsConnectionDb(w *core.World, r *core.Report, c *senderCtx) {
	const cons = "sendCmdsBatch/known-db-is-connection-db"
	// (1) the labels of the items the sender makes itself
	var synth []int64
	synthAt := map[int64]token.Pos{}
	unreadable := ""
	dbIdx := -1
	for _, g := range core.DeepFuncs(c.main) {
		if g != c.main && !c.isLoopHelper(g) {
			continue
		}
		for _, in := range core.OwnInstrs(g) {
			el, ok := c.appendedElems(in)
			if !ok {
				continue
			}
			for _, e := range el {
				if c.isItemVal(e) {
					continue
				}
				if g != c.main && isParamOrSpill(e, g) {
					continue // the helper appends its argument: read at the helper's call
				}
				st, isSt := core.Unwrap(e).Type().Underlying().(*types.Struct)
				if !isSt {
					unreadable = "an appended value that is not a command record"
					continue
				}
				if dbIdx < 0 {
					for i := 0; i < st.NumFields(); i++ {
						if st.Field(i).Name() == "Db" {
							dbIdx = i
						}
					}
				}
				if dbIdx < 0 {
					unreadable = "the command record has no database label"
					continue
				}
				v := structFieldAt(e, dbIdx)
				if v == nil {
					unreadable = "a synthesised item whose database label is assigned more than once or outside its literal"
					continue
				}
				if k, isK := core.ConstInt(core.Unwrap(v)); isK {
					if _, dup := synthAt[k]; !dup {
						synth = append(synth, k)
						synthAt[k] = in.Pos()
					}
					continue
				}
				// a label copied from a received item is a database of the stream
				if fieldOf("Db", c.isItemVal)(core.Unwrap(v)) {
					continue
				}
				unreadable = "a synthesised item whose database label is neither a constant nor a received item's label"
			}
		}
	}
	sort.Slice(synth, func(i, j int) bool { return synth[i] < synth[j] })

	// (2) the paths of the batch sender that rely on the set
	isLast := func(ia *ssa.IndexAddr) bool {
		sub, ok := core.Unwrap(ia.Index).(*ssa.BinOp)
		if !ok || sub.Op != token.SUB {
			return false
		}
		if one, isK := core.ConstInt(sub.Y); !isK || one != 1 {
			return false
		}
		ln, ok := core.Unwrap(sub.X).(*ssa.Call)
		if !ok || len(ln.Call.Args) != 1 {
			return false
		}
		if b, isB := ln.Call.Value.(*ssa.Builtin); !isB || b.Name() != "len" {
			return false
		}
		ld, ok := core.Unwrap(ln.Call.Args[0]).(*ssa.UnOp)
		return ok && ld.Op == token.MUL && core.Cell(ld.X) == c.queue
	}
	sameElem := func(a, b *ssa.IndexAddr) bool {
		return a == b || a.Index == b.Index || (isLast(a) && isLast(b))
	}
	bad := ""
	var badPos token.Pos
	relied := 0
	okEnum := core.EnumPaths(c.once.Blocks[0], 0, 200000, func(p *core.Path) {
		if bad != "" {
			return
		}
		// only a path that queues the offset without the run-id fields relies on the set
		relies := false
		sites := pathSites(p)
		for i, s := range sites {
			if !putsCheckpointField(s, "OffsetKey") {
				continue
			}
			withId := false
			for _, q := range sites[:i] {
				if putsCheckpointField(q, "RunIdKey") {
					withId = true
				}
			}
			if !withId {
				relies = true
			}
		}
		if !relies {
			return
		}
		for _, fct := range p.Conds {
			e, ok := core.Unwrap(fct.Cond).(*ssa.Extract)
			if !ok || e.Index != 1 || !fct.Val {
				continue
			}
			lk, ok := e.Tuple.(*ssa.Lookup)
			if !ok || !lk.CommaOk {
				continue
			}
			if _, isMap := lk.X.Type().Underlying().(*types.Map); !isMap {
				continue
			}
			relied++
			key := p.Resolve(lk.Index)
			ia := queueElemOnPath(c, p, key, "Db")
			if ia == nil {
				// a database the sender tracks itself: every origin must be a received item's label
				okAll, n := true, 0
				for _, l := range core.Leaves(key) {
					n++
					if !fieldOf("Db", c.isItemVal)(l) {
						okAll = false
					}
				}
				if !okAll || n == 0 {
					bad, badPos = "UNDECIDED: the set of databases that hold the run-id fields is asked about a label that is neither a queued item's database label nor derived from received items only", lk.Pos()
				}
				continue
			}
			if unreadable != "" {
				bad, badPos = "UNDECIDED: the sender queues "+unreadable+"; which labels the last queued item can carry cannot be told", lk.Pos()
				continue
			}
			for _, k := range synth {
				excluded := false
				for _, g := range p.Conds {
					cm, isCmp := core.FactCmp(g)
					if !isCmp {
						continue
					}
					x, y, op := p.Resolve(cm.X), p.Resolve(cm.Y), cm.Op
					kc, isK := core.ConstInt(core.Unwrap(y))
					if !isK {
						if kc, isK = core.ConstInt(core.Unwrap(x)); !isK {
							continue
						}
						x = y
						op = map[token.Token]token.Token{token.EQL: token.EQL, token.NEQ: token.NEQ, token.LSS: token.GTR, token.GTR: token.LSS, token.LEQ: token.GEQ, token.GEQ: token.LEQ}[op]
					}
					ia2 := queueElemOnPath(c, p, x, "Db")
					if ia2 == nil || !sameElem(ia, ia2) {
						continue
					}
					if !constant.Compare(constant.MakeInt64(k), op, constant.MakeInt64(kc)) {
						excluded = true
					}
				}
				if !excluded {
					which := fmt.Sprintf("the constant %d", k)
					if k == 0 {
						which = "0 (the literal gives none, or gives 0: a real database number)"
					}
					bad, badPos = fmt.Sprintf("the offset is queued without the run-id fields because 'the database of the last queued item already holds them', but the last queued item can be one the sender made itself (%s), whose database label is %s whatever database the connection is in, and no comparison on this path excludes that label: after a keep-alive the set is filled for, and later asked about, a database the connection is not in; the offset then lands in a database without this run's id fields and a restart reads 'offset N of run ?' there", w.Pos(synthAt[k]), which), lk.Pos()
					break
				}
			}
		}
	})
	if !okEnum {
		r.Undecided(cons, c.once.Pos(), "too many paths through the batch sender")
		return
	}
	if strings.HasPrefix(bad, "UNDECIDED: ") {
		r.Undecided(cons, badPos, "%s", strings.TrimPrefix(bad, "UNDECIDED: "))
		return
	}
	if relied == 0 {
		r.OK(cons, c.once.Pos(), "no path of the batch sender omits the run-id fields on the strength of a set of databases")
		return
	}
	r.Check(bad == "", cons, badPos, "%s", bad)
}

// queueElemOnPath is senderCtx.queueElem, also through the parameter of a helper the path stepped into: `field`
// of a by-value record parameter is that field of the queue element the path handed over.
func queueElemOnPath(c *senderCtx, p *core.Path, v ssa.Value, field string) *ssa.IndexAddr {
	if ia := c.queueElem(v, field); ia != nil {
		return ia
	}
	var base ssa.Value
	switch x := core.Unwrap(v).(type) {
	case *ssa.Field:
		if core.FieldName(x) != field {
			return nil
		}
		base = x.X
	case *ssa.UnOp:
		fa, ok := x.X.(*ssa.FieldAddr)
		if x.Op != token.MUL || !ok || core.FieldName(fa) != field {
			return nil
		}
		base = fa.X
	default:
		return nil
	}
	if a, isA := base.(*ssa.Alloc); isA { // the parameter's spill
		sts := core.CellStores(a)
		if len(sts) != 1 {
			return nil
		}
		base = sts[0].Val
	}
	par, isPar := base.(*ssa.Parameter)
	if !isPar {
		return nil
	}
	arg := p.Resolve(par)
	if arg == ssa.Value(par) {
		return nil
	}
	for i := 0; i < 4; i++ {
		switch b := arg.(type) {
		case *ssa.UnOp:
			if b.Op != token.MUL {
				return nil
			}
			arg = b.X
		case *ssa.IndexAddr:
			if ld, ok := b.X.(*ssa.UnOp); ok && ld.Op == token.MUL && core.Cell(ld.X) == c.queue {
				return b
			}
			return nil
		case *ssa.Alloc:
			sts := core.CellStores(b)
			if len(sts) != 1 {
				return nil
			}
			arg = sts[0].Val
		default:
			return nil
		}
	}
	return nil
}

// putsCheckpointField: s is Put("hset", ..., <checkpoint>.<method>(), ...), method = OffsetKey / RunIdKey.
func putsCheckpointField(s core.Site, method string) bool {
	if s.Method != "Put" {
		return false
	}
	if name, ok := core.CmdName(s); !ok || name != "hset" {
		return false
	}
	args, ok := core.CmdArgs(s)
	if !ok {
		return false
	}
	for _, a := range args {
		if call, isCall := core.Unwrap(a).(*ssa.Call); isCall && strings.HasSuffix(core.ResolveCall(call).Name, "CheckpointInfo)."+method) {
			return true
		}
	}
	return false
}

// isParamOrSpill: v is a parameter of g, or a load of the cell the parameter was spilled to.
func isParamOrSpill(v ssa.Value, g *ssa.Function) bool {
	v = core.Unwrap(v)
	if u, isLd := v.(*ssa.UnOp); isLd && u.Op == token.MUL {
		if cell := core.Cell(u.X); cell != nil {
			sts := core.CellStores(cell)
			if len(sts) != 1 {
				return false
			}
			v = core.Unwrap(sts[0].Val)
		}
	}
	for _, par := range g.Params {
		if ssa.Value(par) == v {
			return true
		}
	}
	return false
}

// ---------------------------------------------------------------- R01.11 the database filter never removes a transaction bracket

// cmdNameKnown reads what a path knows about the command name of the decoded
// stream command (result 0 of ParseArgs): isOther - the path established that the
// name equals a constant outside names; excl[n] - the path established that the
// name differs from n. Comparisons with == / != / switch and strings.EqualFold
// against a constant are read.
func cmdNameKnown(p *core.Path, isCmd func(ssa.Value) bool, names ...string) (isOther bool, isOne bool, excl map[string]bool) {
	excl = map[string]bool{}
	in := func(s string) bool {
		for _, n := range names {
			if strings.EqualFold(n, s) {
				return true
			}
		}
		return false
	}
	note := func(s string, equal bool) {
		switch {
		case equal && in(s):
			isOne = true
		case equal:
			isOther = true
		case in(s):
			excl[strings.ToLower(s)] = true
		}
	}
	for _, f := range p.Conds {
		if cm, ok := core.FactCmp(f); ok && (cm.Op == token.EQL || cm.Op == token.NEQ) {
			x, y := p.Resolve(cm.X), p.Resolve(cm.Y)
			if s, isS := core.ConstString(core.Unwrap(y)); isS && isCmd(x) {
				note(s, cm.Op == token.EQL)
			} else if s, isS := core.ConstString(core.Unwrap(x)); isS && isCmd(y) {
				note(s, cm.Op == token.EQL)
			}
			continue
		}
		// the tested value as the path resolves it, negations pushed into the outcome: a name test may have been
		// computed earlier and travelled as a boolean (a parameter of a helper, a field of a verdict record) to the
		// place where it is branched on (`drop = bypass && !isBracket`)
		tv, val := p.Resolve(f.Cond), f.Val
		for depth := 0; depth < 6; depth++ {
			u, isNot := tv.(*ssa.UnOp)
			if !isNot || u.Op != token.NOT {
				break
			}
			tv, val = p.Resolve(u.X), !val
		}
		if bo, isB := tv.(*ssa.BinOp); isB && (bo.Op == token.EQL || bo.Op == token.NEQ) {
			x, y := p.Resolve(bo.X), p.Resolve(bo.Y)
			equal := (bo.Op == token.EQL) == val
			if s, isS := core.ConstString(core.Unwrap(y)); isS && isCmd(x) {
				note(s, equal)
			} else if s, isS := core.ConstString(core.Unwrap(x)); isS && isCmd(y) {
				note(s, equal)
			}
			continue
		}
		call, ok := core.Unwrap(tv).(*ssa.Call)
		if !ok || core.ResolveCall(call).Name != "strings.EqualFold" || len(call.Call.Args) != 2 {
			continue
		}
		a, b := p.Resolve(call.Call.Args[0]), p.Resolve(call.Call.Args[1])
		if s, isS := core.ConstString(core.Unwrap(b)); isS && isCmd(a) {
			note(s, val)
		} else if s, isS := core.ConstString(core.Unwrap(a)); isS && isCmd(b) {
			note(s, val)
		}
	}
	return
}

// ruleBypassKeepsBrackets: MULTI and EXEC name no database. The parser's
// database filter is a flag that is recomputed at every SELECT of the stream
// and, while set, removes what follows; a transaction (or script) of the source
// may SELECT inside its MULTI ... EXEC block. If the flag removes brackets, a
// block that enters or leaves a filtered database reaches the sender with one
// bracket only, and the sender's transaction state machine - which leaves the
// "in transaction" state at an EXEC and nowhere else - stays in it: in plain
// mode the next MULTI of the source is sent to the target as a command and its
// EXEC is swallowed, so the target connection stays inside an open MULTI and
// every later write is only QUEUED; in transactional mode the next batch
// carries a nested MULTI and the replay aborts (W40).
//
// Condition: on every path of one iteration of the parser loop that drops the
// decoded command while the database-filter flag is set and no other documented
// reason for a removal holds, the path has established that the command is
// neither MULTI nor EXEC.
func ruleBypassKeepsBrackets(w *core.World, r *core.Report) {
	const name = "(*syncer.RedisOutput).parseAofCommand"
	const cons = "parseAofCommand/db-filter-keeps-brackets"
	f := fn(w, r, name)
	if f == nil {
		return
	}
	sb := chanParam(f)
	var dec ssa.Instruction
	for _, s := range core.SitesNamed(f, false, "pkg/redis/client.MustDecodeOpt") {
		dec = s.Instr
	}
	if dec == nil {
		r.Unresolved(cons, "decode call not found")
		return
	}
	head := core.LoopHeadOf(dec.Block())
	if head == nil || sb == nil {
		r.Unresolved(cons, "decode loop or command channel not found")
		return
	}
	isCmd := isResultOf("pkg/redis/client.ParseArgs", 0)
	bad := ""
	var badPos token.Pos
	byFlag := 0
	okEnum := core.EnumPaths(head, 0, 200000, func(p *core.Path) {
		if !p.Closed || bad != "" {
			return
		}
		decoded := false
		for _, in := range p.Instrs {
			if in == dec {
				decoded = true
			}
		}
		if !decoded {
			return
		}
		for _, in := range p.Instrs {
			switch x := in.(type) {
			case *ssa.Send:
				if isParam(sb)(x.Chan) || isParam(sb)(p.Resolve(x.Chan)) {
					return
				}
			case *ssa.Select:
				for k, st := range x.States {
					if st.Dir == types.SendOnly && (isParam(sb)(st.Chan) || isParam(sb)(p.Resolve(st.Chan))) {
						kk := int64(k)
						if p.Holds(token.EQL, func(v ssa.Value) bool {
							e, ok := v.(*ssa.Extract)
							return ok && e.Index == 0 && e.Tuple == ssa.Value(x)
						}, isConstInt(kk)) {
							return
						}
					}
				}
			}
		}
		// a dropping path: is the database-filter flag set on it, and is it the only reason?
		var flagPos token.Pos
		flagSet, other := false, false
		for _, fct := range p.Conds {
			cv := core.Unwrap(p.Resolve(fct.Cond))
			if !fct.Val {
				if isResultOf("(*syncer.RedisOutput).selectDB", 1)(cv) {
					other = true
				}
				continue
			}
			if call, ok := cv.(*ssa.Call); ok {
				n := core.ResolveCall(call).Name
				if core.MatchName(n, "*RedisKeyFilter).FilterCmd") {
					other = true
				}
				if n == "strings.EqualFold" {
					for _, a := range call.Call.Args {
						if s, ok := core.ConstString(a); ok && s == "__sentinel__:hello" {
							other = true
						}
					}
				}
			}
			if isResultOf("*RedisKeyFilter).FilterCmdKey", 1)(cv) {
				other = true
			}
			if fromDb, calls := flagOnlyFromFilterDb(w, cv); fromDb && calls > 0 {
				flagSet = true
				if fct.If != nil {
					flagPos = fct.If.Pos()
				}
				if flagPos == token.NoPos {
					flagPos = fct.Cond.Pos()
				}
			}
		}
		if !flagSet || other {
			return
		}
		byFlag++
		isOther, _, excl := cmdNameKnown(p, isCmd, "multi", "exec")
		if isOther || (excl["multi"] && excl["exec"]) {
			return
		}
		var open []string
		for _, n := range []string{"multi", "exec"} {
			if !excl[n] {
				open = append(open, strings.ToUpper(n))
			}
		}
		if flagPos == token.NoPos {
			flagPos = lastDecisionPos(p)
		}
		if os.Getenv("GC_DEBUG") == "R01.11" {
			for _, fct := range p.Conds {
				fmt.Fprintf(os.Stderr, "  fact %v = %v | res=%v | resolved=%v\n", fct.Cond, fct.Val, fct.Res, p.Resolve(fct.Cond))
			}
		}
		bad, badPos = fmt.Sprintf("a decoded command is dropped because the database-filter flag (set by the last SELECT of the stream) is set, on a loop path that has not ruled out that the command is %s: the brackets name no database, and a source transaction that SELECTs a filtered database between its MULTI and its EXEC (or leaves one) reaches the sender with one bracket only; the sender's transaction state can only be left at an EXEC, so the target connection stays inside an open MULTI and every later write is merely QUEUED (plain mode), or the next batch nests a MULTI and the replay aborts (transactional mode)", strings.Join(open, " or ")), flagPos
	})
	if !okEnum {
		r.Undecided(cons, head.Instrs[0].Pos(), "too many paths through the parser loop")
		return
	}
	if byFlag == 0 {
		r.Fail(cons, head.Instrs[0].Pos(), "no loop path of the parser drops a command on the strength of the database-filter flag alone: the flag was not recognised (a boolean carried round the loop whose only sources are FilterDb results and the constant false)")
		return
	}
	r.Check(bad == "", cons, badPos, "%s", bad)
}

// ---------------------------------------------------------------- R19.21 on a cluster the checkpoint never shares a batch with the commands it covers

// evalHyp evaluates a boolean along a path like Path.Eval and, where the path
// knows nothing, under a hypothesis about some leaf values.
func evalHyp(p *core.Path, v ssa.Value, hyp func(ssa.Value) (bool, bool), depth int) (bool, bool) {
	v = p.Resolve(v)
	if b, ok := core.ConstBool(v); ok {
		return b, true
	}
	if b, ok := p.Eval(v); ok {
		return b, true
	}
	if b, ok := hyp(core.Unwrap(v)); ok {
		return b, true
	}
	if depth > 6 {
		return false, false
	}
	switch x := v.(type) {
	case *ssa.UnOp:
		if x.Op == token.NOT {
			if b, ok := evalHyp(p, x.X, hyp, depth+1); ok {
				return !b, true
			}
		}
	case *ssa.Phi:
		have, val := false, false
		for _, e := range x.Edges {
			b, ok := evalHyp(p, e, hyp, depth+1)
			if !ok || (have && b != val) {
				return false, false
			}
			have, val = true, b
		}
		return val, have
	}
	return false, false
}

// ruleCheckpointAloneOnCluster: the batch sender puts the queued commands and
// the checkpoint (`hset <cp> <runid>_offset N`) on one batcher and sends both
// with one Exec. That is a transaction only where the batcher really wraps the
// batch in MULTI/EXEC. A cluster batcher drops both brackets (a node refuses an
// EXEC whose commands span slots), so there the batch is a plain pipeline: when
// a node refuses one command (MOVED, ASK, OOM ...) it still executes everything
// behind it in its input buffer, the checkpoint included. The sender reports
// the restart, but the restarted replay reads a position behind the refused
// command, which no node executes in any run (W39).
//
// Condition, for the synchronous sender (the pipelined mode dispatches later
// batches before earlier replies are read and is outside this rule): every
// attempt of the retry wrapper that may carry the checkpoint has ruled out a
// cluster target, or directly follows an attempt without checkpoint that
// succeeded - and a successful attempt leaves the queue empty, so that the
// checkpoint travels alone, after every command it covers was acknowledged.
func ruleCheckpointAloneOnCluster(w *core.World, r *core.Report) {
	c := newSenderCtx(w, r)
	if c == nil {
		return
	}
	const consA = "sendFunc/checkpoint-alone-on-cluster"
	const consB = "sendFuncOnce/success-empties-queue"
	isKeyCall := func(v ssa.Value, method string) bool {
		call, ok := core.Unwrap(v).(*ssa.Call)
		return ok && strings.HasSuffix(core.ResolveCall(call).Name, "CheckpointInfo)."+method)
	}
	isClusterVal := func(v ssa.Value) bool {
		call, ok := core.Unwrap(v).(*ssa.Call)
		if !ok {
			return false
		}
		n := core.ResolveCall(call).Name
		return strings.HasSuffix(n, ".IsCluster") || strings.HasSuffix(n, ").IsCluster")
	}
	// the pipeline-mode flag: what the batchers are created with
	var pipeCell *ssa.Alloc
	var pipeVal ssa.Value
	for _, s := range core.SitesNamed(c.once, false, "*Redis.NewBatcher") {
		if a := s.Args(); len(a) == 1 {
			v := core.Unwrap(a[0])
			pipeVal = v
			if ld, ok := v.(*ssa.UnOp); ok && ld.Op == token.MUL {
				pipeCell = core.Cell(ld.X)
			}
		}
	}
	isPipeVal := func(v ssa.Value) bool {
		v = core.Unwrap(v)
		if pipeVal != nil && v == pipeVal {
			return true
		}
		if ld, ok := v.(*ssa.UnOp); ok && ld.Op == token.MUL && pipeCell != nil && core.Cell(ld.X) == pipeCell {
			return true
		}
		// the cell of a captured parameter is assigned once: a path reads it as the parameter
		if pipeCell != nil {
			if sts := core.CellStores(pipeCell); len(sts) == 1 && core.Unwrap(sts[0].Val) == v {
				return true
			}
		}
		return false
	}

	// (A1) can one batch of the batch sender carry queued commands and the checkpoint?
	var offPuts, dataPuts, runs []core.Site
	for _, s := range core.Sites(c.once, false) {
		switch {
		case strings.HasSuffix(s.Name, "CmdBatcher.Exec") || strings.HasSuffix(s.Name, "CmdBatcher.Dispatch"):
			runs = append(runs, s)
		case s.Method == "Put":
			name, isConst := core.CmdName(s)
			if !isConst {
				dataPuts = append(dataPuts, s)
				continue
			}
			if name != "hset" {
				continue
			}
			if args, ok := core.CmdArgs(s); ok {
				for _, a := range args {
					if isKeyCall(a, "OffsetKey") {
						offPuts = append(offPuts, s)
					}
				}
			}
		}
	}
	if len(offPuts) == 0 || len(dataPuts) == 0 {
		r.Unresolved(consA, "the batch sender's Put of the queued commands or of the checkpoint offset was not found")
		return
	}
	isQueueLen := func(v ssa.Value) bool {
		ln, ok := core.Unwrap(v).(*ssa.Call)
		if !ok || len(ln.Call.Args) != 1 {
			return false
		}
		if b, isB := ln.Call.Value.(*ssa.Builtin); !isB || b.Name() != "len" {
			return false
		}
		ld, ok := core.Unwrap(ln.Call.Args[0]).(*ssa.UnOp)
		return ok && ld.Op == token.MUL && core.Cell(ld.X) == c.queue
	}
	mixes := false
	for _, o := range offPuts {
		for _, d := range dataPuts {
			ro, rd := core.Unwrap(o.Recv()), core.Unwrap(d.Recv())
			if ro != rd {
				// two batchers: the one with the commands must have succeeded before the other is made
				var dr []ssa.Value
				for _, s := range runs {
					if core.Unwrap(s.Recv()) == rd {
						dr = append(dr, s.Value())
					}
				}
				mk, isCall := ro.(*ssa.Call)
				if !isCall || !afterSuccessfulRun(mk.Block(), dr) {
					r.Undecided(consA, o.Pos(), "the checkpoint offset and the queued commands are put on different batcher values, and the batcher of the checkpoint is not created after the successful Exec of the other one: which of them is sent first, and whether the second waits for the first, cannot be told")
					return
				}
				continue
			}
			guarded := false
			for _, f := range core.FactsAt(o.Instr.Block()) {
				if !f.Val && isClusterVal(f.Cond) {
					guarded = true
				}
				if cm, ok := core.AsCmp(f.Cond, f.Val); ok && isQueueLen(cm.X) {
					if k, isK := core.ConstInt(cm.Y); isK && ((cm.Op == token.EQL && k == 0) || (cm.Op == token.LEQ && k == 0) || (cm.Op == token.LSS && k == 1)) {
						guarded = true
					}
				}
			}
			if !guarded {
				mixes = true
			}
		}
	}

	// (B) a successful attempt leaves the queue empty
	badB := ""
	var badBPos token.Pos
	nB := 0
	okEnumB := core.EnumPaths(c.once.Blocks[0], 0, 200000, func(p *core.Path) {
		ret, ok := p.End.(*ssa.Return)
		if !ok || badB != "" || len(ret.Results) == 0 {
			return
		}
		if !core.IsNilConst(p.Resolve(ret.Results[len(ret.Results)-1])) {
			return
		}
		nB++
		for _, in := range p.Instrs {
			if st, isSt := in.(*ssa.Store); isSt && core.Cell(st.Addr) == c.queue {
				return // the forms a reset may have are R01.2's
			}
		}
		isBatchLen := func(v ssa.Value) bool {
			call, ok := core.Unwrap(v).(*ssa.Call)
			return ok && strings.HasSuffix(core.ResolveCall(call).Name, "CmdBatcher.Len")
		}
		empty := func(v ssa.Value) bool { return isQueueLen(v) || isBatchLen(v) }
		if p.Holds(token.EQL, empty, isConstInt(0)) || p.Holds(token.LEQ, empty, isConstInt(0)) || p.Holds(token.LSS, empty, isConstInt(1)) {
			return
		}
		badB, badBPos = "the batch sender returns nil on a path that neither resets the queue nor has found the queue (or the batch) empty", ret.Pos()
	})
	if !okEnumB {
		r.Undecided(consB, c.once.Pos(), "too many paths through the batch sender")
	} else {
		r.Check(badB == "" && nB > 0, consB, badBPos, "%s: the retry wrapper relies on 'the attempt succeeded, so nothing is queued any more' when it sends the checkpoint in a batch of its own (nil-returning paths=%d)", badB, nB)
	}

	if !mixes {
		r.OK(consA, c.once.Pos(), "no batch of the batch sender can carry both queued commands and the checkpoint unless a cluster target is ruled out")
		return
	}

	// (A2) every attempt that may carry the checkpoint
	for _, g := range core.DeepFuncs(c.main) {
		if g == c.send {
			continue
		}
		for _, s := range core.Sites(g, false) {
			if s.Callee == c.once && s.Instr.Parent() == g {
				r.Undecided(consA, s.Pos(), "the batch sender is called from outside the retry wrapper")
				return
			}
		}
	}
	hyp := func(v ssa.Value) (bool, bool) {
		if isClusterVal(v) {
			return true, true
		}
		if isPipeVal(v) {
			return false, true
		}
		return false, false
	}
	bad := ""
	var badPos token.Pos = c.send.Pos()
	attemptsSeen, alone := 0, 0
	okEnum := core.EnumPathsN(c.send.Blocks[0], 0, 200000, 3, func(p *core.Path) {
		if bad != "" {
			return
		}
		var attempts []*ssa.Call
		for _, in := range p.Instrs {
			if ci, ok := in.(*ssa.Call); ok && core.ResolveCall(ci).Callee == c.once {
				attempts = append(attempts, ci)
			}
		}
		// the path as a whole has ruled the hypothesis out?
		ruledOut := false
		for _, f := range p.Conds {
			cv := p.Resolve(f.Cond)
			if !f.Val && isClusterVal(cv) {
				ruledOut = true
			}
			if f.Val && isPipeVal(cv) {
				ruledOut = true
			}
			// a flag the path resolved to one of the two (`x := a && cluster()` branched on as x)
			if f.Res != nil {
				if !f.Val && isClusterVal(f.Res) {
					ruledOut = true
				}
				if f.Val && isPipeVal(f.Res) {
					ruledOut = true
				}
			}
		}
		if ruledOut {
			return
		}
		dataOnly := make([]bool, len(attempts))
		for k, at := range attempts {
			attemptsSeen++
			args, ok := c.flushArgsAt(core.ResolveCall(at))
			if !ok {
				bad, badPos = "UNDECIDED: the arguments of an attempt could not be read", at.Pos()
				return
			}
			if b, known := evalHyp(p, args[1], hyp, 0); known && !b {
				dataOnly[k] = true
				continue
			}
			okPrev := false
			if k > 0 && dataOnly[k-1] {
				for _, f := range factsBetween(p, attempts[k-1], at) {
					cm, isCmp := core.FactCmp(f)
					if !isCmp || cm.Op != token.EQL {
						continue
					}
					x, y := p.Resolve(cm.X), p.Resolve(cm.Y)
					if core.IsNilConst(x) {
						x, y = y, x
					}
					if core.IsNilConst(y) && core.Unwrap(x) == ssa.Value(attempts[k-1]) {
						okPrev = true
					}
				}
			}
			if okPrev {
				alone++
				continue
			}
			if os.Getenv("GC_DEBUG") == "R19.21" {
				fmt.Fprintf(os.Stderr, "DEBUG attempt %d/%d arg=%v resolved=%v pipeCell=%v\n", k, len(attempts), args[1], p.Resolve(args[1]), pipeCell)
				for _, f := range p.Conds {
					fmt.Fprintf(os.Stderr, "DEBUG   %v := %v -> %v (res %v)\n", f.Val, f.Cond, p.Resolve(f.Cond), f.Res)
				}
			}
			bad, badPos = "an attempt of the retry wrapper may carry the checkpoint together with the queued commands on a path that has not ruled out a cluster target (synchronous mode) and does not directly follow a successful attempt without checkpoint: a cluster batcher sends neither MULTI nor EXEC, so the batch is a plain pipeline, and a node that refuses one command (MOVED, ASK, OOM ...) still executes the commands behind it, `hset <checkpoint> <runid>_offset N` included; the restart that is reported then resumes behind the refused command, which no node executes in any run", at.Pos()
			return
		}
	})
	if !okEnum {
		r.Undecided(consA, c.send.Pos(), "too many paths through the retry wrapper")
		return
	}
	if strings.HasPrefix(bad, "UNDECIDED: ") {
		r.Undecided(consA, badPos, "%s", strings.TrimPrefix(bad, "UNDECIDED: "))
		return
	}
	r.Check(bad == "" && attemptsSeen > 0, consA, badPos, "%s (attempts on enumerated cluster paths=%d, of them checkpoint batches of their own=%d)", bad, attemptsSeen, alone)
}
