package rules

import (
	"fmt"
	"go/constant"
	"go/token"
	"go/types"
	"sort"
	"strings"

	"gunyucheck/core"

	"golang.org/x/tools/go/ssa"
)

// ---------------------------------------------------------------- R07.9 "this database holds the run id" is said of the connection's database

// ruleKnownDbIsConnectionDb is the sibling of R07.7. R07.7 accepts an offset that
// is queued without the run-id fields when the path looked the database up in
// the set of databases that already received them. That knowledge is only worth
// something if the label the set is keyed with is the database the connection is
// in. The batch sender takes the label from the last queued item; the items the
// parser sends carry the database the parser has switched the target to (R01.6),
// but the sender also queues items of its own making (the keep-alive), which
// carry whatever constant the literal gives them - the zero value, database 0,
// when it gives none. Whenever the label read can be such a constant the set is
// asked about (and filled for) a database the connection is not in: an offset
// lands in a database without the run-id fields and wins GetCheckpoint with an
// undefined run id after the restart (W33).
//
// Condition: on every path of the batch sender that omits the run-id fields on
// the strength of the set, the label is the database label of a queued item,
// and for every constant label a synthesised item can carry the path has passed
// a comparison of that same label which the constant fails.
func ruleKnownDbIsConnectionDb(w *core.World, r *core.Report, c *senderCtx) {
	const cons = "sendCmdsBatch/known-db-is-connection-db"
	// (1) the labels of the items the sender makes itself
	var synth []int64
	synthAt := map[int64]token.Pos{}
	unreadable := ""
	dbIdx := -1
	for _, g := range core.DeepFuncs(c.main) {
		if g != c.main && !c.isLoopHelper(g) {
			continue
		}
		for _, in := range core.OwnInstrs(g) {
			el, ok := c.appendedElems(in)
			if !ok {
				continue
			}
			for _, e := range el {
				if c.isItemVal(e) {
					continue
				}
				if g != c.main && isParamOrSpill(e, g) {
					continue // the helper appends its argument: read at the helper's call
				}
				st, isSt := core.Unwrap(e).Type().Underlying().(*types.Struct)
				if !isSt {
					unreadable = "an appended value that is not a command record"
					continue
				}
				if dbIdx < 0 {
					for i := 0; i < st.NumFields(); i++ {
						if st.Field(i).Name() == "Db" {
							dbIdx = i
						}
					}
				}
				if dbIdx < 0 {
					unreadable = "the command record has no database label"
					continue
				}
				v := structFieldAt(e, dbIdx)
				if v == nil {
					unreadable = "a synthesised item whose database label is assigned more than once or outside its literal"
					continue
				}
				if k, isK := core.ConstInt(core.Unwrap(v)); isK {
					if _, dup := synthAt[k]; !dup {
						synth = append(synth, k)
						synthAt[k] = in.Pos()
					}
					continue
				}
				// a label copied from a received item is a database of the stream
				if fieldOf("Db", c.isItemVal)(core.Unwrap(v)) {
					continue
				}
				unreadable = "a synthesised item whose database label is neither a constant nor a received item's label"
			}
		}
	}
	sort.Slice(synth, func(i, j int) bool { return synth[i] < synth[j] })

	// (2) the paths of the batch sender that rely on the set
	isLast := func(ia *ssa.IndexAddr) bool {
		sub, ok := core.Unwrap(ia.Index).(*ssa.BinOp)
		if !ok || sub.Op != token.SUB {
			return false
		}
		if one, isK := core.ConstInt(sub.Y); !isK || one != 1 {
			return false
		}
		ln, ok := core.Unwrap(sub.X).(*ssa.Call)
		if !ok || len(ln.Call.Args) != 1 {
			return false
		}
		if b, isB := ln.Call.Value.(*ssa.Builtin); !isB || b.Name() != "len" {
			return false
		}
		ld, ok := core.Unwrap(ln.Call.Args[0]).(*ssa.UnOp)
		return ok && ld.Op == token.MUL && core.Cell(ld.X) == c.queue
	}
	sameElem := func(a, b *ssa.IndexAddr) bool {
		return a == b || a.Index == b.Index || (isLast(a) && isLast(b))
	}
	bad := ""
	var badPos token.Pos
	relied := 0
	okEnum := core.EnumPaths(c.once.Blocks[0], 0, 200000, func(p *core.Path) {
		if bad != "" {
			return
		}
		// only a path that queues the offset without the run-id fields relies on the set
		relies := false
		sites := pathSites(p)
		for i, s := range sites {
			if !putsCheckpointField(s, "OffsetKey") {
				continue
			}
			withId := false
			for _, q := range sites[:i] {
				if putsCheckpointField(q, "RunIdKey") {
					withId = true
				}
			}
			if !withId {
				relies = true
			}
		}
		if !relies {
			return
		}
		for _, fct := range p.Conds {
			e, ok := core.Unwrap(fct.Cond).(*ssa.Extract)
			if !ok || e.Index != 1 || !fct.Val {
				continue
			}
			lk, ok := e.Tuple.(*ssa.Lookup)
			if !ok || !lk.CommaOk {
				continue
			}
			if _, isMap := lk.X.Type().Underlying().(*types.Map); !isMap {
				continue
			}
			relied++
			key := p.Resolve(lk.Index)
			ia := c.queueElem(key, "Db")
			if ia == nil {
				// a database the sender tracks itself: every origin must be a received item's label
				okAll, n := true, 0
				for _, l := range core.Leaves(key) {
					n++
					if !fieldOf("Db", c.isItemVal)(l) {
						okAll = false
					}
				}
				if !okAll || n == 0 {
					bad, badPos = "UNDECIDED: the set of databases that hold the run-id fields is asked about a label that is neither a queued item's database label nor derived from received items only", lk.Pos()
				}
				continue
			}
			if unreadable != "" {
				bad, badPos = "UNDECIDED: the sender queues "+unreadable+"; which labels the last queued item can carry cannot be told", lk.Pos()
				continue
			}
			for _, k := range synth {
				excluded := false
				for _, g := range p.Conds {
					cm, isCmp := core.FactCmp(g)
					if !isCmp {
						continue
					}
					x, y, op := p.Resolve(cm.X), p.Resolve(cm.Y), cm.Op
					kc, isK := core.ConstInt(core.Unwrap(y))
					if !isK {
						if kc, isK = core.ConstInt(core.Unwrap(x)); !isK {
							continue
						}
						x = y
						op = map[token.Token]token.Token{token.EQL: token.EQL, token.NEQ: token.NEQ, token.LSS: token.GTR, token.GTR: token.LSS, token.LEQ: token.GEQ, token.GEQ: token.LEQ}[op]
					}
					ia2 := c.queueElem(x, "Db")
					if ia2 == nil || !sameElem(ia, ia2) {
						continue
					}
					if !constant.Compare(constant.MakeInt64(k), op, constant.MakeInt64(kc)) {
						excluded = true
					}
				}
				if !excluded {
					which := fmt.Sprintf("the constant %d", k)
					if k == 0 {
						which = "0 (the literal gives none, or gives 0: a real database number)"
					}
					bad, badPos = fmt.Sprintf("the offset is queued without the run-id fields because 'the database of the last queued item already holds them', but the last queued item can be one the sender made itself (%s), whose database label is %s whatever database the connection is in, and no comparison on this path excludes that label: after a keep-alive the set is filled for, and later asked about, a database the connection is not in; the offset then lands in a database without this run's id fields and a restart reads 'offset N of run ?' there", w.Pos(synthAt[k]), which), lk.Pos()
					break
				}
			}
		}
	})
	if !okEnum {
		r.Undecided(cons, c.once.Pos(), "too many paths through the batch sender")
		return
	}
	if strings.HasPrefix(bad, "UNDECIDED: ") {
		r.Undecided(cons, badPos, "%s", strings.TrimPrefix(bad, "UNDECIDED: "))
		return
	}
	if relied == 0 {
		r.OK(cons, c.once.Pos(), "no path of the batch sender omits the run-id fields on the strength of a set of databases")
		return
	}
	r.Check(bad == "", cons, badPos, "%s", bad)
}

// putsCheckpointField: s is Put("hset", ..., <checkpoint>.<method>(), ...), method = OffsetKey / RunIdKey.
func putsCheckpointField(s core.Site, method string) bool {
	if s.Method != "Put" {
		return false
	}
	if name, ok := core.CmdName(s); !ok || name != "hset" {
		return false
	}
	args, ok := core.CmdArgs(s)
	if !ok {
		return false
	}
	for _, a := range args {
		if call, isCall := core.Unwrap(a).(*ssa.Call); isCall && strings.HasSuffix(core.ResolveCall(call).Name, "CheckpointInfo)."+method) {
			return true
		}
	}
	return false
}

// isParamOrSpill: v is a parameter of g, or a load of the cell the parameter was spilled to.
func isParamOrSpill(v ssa.Value, g *ssa.Function) bool {
	v = core.Unwrap(v)
	if u, isLd := v.(*ssa.UnOp); isLd && u.Op == token.MUL {
		if cell := core.Cell(u.X); cell != nil {
			sts := core.CellStores(cell)
			if len(sts) != 1 {
				return false
			}
			v = core.Unwrap(sts[0].Val)
		}
	}
	for _, par := range g.Params {
		if ssa.Value(par) == v {
			return true
		}
	}
	return false
}

// ---------------------------------------------------------------- R01.11 the database filter never removes a transaction bracket

// cmdNameKnown reads what a path knows about the command name of the decoded
// stream command (result 0 of ParseArgs): isOther - the path established that the
// name equals a constant outside names; excl[n] - the path established that the
// name differs from n. Comparisons with == / != / switch and strings.EqualFold
// against a constant are read.
func cmdNameKnown(p *core.Path, isCmd func(ssa.Value) bool, names ...string) (isOther bool, isOne bool, excl map[string]bool) {
	excl = map[string]bool{}
	in := func(s string) bool {
		for _, n := range names {
			if strings.EqualFold(n, s) {
				return true
			}
		}
		return false
	}
	note := func(s string, equal bool) {
		switch {
		case equal && in(s):
			isOne = true
		case equal:
			isOther = true
		case in(s):
			excl[strings.ToLower(s)] = true
		}
	}
	for _, f := range p.Conds {
		if cm, ok := core.FactCmp(f); ok && (cm.Op == token.EQL || cm.Op == token.NEQ) {
			x, y := p.Resolve(cm.X), p.Resolve(cm.Y)
			if s, isS := core.ConstString(core.Unwrap(y)); isS && isCmd(x) {
				note(s, cm.Op == token.EQL)
			} else if s, isS := core.ConstString(core.Unwrap(x)); isS && isCmd(y) {
				note(s, cm.Op == token.EQL)
			}
			continue
		}
		call, ok := core.Unwrap(p.Resolve(f.Cond)).(*ssa.Call)
		if !ok || core.ResolveCall(call).Name != "strings.EqualFold" || len(call.Call.Args) != 2 {
			continue
		}
		a, b := p.Resolve(call.Call.Args[0]), p.Resolve(call.Call.Args[1])
		if s, isS := core.ConstString(core.Unwrap(b)); isS && isCmd(a) {
			note(s, f.Val)
		} else if s, isS := core.ConstString(core.Unwrap(a)); isS && isCmd(b) {
			note(s, f.Val)
		}
	}
	return
}

// ruleBypassKeepsBrackets: MULTI and EXEC name no database. The parser's
// database filter is a flag that is recomputed at every SELECT of the stream
// and, while set, removes what follows; a transaction (or script) of the source
// may SELECT inside its MULTI ... EXEC block. If the flag removes brackets, a
// block that enters or leaves a filtered database reaches the sender with one
// bracket only, and the sender's transaction state machine - which leaves the
// "in transaction" state at an EXEC and nowhere else - stays in it: in plain
// mode the next MULTI of the source is sent to the target as a command and its
// EXEC is swallowed, so the target connection stays inside an open MULTI and
// every later write is only QUEUED; in transactional mode the next batch
// carries a nested MULTI and the replay aborts (W40).
//
// Condition: on every path of one iteration of the parser loop that drops the
// decoded command while the database-filter flag is set and no other documented
// reason for a removal holds, the path has established that the command is
// neither MULTI nor EXEC.
func ruleBypassKeepsBrackets(w *core.World, r *core.Report) {
	const name = "(*syncer.RedisOutput).parseAofCommand"
	const cons = "parseAofCommand/db-filter-keeps-brackets"
	f := fn(w, r, name)
	if f == nil {
		return
	}
	sb := chanParam(f)
	var dec ssa.Instruction
	for _, s := range core.SitesNamed(f, false, "pkg/redis/client.MustDecodeOpt") {
		dec = s.Instr
	}
	if dec == nil {
		r.Unresolved(cons, "decode call not found")
		return
	}
	head := core.LoopHeadOf(dec.Block())
	if head == nil || sb == nil {
		r.Unresolved(cons, "decode loop or command channel not found")
		return
	}
	isCmd := isResultOf("pkg/redis/client.ParseArgs", 0)
	bad := ""
	var badPos token.Pos
	byFlag := 0
	okEnum := core.EnumPaths(head, 0, 200000, func(p *core.Path) {
		if !p.Closed || bad != "" {
			return
		}
		decoded := false
		for _, in := range p.Instrs {
			if in == dec {
				decoded = true
			}
		}
		if !decoded {
			return
		}
		for _, in := range p.Instrs {
			switch x := in.(type) {
			case *ssa.Send:
				if isParam(sb)(x.Chan) || isParam(sb)(p.Resolve(x.Chan)) {
					return
				}
			case *ssa.Select:
				for k, st := range x.States {
					if st.Dir == types.SendOnly && (isParam(sb)(st.Chan) || isParam(sb)(p.Resolve(st.Chan))) {
						kk := int64(k)
						if p.Holds(token.EQL, func(v ssa.Value) bool {
							e, ok := v.(*ssa.Extract)
							return ok && e.Index == 0 && e.Tuple == ssa.Value(x)
						}, isConstInt(kk)) {
							return
						}
					}
				}
			}
		}
		// a dropping path: is the database-filter flag set on it, and is it the only reason?
		var flagPos token.Pos
		flagSet, other := false, false
		for _, fct := range p.Conds {
			cv := core.Unwrap(p.Resolve(fct.Cond))
			if !fct.Val {
				if isResultOf("(*syncer.RedisOutput).selectDB", 1)(cv) {
					other = true
				}
				continue
			}
			if call, ok := cv.(*ssa.Call); ok {
				n := core.ResolveCall(call).Name
				if core.MatchName(n, "*RedisKeyFilter).FilterCmd") {
					other = true
				}
				if n == "strings.EqualFold" {
					for _, a := range call.Call.Args {
						if s, ok := core.ConstString(a); ok && s == "__sentinel__:hello" {
							other = true
						}
					}
				}
			}
			if isResultOf("*RedisKeyFilter).FilterCmdKey", 1)(cv) {
				other = true
			}
			if fromDb, calls := flagOnlyFromFilterDb(w, cv); fromDb && calls > 0 {
				flagSet = true
				if fct.If != nil {
					flagPos = fct.If.Pos()
				}
				if flagPos == token.NoPos {
					flagPos = fct.Cond.Pos()
				}
			}
		}
		if !flagSet || other {
			return
		}
		byFlag++
		isOther, _, excl := cmdNameKnown(p, isCmd, "multi", "exec")
		if isOther || (excl["multi"] && excl["exec"]) {
			return
		}
		var open []string
		for _, n := range []string{"multi", "exec"} {
			if !excl[n] {
				open = append(open, strings.ToUpper(n))
			}
		}
		if flagPos == token.NoPos {
			flagPos = lastDecisionPos(p)
		}
		bad, badPos = fmt.Sprintf("a decoded command is dropped because the database-filter flag (set by the last SELECT of the stream) is set, on a loop path that has not ruled out that the command is %s: the brackets name no database, and a source transaction that SELECTs a filtered database between its MULTI and its EXEC (or leaves one) reaches the sender with one bracket only; the sender's transaction state can only be left at an EXEC, so the target connection stays inside an open MULTI and every later write is merely QUEUED (plain mode), or the next batch nests a MULTI and the replay aborts (transactional mode)", strings.Join(open, " or ")), flagPos
	})
	if !okEnum {
		r.Undecided(cons, head.Instrs[0].Pos(), "too many paths through the parser loop")
		return
	}
	if byFlag == 0 {
		r.Fail(cons, head.Instrs[0].Pos(), "no loop path of the parser drops a command on the strength of the database-filter flag alone: the flag was not recognised (a boolean carried round the loop whose only sources are FilterDb results and the constant false)")
		return
	}
	r.Check(bad == "", cons, badPos, "%s", bad)
}
