package rules

import (
	"go/token"
	"go/types"
	"strings"

	"gunyucheck/core"

	"golang.org/x/tools/go/ssa"
)

// onPath lifts a predicate that recognises a value by its definition to the
// values that stand for it along one enumerated path: phis of the blocks
// walked, loads of private cells, parameters of helpers the path stepped into
// (the caller's argument) and results of such helpers (what the helper
// returned on this path), through integer conversions. "The length the header
// announced" is then the result of decodeInt whether the function reads the
// header itself or gets it from a helper of its own — on the path that is the
// same value, and on a path where the helper returned something else (a
// constant beside an error) it is not.
func onPath(p *core.Path, is func(ssa.Value) bool) func(ssa.Value) bool {
	return func(v ssa.Value) bool {
		for i := 0; i < 8; i++ {
			v = p.Resolve(v)
			switch x := v.(type) {
			case *ssa.Convert:
				v = x.X
				continue
			case *ssa.ChangeType:
				v = x.X
				continue
			}
			break
		}
		return is(v)
	}
}

// holdsOnPathsThrough: on every enumerated path of f that executes `at`, v stands for a value that satisfies is
// (and at least one such path exists). false when the paths cannot be enumerated.
func holdsOnPathsThrough(f *ssa.Function, at ssa.Instruction, v ssa.Value, is func(ssa.Value) bool) bool {
	if len(f.Blocks) == 0 {
		return false
	}
	n, bad := 0, false
	ok := core.EnumPathsN(f.Blocks[0], 0, 20000, core.Unroll, func(p *core.Path) {
		if bad {
			return
		}
		through := false
		for _, in := range p.Instrs {
			if in == at {
				through = true
				break
			}
		}
		if !through {
			return
		}
		n++
		if !onPath(p, is)(v) {
			bad = true
		}
	})
	return ok && !bad && n > 0
}

// unitEmitters: the functions through which the parser hands a replay unit to the sender side, with the position
// of the unit among the call's arguments. An emitter is recognised by what it does — it sends a *bisyncReplayUnit
// on a channel (a select case or a plain send) — not by where it is written: a closure of the parser, or a function
// of the parser's package that the parser (or one of its closures) calls and whose sent value is one of its own
// parameters. For a closure that sends a captured value the unit is its first argument, as before.
func unitEmitters(parser *ssa.Function) map[*ssa.Function]int {
	sentUnit := func(g *ssa.Function) (ssa.Value, bool) {
		for _, in := range core.OwnInstrs(g) {
			switch x := in.(type) {
			case *ssa.Select:
				for _, st := range x.States {
					if st.Send != nil && strings.HasSuffix(st.Send.Type().String(), "bisyncReplayUnit") {
						return st.Send, true
					}
				}
			case *ssa.Send:
				if strings.HasSuffix(x.X.Type().String(), "bisyncReplayUnit") {
					return x.X, true
				}
			}
		}
		return nil, false
	}
	paramIndex := func(g *ssa.Function, v ssa.Value) int {
		for i, p := range g.Params {
			if ssa.Value(p) == v {
				return i
			}
		}
		return -1
	}
	out := map[*ssa.Function]int{}
	all := core.DeepFuncs(parser)
	for _, c := range all[1:] {
		if v, ok := sentUnit(c); ok {
			if i := paramIndex(c, v); i >= 0 {
				out[c] = i
			} else {
				out[c] = 0
			}
		}
	}
	for _, g := range all {
		for _, s := range core.Sites(g, false) {
			h := s.Callee
			if h == nil || h.Parent() != nil || h.Pkg != parser.Pkg || len(h.Blocks) == 0 || h == parser {
				continue
			}
			if _, seen := out[h]; seen {
				continue
			}
			if v, ok := sentUnit(h); ok {
				if i := paramIndex(h, v); i >= 0 {
					out[h] = i
				}
			}
		}
	}
	return out
}

// globalSliceLiteral: v is a read of a package-level slice variable whose content is a literal — the variable is
// assigned exactly once, in the package initialiser, a slice literal — and which is only *read* everywhere else
// (indexed for loading, ranged over, measured, handed to functions that do no more than that with the parameter).
// Then every read yields the elements of the literal. Anything else (a second assignment, an element store, the
// slice escaping into a structure, an interface or an unknown function) and the content is not known.
func globalSliceLiteral(w *core.World, v ssa.Value) ([]ssa.Value, bool) {
	ld, ok := core.Unwrap(v).(*ssa.UnOp)
	if !ok || ld.Op != token.MUL {
		return nil, false
	}
	g, ok := ld.X.(*ssa.Global)
	if !ok || g.Pkg == nil {
		return nil, false
	}
	funcs := map[*ssa.Function]bool{}
	for _, f := range w.Funcs() {
		funcs[f] = true
	}
	for _, m := range g.Pkg.Members {
		if f, isF := m.(*ssa.Function); isF {
			for _, h := range core.DeepFuncs(f) {
				funcs[h] = true
			}
		}
	}
	var lit ssa.Value
	for f := range funcs {
		for _, b := range f.Blocks {
			for _, in := range b.Instrs {
				for _, op := range in.Operands(nil) {
					if op == nil || *op != ssa.Value(g) {
						continue
					}
					switch x := in.(type) {
					case *ssa.UnOp:
						if x.Op != token.MUL || !readOnlySlice(x, 0, map[ssa.Value]bool{}) {
							return nil, false
						}
					case *ssa.Store:
						if x.Addr != ssa.Value(g) || f.Name() != "init" || f.Parent() != nil || lit != nil {
							return nil, false
						}
						lit = x.Val
					case *ssa.DebugRef:
					default:
						return nil, false // the variable's address goes somewhere
					}
				}
			}
		}
	}
	if lit == nil {
		return nil, false
	}
	return core.VariadicElems(lit)
}

// readOnlySlice: nothing that is done with the slice value v can change its elements or keep it for later.
func readOnlySlice(v ssa.Value, depth int, seen map[ssa.Value]bool) bool {
	if seen[v] {
		return true
	}
	seen[v] = true
	refs := v.Referrers()
	if refs == nil || depth > 4 {
		return false
	}
	for _, rf := range *refs {
		switch x := rf.(type) {
		case *ssa.DebugRef:
		case *ssa.IndexAddr:
			if x.X != v {
				return false
			}
			for _, r2 := range *x.Referrers() {
				switch y := r2.(type) {
				case *ssa.DebugRef:
				case *ssa.UnOp:
					if y.Op != token.MUL {
						return false
					}
				default:
					return false
				}
			}
		case *ssa.Slice:
			if x.X != v || !readOnlySlice(x, depth, seen) {
				return false
			}
		case *ssa.Phi:
			if !readOnlySlice(x, depth, seen) {
				return false
			}
		case *ssa.Call:
			if b, isB := x.Call.Value.(*ssa.Builtin); isB {
				switch b.Name() {
				case "len", "cap":
				case "append", "copy":
					// as the source only
					if len(x.Call.Args) != 2 || x.Call.Args[0] == v || x.Call.Args[1] != v {
						return false
					}
				default:
					return false
				}
				continue
			}
			callee := x.Call.StaticCallee()
			if x.Call.IsInvoke() || callee == nil || len(callee.Blocks) == 0 || x.Call.Value == v {
				return false
			}
			for i, a := range x.Call.Args {
				if a != v {
					continue
				}
				if i >= len(callee.Params) || !readOnlySlice(callee.Params[i], depth+1, seen) {
					return false
				}
			}
		default:
			return false
		}
	}
	return true
}

// everyPathToPasses: every enumerated path from f's entry to the entry of block target executes a call that
// satisfies is — in f itself or in a helper the path steps into — and there is such a path.
func everyPathToPasses(f *ssa.Function, target *ssa.BasicBlock, is func(core.Site) bool) bool {
	if len(f.Blocks) == 0 || target == f.Blocks[0] || len(target.Instrs) == 0 {
		return false
	}
	n, bad := 0, false
	ok := core.EnumPathsStop(f.Blocks[0], 0, 50000, 1, func(b *ssa.BasicBlock) bool { return b == target }, func(p *core.Path) {
		if bad || p.End != target.Instrs[0] || len(p.Blocks) == 0 || p.Blocks[len(p.Blocks)-1] != target {
			return
		}
		n++
		for _, s := range pathSites(p) {
			if is(s) {
				return
			}
		}
		bad = true
	})
	return ok && !bad && n > 0
}

// nilLookupFound: the fact says `m[k] != nil` for a key k that satisfies isKey, m a map whose element type has a
// nil value (pointer, slice, map, channel, function, interface). A key that is absent reads as that nil value, so
// the fact implies that the key is present — the same knowledge as the `ok` of `v, ok := m[k]`, and stronger.
func nilLookupFound(fct core.Fact, isKey func(ssa.Value) bool) bool {
	c, ok := core.FactCmp(fct)
	if !ok || c.Op != token.NEQ {
		return false
	}
	v := c.X
	if core.IsNilConst(c.X) {
		v = c.Y
	} else if !core.IsNilConst(c.Y) {
		return false
	}
	lk, ok := core.Unwrap(v).(*ssa.Lookup)
	if !ok || lk.CommaOk || !isKey(lk.Index) {
		return false
	}
	m, ok := lk.X.Type().Underlying().(*types.Map)
	if !ok {
		return false
	}
	switch m.Elem().Underlying().(type) {
	case *types.Pointer, *types.Slice, *types.Map, *types.Chan, *types.Signature, *types.Interface:
		return true
	}
	return false
}

// electionFieldRoles: the fields of redisElection by role, read from the one place that builds an election,
// (*redisCluster).NewElection(ctx, electionKey, id): the lease key is the field stored from the first string
// parameter, the holder's id the field stored from the second, the ttl the field stored from a field of the
// cluster object (R15.9 / R15.12 say what that field holds). Each role must be filled exactly once.
func electionFieldRoles(w *core.World, r *core.Report) (key, id, ttl string, ok bool) {
	f := w.Func("(*pkg/cluster.redisCluster).NewElection")
	if f == nil || len(f.Params) == 0 {
		return "", "", "", false
	}
	var strParams []*ssa.Parameter
	for _, p := range f.Params[1:] {
		if b, isB := p.Type().Underlying().(*types.Basic); isB && b.Kind() == types.String {
			strParams = append(strParams, p)
		}
	}
	if len(strParams) != 2 {
		return "", "", "", false
	}
	n := map[string]int{}
	for _, in := range core.Instrs(f) {
		st, isSt := in.(*ssa.Store)
		if !isSt {
			continue
		}
		fa, isFa := st.Addr.(*ssa.FieldAddr)
		if !isFa || !strings.HasSuffix(core.TypeName(fa.X.Type()), "redisElection") {
			continue
		}
		v := core.Unwrap(st.Val)
		switch {
		case v == ssa.Value(strParams[0]):
			key = core.FieldName(fa)
			n["key"]++
		case v == ssa.Value(strParams[1]):
			id = core.FieldName(fa)
			n["id"]++
		default:
			if ld, isLd := v.(*ssa.UnOp); isLd && ld.Op == token.MUL {
				if src, isF := ld.X.(*ssa.FieldAddr); isF && src.X == ssa.Value(f.Params[0]) {
					if b, isB := ld.Type().Underlying().(*types.Basic); isB && b.Info()&types.IsInteger != 0 {
						ttl = core.FieldName(fa)
						n["ttl"]++
					}
				}
			}
		}
	}
	ok = n["key"] == 1 && n["id"] == 1 && n["ttl"] == 1 && key != id && id != ttl && key != ttl
	return
}
