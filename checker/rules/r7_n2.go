package rules

import (
	"go/constant"
	"go/token"
	"go/types"

	"golang.org/x/tools/go/ssa"
)

// cmdEqualityUses: the uses of a string parameter when every one of them is an equality test against a constant —
// the key of a look-up in a package-level map (at most one map), an `==` / `!=` with a string constant (what a
// `switch` over the string compiles to), or the argument of a static call of a function with a body whose
// parameter is used in the same way. It returns the map, the constants compared with, and ok=false when the
// parameter is used for anything else (concatenated, sliced, lower-cased, stored, handed to code without a body):
// only when ok holds do all strings outside "keys of the map ∪ constants" behave alike, which is what lets a rule
// enumerate the whole domain as "those strings plus one other".
func cmdEqualityUses(par *ssa.Parameter, depth int) (table *ssa.Global, consts []string, ok bool) {
	if depth > 3 || par.Referrers() == nil {
		return nil, nil, false
	}
	if b, isB := par.Type().Underlying().(*types.Basic); !isB || b.Info()&types.IsString == 0 {
		return nil, nil, false
	}
	for _, rf := range *par.Referrers() {
		switch x := rf.(type) {
		case *ssa.DebugRef:
		case *ssa.Lookup:
			ld, isLd := x.X.(*ssa.UnOp)
			if !isLd || x.Index != ssa.Value(par) {
				return nil, nil, false
			}
			g, isG := ld.X.(*ssa.Global)
			if !isG || (table != nil && g != table) {
				return nil, nil, false
			}
			table = g
		case *ssa.BinOp:
			if x.Op != token.EQL && x.Op != token.NEQ {
				return nil, nil, false
			}
			other := x.X
			if other == ssa.Value(par) {
				other = x.Y
			}
			c, isC := other.(*ssa.Const)
			if !isC || c.Value == nil || c.Value.Kind() != constant.String {
				return nil, nil, false
			}
			consts = append(consts, constant.StringVal(c.Value))
		case *ssa.Call:
			g := x.Call.StaticCallee()
			if g == nil || x.Call.IsInvoke() || len(g.Blocks) == 0 || len(g.Params) != len(x.Call.Args) || x.Call.Value == ssa.Value(par) {
				return nil, nil, false
			}
			for i, a := range x.Call.Args {
				if a != ssa.Value(par) {
					continue
				}
				t2, c2, ok2 := cmdEqualityUses(g.Params[i], depth+1)
				if !ok2 || (t2 != nil && table != nil && t2 != table) {
					return nil, nil, false
				}
				if t2 != nil {
					table = t2
				}
				consts = append(consts, c2...)
			}
		default:
			return nil, nil, false
		}
	}
	return table, consts, true
}
