package rules

import (
	"go/constant"
	"go/token"
	"go/types"

	"golang.org/x/tools/go/ssa"

	"gunyucheck/core"
)

// cmdEqualityUses: the uses of a string parameter when every one of them is an equality test against a constant —
// the key of a look-up in a package-level map (at most one map), an `==` / `!=` with a string constant (what a
// `switch` over the string compiles to), or the argument of a static call of a function with a body whose
// parameter is used in the same way. It returns the map, the constants compared with, and ok=false when the
// parameter is used for anything else (concatenated, sliced, lower-cased, stored, handed to code without a body):
// only when ok holds do all strings outside "keys of the map ∪ constants" behave alike, which is what lets a rule
// enumerate the whole domain as "those strings plus one other".
func cmdEqualityUses(par *ssa.Parameter, depth int) (table *ssa.Global, consts []string, ok bool) {
	if depth > 3 || par.Referrers() == nil {
		return nil, nil, false
	}
	if b, isB := par.Type().Underlying().(*types.Basic); !isB || b.Info()&types.IsString == 0 {
		return nil, nil, false
	}
	for _, rf := range *par.Referrers() {
		switch x := rf.(type) {
		case *ssa.DebugRef:
		case *ssa.Lookup:
			ld, isLd := x.X.(*ssa.UnOp)
			if !isLd || x.Index != ssa.Value(par) {
				return nil, nil, false
			}
			g, isG := ld.X.(*ssa.Global)
			if !isG || (table != nil && g != table) {
				return nil, nil, false
			}
			table = g
		case *ssa.BinOp:
			if x.Op != token.EQL && x.Op != token.NEQ {
				return nil, nil, false
			}
			other := x.X
			if other == ssa.Value(par) {
				other = x.Y
			}
			c, isC := other.(*ssa.Const)
			if !isC || c.Value == nil || c.Value.Kind() != constant.String {
				return nil, nil, false
			}
			consts = append(consts, constant.StringVal(c.Value))
		case *ssa.Call:
			g := x.Call.StaticCallee()
			if g == nil || x.Call.IsInvoke() || len(g.Blocks) == 0 || len(g.Params) != len(x.Call.Args) || x.Call.Value == ssa.Value(par) {
				return nil, nil, false
			}
			for i, a := range x.Call.Args {
				if a != ssa.Value(par) {
					continue
				}
				t2, c2, ok2 := cmdEqualityUses(g.Params[i], depth+1)
				if !ok2 || (t2 != nil && table != nil && t2 != table) {
					return nil, nil, false
				}
				if t2 != nil {
					table = t2
				}
				consts = append(consts, c2...)
			}
		default:
			return nil, nil, false
		}
	}
	return table, consts, true
}

// ---------------------------------------------------------------- FilterCmdKey: the kept keys as a list (R10.2)

// keptListAppend: in is `append(L, e…)` where L is a slice carried round the loop headed by head (a phi of the
// head). Returns the phi and the appended elements.
func keptListAppend(in ssa.Instruction, head *ssa.BasicBlock) (*ssa.Phi, []ssa.Value, bool) {
	c, ok := in.(*ssa.Call)
	if !ok || head == nil || !isBuiltin(c, "append") || len(c.Call.Args) != 2 {
		return nil, nil, false
	}
	ph, ok := c.Call.Args[0].(*ssa.Phi)
	if !ok || ph.Block() != head {
		return nil, nil, false
	}
	el, ok := core.VariadicElems(c.Call.Args[1])
	if !ok {
		return ph, nil, true // appends a whole slice: not "one key"
	}
	return ph, el, true
}

// fromThisIteration: v is computed from the element the `range` loop headed by head visits in this iteration, or
// from its index (and from nothing of another iteration: no phi of the head other than the index).
func fromThisIteration(v ssa.Value, head *ssa.BasicBlock) bool {
	ranged := rangedSlice(head)
	if ranged == nil {
		return false
	}
	isCur := func(x ssa.Value) bool {
		if ld, ok := x.(*ssa.UnOp); ok && ld.Op == token.MUL {
			if ia, ok := ld.X.(*ssa.IndexAddr); ok && ia.X == ranged {
				if from, _, ok := indexRange(ia.Index); ok && from == 0 && loopOfIndex(ia.Index) == head {
					return true
				}
			}
		}
		return false
	}
	x := core.Unwrap(v)
	if isCur(x) {
		return true
	}
	if from, _, ok := indexRange(x); ok && from == 0 && loopOfIndex(x) == head {
		return true
	}
	return false
}

// loopOfIndex: the head block of the loop whose index idx is (the block of the phi behind it).
func loopOfIndex(idx ssa.Value) *ssa.BasicBlock {
	switch x := core.Unwrap(idx).(type) {
	case *ssa.Phi:
		return x.Block()
	case *ssa.BinOp:
		if p, ok := x.X.(*ssa.Phi); ok {
			return p.Block()
		}
	}
	return nil
}

// keptListRecordsRejection: the slice phi `list` of the per-key loop records a rejection by *not* growing. It holds
// when (1) the list is empty when the loop is entered (make(T, 0, …) or nil), (2) every completed iteration that
// rejected the key hands the list on unchanged and every one that accepted it hands on append(list, one element),
// and there is no third kind of iteration, (3) the loop ranges over the key positions from the first to the last, and
// (4) every return that passes the command on unchanged after the loop is guarded by len(list) == len(positions).
// With (1)–(3) len(list) is the number of accepted keys, so (4) says "nothing was rejected" — the same argument as
// for the counter of accepted keys, with len(list) as the counter.
func keptListRecordsRejection(f *ssa.Function, head *ssa.BasicBlock, list *ssa.Phi, nIter int, iter func(k int) (rej, acc bool, next ssa.Value)) bool {
	init := false
	for i, e := range list.Edges {
		if head.Dominates(head.Preds[i]) {
			continue
		}
		switch x := e.(type) {
		case *ssa.MakeSlice:
			if !isConstInt(0)(x.Len) {
				return false
			}
			init = true
		case *ssa.Const:
			if x.Value != nil {
				return false
			}
			init = true
		default:
			return false
		}
	}
	if !init {
		return false
	}
	nRej, nAcc := 0, 0
	for k := 0; k < nIter; k++ {
		rej, acc, nx := iter(k)
		switch {
		case rej:
			nRej++
			if nx != ssa.Value(list) {
				return false
			}
		case acc:
			nAcc++
			in, isIn := nx.(ssa.Instruction)
			if !isIn {
				return false
			}
			ph, el, isApp := keptListAppend(in, head)
			if !isApp || ph != list || len(el) != 1 {
				return false
			}
		default:
			return false
		}
	}
	if nRej == 0 || nAcc == 0 {
		return false
	}
	ranged := rangedSlice(head)
	if ranged == nil {
		return false
	}
	lenOf := func(v, of ssa.Value) bool {
		call, ok := v.(*ssa.Call)
		return ok && isBuiltin(call, "len") && call.Call.Args[0] == of
	}
	return unchangedReturnGuarded(f, head, func(c core.Cmp, val bool) bool {
		x, y := core.Unwrap(c.X), core.Unwrap(c.Y)
		return c.Op == token.EQL && ((lenOf(x, list) && lenOf(y, ranged)) || (lenOf(y, list) && lenOf(x, ranged)))
	}, nil)
}
