package rules

import (
	"go/constant"
	"go/token"
	"go/types"
	"strings"

	"golang.org/x/tools/go/ssa"

	"gunyucheck/core"
)

// cmdEqualityUses: the uses of a string parameter when every one of them is an equality test against a constant —
// the key of a look-up in a package-level map (at most one map), an `==` / `!=` with a string constant (what a
// `switch` over the string compiles to), or the argument of a static call of a function with a body whose
// parameter is used in the same way. It returns the map, the constants compared with, and ok=false when the
// parameter is used for anything else (concatenated, sliced, lower-cased, stored, handed to code without a body):
// only when ok holds do all strings outside "keys of the map ∪ constants" behave alike, which is what lets a rule
// enumerate the whole domain as "those strings plus one other".
func cmdEqualityUses(par *ssa.Parameter, depth int) (table *ssa.Global, consts []string, ok bool) {
	if depth > 3 || par.Referrers() == nil {
		return nil, nil, false
	}
	if b, isB := par.Type().Underlying().(*types.Basic); !isB || b.Info()&types.IsString == 0 {
		return nil, nil, false
	}
	for _, rf := range *par.Referrers() {
		switch x := rf.(type) {
		case *ssa.DebugRef:
		case *ssa.Lookup:
			ld, isLd := x.X.(*ssa.UnOp)
			if !isLd || x.Index != ssa.Value(par) {
				return nil, nil, false
			}
			g, isG := ld.X.(*ssa.Global)
			if !isG || (table != nil && g != table) {
				return nil, nil, false
			}
			table = g
		case *ssa.BinOp:
			if x.Op != token.EQL && x.Op != token.NEQ {
				return nil, nil, false
			}
			other := x.X
			if other == ssa.Value(par) {
				other = x.Y
			}
			c, isC := other.(*ssa.Const)
			if !isC || c.Value == nil || c.Value.Kind() != constant.String {
				return nil, nil, false
			}
			consts = append(consts, constant.StringVal(c.Value))
		case *ssa.Call:
			g := x.Call.StaticCallee()
			if g == nil || x.Call.IsInvoke() || len(g.Blocks) == 0 || len(g.Params) != len(x.Call.Args) || x.Call.Value == ssa.Value(par) {
				return nil, nil, false
			}
			for i, a := range x.Call.Args {
				if a != ssa.Value(par) {
					continue
				}
				t2, c2, ok2 := cmdEqualityUses(g.Params[i], depth+1)
				if !ok2 || (t2 != nil && table != nil && t2 != table) {
					return nil, nil, false
				}
				if t2 != nil {
					table = t2
				}
				consts = append(consts, c2...)
			}
		default:
			return nil, nil, false
		}
	}
	return table, consts, true
}

// ---------------------------------------------------------------- FilterCmdKey: the kept keys as a list (R10.2)

// keptListAppend: in is `append(L, e…)` where L is a slice carried round the loop headed by head (a phi of the
// head). Returns the phi and the appended elements.
func keptListAppend(in ssa.Instruction, head *ssa.BasicBlock) (*ssa.Phi, []ssa.Value, bool) {
	c, ok := in.(*ssa.Call)
	if !ok || head == nil || !isBuiltin(c, "append") || len(c.Call.Args) != 2 {
		return nil, nil, false
	}
	ph, ok := c.Call.Args[0].(*ssa.Phi)
	if !ok || ph.Block() != head {
		return nil, nil, false
	}
	el, ok := core.VariadicElems(c.Call.Args[1])
	if !ok {
		return ph, nil, true // appends a whole slice: not "one key"
	}
	return ph, el, true
}

// fromThisIteration: v is computed from the element the `range` loop headed by head visits in this iteration, or
// from its index (and from nothing of another iteration: no phi of the head other than the index).
func fromThisIteration(v ssa.Value, head *ssa.BasicBlock) bool {
	ranged := rangedSlice(head)
	if ranged == nil {
		return false
	}
	isCur := func(x ssa.Value) bool {
		if ld, ok := x.(*ssa.UnOp); ok && ld.Op == token.MUL {
			if ia, ok := ld.X.(*ssa.IndexAddr); ok && ia.X == ranged {
				if from, _, ok := indexRange(ia.Index); ok && from == 0 && loopOfIndex(ia.Index) == head {
					return true
				}
			}
		}
		return false
	}
	x := core.Unwrap(v)
	if isCur(x) {
		return true
	}
	if from, _, ok := indexRange(x); ok && from == 0 && loopOfIndex(x) == head {
		return true
	}
	return false
}

// loopOfIndex: the head block of the loop whose index idx is (the block of the phi behind it).
func loopOfIndex(idx ssa.Value) *ssa.BasicBlock {
	switch x := core.Unwrap(idx).(type) {
	case *ssa.Phi:
		return x.Block()
	case *ssa.BinOp:
		if p, ok := x.X.(*ssa.Phi); ok {
			return p.Block()
		}
	}
	return nil
}

// keptListRecordsRejection: the slice phi `list` of the per-key loop records a rejection by *not* growing. It holds
// when (1) the list is empty when the loop is entered (make(T, 0, …) or nil), (2) every completed iteration that
// rejected the key hands the list on unchanged and every one that accepted it hands on append(list, one element),
// and there is no third kind of iteration, (3) the loop ranges over the key positions from the first to the last, and
// (4) every return that passes the command on unchanged after the loop is guarded by len(list) == len(positions).
// With (1)–(3) len(list) is the number of accepted keys, so (4) says "nothing was rejected" — the same argument as
// for the counter of accepted keys, with len(list) as the counter.
func keptListRecordsRejection(f *ssa.Function, head *ssa.BasicBlock, list *ssa.Phi, nIter int, iter func(k int) (rej, acc bool, next ssa.Value)) bool {
	init := false
	for i, e := range list.Edges {
		if head.Dominates(head.Preds[i]) {
			continue
		}
		switch x := e.(type) {
		case *ssa.MakeSlice:
			if !isConstInt(0)(x.Len) {
				return false
			}
			init = true
		case *ssa.Const:
			if x.Value != nil {
				return false
			}
			init = true
		default:
			return false
		}
	}
	if !init {
		return false
	}
	nRej, nAcc := 0, 0
	for k := 0; k < nIter; k++ {
		rej, acc, nx := iter(k)
		switch {
		case rej:
			nRej++
			if nx != ssa.Value(list) {
				return false
			}
		case acc:
			nAcc++
			in, isIn := nx.(ssa.Instruction)
			if !isIn {
				return false
			}
			ph, el, isApp := keptListAppend(in, head)
			if !isApp || ph != list || len(el) != 1 {
				return false
			}
		default:
			return false
		}
	}
	if nRej == 0 || nAcc == 0 {
		return false
	}
	ranged := rangedSlice(head)
	if ranged == nil {
		return false
	}
	lenOf := func(v, of ssa.Value) bool {
		call, ok := v.(*ssa.Call)
		return ok && isBuiltin(call, "len") && call.Call.Args[0] == of
	}
	return unchangedReturnGuarded(f, head, func(c core.Cmp, val bool) bool {
		x, y := core.Unwrap(c.X), core.Unwrap(c.Y)
		return c.Op == token.EQL && ((lenOf(x, list) && lenOf(y, ranged)) || (lenOf(y, list) && lenOf(x, ranged)))
	}, nil)
}

// ---------------------------------------------------------------- FilterCmdKey: the loop state in a private record (R10.2)

// boolMask: x is the mask of kept keys — a []bool made locally, directly or read from a field of a private record
// into which nothing but such a slice is ever put.
func boolMask(x ssa.Value) bool {
	isMask := func(v ssa.Value) bool {
		ms, ok := v.(*ssa.MakeSlice)
		return ok && strings.HasSuffix(ms.Type().String(), "[]bool")
	}
	if isMask(x) {
		return true
	}
	ld, ok := x.(*ssa.UnOp)
	if !ok || ld.Op != token.MUL {
		return false
	}
	fa, ok := ld.X.(*ssa.FieldAddr)
	if !ok {
		return false
	}
	a, ok := fa.X.(*ssa.Alloc)
	if !ok {
		return false
	}
	vals, known := core.RecordFieldSources(a, fa.Field)
	if !known || len(vals) == 0 {
		return false
	}
	for _, v := range vals {
		if !isMask(v) {
			return false
		}
	}
	return true
}

// recordFlagRecordsRejection: the "a key was rejected" flag is a boolean field k of a private record R of the
// function g that holds the per-key loop (g is f, or a helper with one call site in f). The flag does its job when
//
//	(1) every completed iteration that rejected the key stores the constant true into R.k;
//	(2) nothing but the constant true is ever stored into that field, in R or in a record R is copied from
//	    (RecordFieldSources; a source that cannot be read makes the rule fail), and R as a whole is assigned only
//	    before the loop (the assignment's block strictly dominates the loop head) or from itself — so once set the
//	    field stays set until g returns;
//	(3) the flag is read from R itself or, when the loop is in a helper, from a private record Q of f whose only
//	    assignment is the result of that helper's one call, all of whose returns yield R, and the assignment
//	    dominates the read; Q.k is likewise never written anything but true;
//	(4) every return of f that passes the command on unchanged after the loop — (args, false) — lies under the
//	    outcome "false" of a branch on such a read.
func recordFlagRecordsRejection(f *ssa.Function, head *ssa.BasicBlock, nIter int, iter func(k int) (rej bool, instrs []ssa.Instruction)) bool {
	g := head.Parent()
	anchor := head
	var site *ssa.Call
	if g != f {
		site = core.ExpandedInto(g)
		if site == nil || site.Parent() != f {
			return false
		}
		anchor = site.Block()
	}
	type fld struct {
		rec *ssa.Alloc
		k   int
	}
	isTrue := func(v ssa.Value) bool { b, isC := core.ConstBool(v); return isC && b }
	// (1) the fields every rejecting iteration leaves at true
	var cands map[fld]bool
	nRej := 0
	for i := 0; i < nIter; i++ {
		rej, instrs := iter(i)
		if !rej {
			continue
		}
		nRej++
		last := map[fld]bool{}
		for _, in := range instrs {
			st, ok := in.(*ssa.Store)
			if !ok {
				continue
			}
			if fa, isFa := st.Addr.(*ssa.FieldAddr); isFa {
				if a, isA := fa.X.(*ssa.Alloc); isA && a.Parent() == g {
					if bt, isB := st.Val.Type().Underlying().(*types.Basic); isB && bt.Kind() == types.Bool {
						last[fld{a, fa.Field}] = isTrue(st.Val)
					}
				}
			}
		}
		if cands == nil {
			cands = map[fld]bool{}
			for c, v := range last {
				if v {
					cands[c] = true
				}
			}
		} else {
			for c := range cands {
				if !last[c] {
					delete(cands, c)
				}
			}
		}
	}
	if nRej == 0 {
		return false
	}
	onlyTrue := func(a *ssa.Alloc, k int) bool {
		vals, known := core.RecordFieldSources(a, k)
		if !known {
			return false
		}
		for _, v := range vals {
			if !isTrue(v) {
				return false
			}
		}
		return true
	}
	for c := range cands {
		R, k := c.rec, c.k
		// (2)
		if !onlyTrue(R, k) {
			continue
		}
		ok := true
		for _, rf := range *R.Referrers() {
			st, isSt := rf.(*ssa.Store)
			if !isSt || st.Addr != ssa.Value(R) {
				continue
			}
			if ld, isLd := st.Val.(*ssa.UnOp); isLd && ld.Op == token.MUL && ld.X == ssa.Value(R) {
				continue // R = R
			}
			if b := st.Block(); b == head || !b.Dominates(head) {
				ok = false
			}
		}
		if !ok {
			continue
		}
		// (3) the records the flag may be read from
		Q := R
		var qStore *ssa.Store
		if g != f {
			Q = nil
			idx := -1
			for _, in := range core.OwnInstrs(f) {
				st, isSt := in.(*ssa.Store)
				if !isSt {
					continue
				}
				a, isA := st.Addr.(*ssa.Alloc)
				if !isA {
					continue
				}
				switch x := st.Val.(type) {
				case *ssa.Extract:
					if x.Tuple == ssa.Value(site) {
						Q, qStore, idx = a, st, x.Index
					}
				case *ssa.Call:
					if x == site {
						Q, qStore, idx = a, st, 0
					}
				}
			}
			if Q == nil || !onlyTrue(Q, k) {
				continue
			}
			nStores := 0
			for _, rf := range *Q.Referrers() {
				if st, isSt := rf.(*ssa.Store); isSt && st.Addr == ssa.Value(Q) {
					nStores++
				}
			}
			if nStores != 1 {
				continue
			}
			yieldsR := true
			nRet := 0
			for _, b := range g.Blocks {
				if b == g.Recover || len(b.Instrs) == 0 {
					continue
				}
				ret, isRet := b.Instrs[len(b.Instrs)-1].(*ssa.Return)
				if !isRet {
					continue
				}
				nRet++
				if idx < 0 || idx >= len(ret.Results) {
					yieldsR = false
					continue
				}
				if ld, isLd := ret.Results[idx].(*ssa.UnOp); !isLd || ld.Op != token.MUL || ld.X != ssa.Value(R) {
					yieldsR = false
				}
			}
			if !yieldsR || nRet == 0 {
				continue
			}
		}
		isFlagRead := func(v ssa.Value) bool {
			ld, isLd := core.Unwrap(v).(*ssa.UnOp)
			if !isLd || ld.Op != token.MUL {
				return false
			}
			fa, isFa := ld.X.(*ssa.FieldAddr)
			if !isFa || fa.X != ssa.Value(Q) || fa.Field != k {
				return false
			}
			return qStore == nil || core.Dominates(qStore, ld)
		}
		// (4)
		args := ssa.Value(f.Params[2])
		n, guarded := 0, true
		for _, ret := range core.ReturnsX(f) {
			if len(ret.Results) != 2 {
				continue
			}
			rej, isC := core.ConstBool(core.RetVal(ret, 1))
			if !isC || rej || core.Unwrap(core.RetVal(ret, 0)) != args {
				continue
			}
			var at ssa.Instruction = ret
			for i := 0; i < 8 && at.Parent() != f; i++ {
				c := core.ExpandedInto(at.Parent())
				if c == nil {
					break
				}
				at = c
			}
			if at.Parent() != f {
				guarded = false
				continue
			}
			if !anchor.Dominates(at.Block()) {
				continue // before the loop: nothing has been judged yet
			}
			under := false
			for _, fct := range core.FactsAt(ret.Block()) {
				if !fct.Val && isFlagRead(fct.Cond) {
					under = true
				}
			}
			if !under {
				guarded = false
			}
			n++
		}
		if guarded && n > 0 {
			return true
		}
	}
	return false
}

// ---------------------------------------------------------------- ParseArgs: the list built by append (R12.4)

// grownOnePerIteration: v is a slice a loop builds with append — a phi of a loop head that enters the loop as
// make(T, 0, …) (or nil) and that EVERY back edge hands on as append(v, exactly one element). A back edge that
// carries the list unchanged (an iteration that skips its element) or appends to something else does not qualify:
// the list then does not hold one entry per element visited, and "everything after the first" loses arguments.
func grownOnePerIteration(v ssa.Value) bool {
	ph, ok := v.(*ssa.Phi)
	if !ok {
		return false
	}
	head := ph.Block()
	entry, back := 0, 0
	for i, e := range ph.Edges {
		if !head.Dominates(head.Preds[i]) {
			switch x := e.(type) {
			case *ssa.MakeSlice:
				if !isConstInt(0)(x.Len) {
					return false
				}
			case *ssa.Const:
				if x.Value != nil {
					return false
				}
			default:
				return false
			}
			entry++
			continue
		}
		in, isIn := e.(ssa.Instruction)
		if !isIn {
			return false
		}
		l, el, isApp := keptListAppend(in, head)
		if !isApp || l != ph || len(el) != 1 {
			return false
		}
		back++
	}
	return entry > 0 && back > 0
}

// ---------------------------------------------------------------- slot function: the scans in a search helper (R11.4)

// scanHelperShape recognises a helper g(s string, from int, c byte) int of the form
//
//	i := from; for i < len(s) && s[i] != c { i++ }; return i
//
// (or the `if s[i] == c { break }` spelling): the loop variable starts at from, advances by one, the loop is left
// at the first index that holds c or when the string is exhausted, nothing else happens, and every return yields
// the loop variable. Its result r therefore satisfies: from <= r; r <= len(s) when from <= len(s); r < len(s)
// implies s[r] == c and no c in s[from:r] — the first match at or after from, len(s) when there is none.
// Returns the positions of the three parameters.
func scanHelperShape(g *ssa.Function) (sIdx, fromIdx, cIdx int, ok bool) {
	sIdx, fromIdx, cIdx = -1, -1, -1
	if g == nil || len(g.Blocks) == 0 || len(g.Blocks) > 6 || len(g.Params) != 3 || g.Signature.Results().Len() != 1 || len(g.FreeVars) != 0 {
		return
	}
	for i, p := range g.Params {
		b, isB := p.Type().Underlying().(*types.Basic)
		if !isB {
			return
		}
		switch {
		case b.Info()&types.IsString != 0 && sIdx < 0:
			sIdx = i
		case b.Kind() == types.Int && fromIdx < 0:
			fromIdx = i
		case (b.Kind() == types.Uint8 || b.Kind() == types.Byte) && cIdx < 0:
			cIdx = i
		default:
			return
		}
	}
	if sIdx < 0 || fromIdx < 0 || cIdx < 0 {
		return
	}
	if rb, isB := g.Signature.Results().At(0).Type().Underlying().(*types.Basic); !isB || rb.Kind() != types.Int {
		return
	}
	s, from, c := ssa.Value(g.Params[sIdx]), ssa.Value(g.Params[fromIdx]), ssa.Value(g.Params[cIdx])
	var ph *ssa.Phi
	var inc *ssa.BinOp
	for _, in := range core.OwnInstrs(g) {
		x, isPhi := in.(*ssa.Phi)
		if !isPhi {
			continue
		}
		if ph != nil || len(x.Edges) != 2 {
			return // one loop variable, nothing else merges
		}
		ph = x
		for _, e := range x.Edges {
			if b, isB := e.(*ssa.BinOp); isB && b.Op == token.ADD && b.X == ssa.Value(x) && isConstInt(1)(b.Y) {
				inc = b
			} else if e != from {
				return
			}
		}
	}
	if ph == nil || inc == nil {
		return
	}
	head := ph.Block()
	iff, isIf := head.Instrs[len(head.Instrs)-1].(*ssa.If)
	if !isIf {
		return
	}
	cmp, isCmp := core.AsCmp(iff.Cond, true)
	if !isCmp || cmp.Op != token.LSS || cmp.X != ssa.Value(ph) || !isLenOf(cmp.Y, s) {
		return
	}
	test, exit := head.Succs[0], head.Succs[1]
	tif, isIf := test.Instrs[len(test.Instrs)-1].(*ssa.If)
	if !isIf {
		return
	}
	tc, isCmp := core.AsCmp(tif.Cond, true)
	if !isCmp || (tc.Op != token.EQL && tc.Op != token.NEQ) {
		return
	}
	elem, ch := tc.X, tc.Y
	if elem == c {
		elem, ch = ch, elem
	}
	lk, isIdx := core.Unwrap(elem).(*ssa.Index)
	if ch != c || !isIdx || lk.X != s || lk.Index != ssa.Value(ph) {
		return
	}
	match, miss := test.Succs[0], test.Succs[1]
	if tc.Op == token.NEQ {
		match, miss = miss, match
	}
	if miss != inc.Block() || len(miss.Succs) != 1 || miss.Succs[0] != head {
		return
	}
	// both ways out return the loop variable
	returnsVar := func(b *ssa.BasicBlock) bool {
		for hops := 0; hops < 2; hops++ {
			for _, in := range b.Instrs {
				switch x := in.(type) {
				case *ssa.DebugRef:
				case *ssa.Jump:
				case *ssa.Return:
					return len(x.Results) == 1 && x.Results[0] == ssa.Value(ph)
				default:
					return false
				}
			}
			if len(b.Succs) != 1 {
				return false
			}
			b = b.Succs[0]
		}
		return false
	}
	if !returnsVar(exit) || !returnsVar(match) {
		return
	}
	// nothing else anywhere in the helper
	for _, b := range g.Blocks {
		for _, in := range b.Instrs {
			switch x := in.(type) {
			case *ssa.DebugRef, *ssa.Jump, *ssa.Return, *ssa.If, *ssa.Phi:
			case *ssa.BinOp, *ssa.Index, *ssa.Convert:
				if b != head && b != test && b != miss {
					return
				}
			case *ssa.Call:
				if !isBuiltin(x, "len") || (b != head && b != test) {
					return
				}
			default:
				return
			}
		}
	}
	for _, b := range g.Blocks {
		if r, isRet := b.Instrs[len(b.Instrs)-1].(*ssa.Return); isRet && (len(r.Results) != 1 || r.Results[0] != ssa.Value(ph)) {
			return
		}
	}
	return sIdx, fromIdx, cIdx, true
}

// slotFunctionScanHelperIdiom decides R11.4 for a slot function that locates the braces with a search helper of
// the scanHelperShape form: s = h(key, 0, '{'), e = h(key, s+1, '}'). With L = len(key) the helper's contract gives
// 0 <= s <= L and, when s < L, s+1 <= e <= L (e = s+1 when s = L); "the key has a closed, non-empty tag" is exactly
// s < L && e < L && e > s+1. On every path to a return the comparisons the path passed (those between s, e, L and
// constants; a comparison that cannot be read is left out, which only makes the proof harder) must exclude a tag
// when the whole key is hashed, and establish it when key[s+1:e] is hashed. Entailment is decided by searching the
// models with L <= 40. That is enough: the facts read are difference constraints between s, e, L and 0 whose
// offsets are at most 2 on either side (a gap of at most 5 per constraint, at most three constraints in a chain:
// 15) and at most eight disequalities (each can push a value on by one); a satisfiable set of them has a model
// within that range, so "no model found" means "no model".
func slotFunctionScanHelperIdiom(r *core.Report, f *ssa.Function, key ssa.Value, cons string, argOf func(*ssa.Return) ssa.Value) (string, bool) {
	var sCall, eCall *ssa.Call
	var helper *ssa.Function
	nS, nE := 0, 0
	isPlus1 := func(v ssa.Value, of ssa.Value) bool {
		b, ok := v.(*ssa.BinOp)
		return ok && of != nil && b.Op == token.ADD && ((b.X == of && isConstInt(1)(b.Y)) || (b.Y == of && isConstInt(1)(b.X)))
	}
	for pass := 0; pass < 2; pass++ {
		for _, in := range core.OwnInstrs(f) {
			c, ok := in.(*ssa.Call)
			if !ok || c.Call.IsInvoke() || c.Call.StaticCallee() == nil {
				continue
			}
			g := c.Call.StaticCallee()
			si, fi, ci, shape := scanHelperShape(g)
			if !shape || len(c.Call.Args) != 3 || c.Call.Args[si] != key {
				continue
			}
			switch {
			case pass == 0 && isConstInt('{')(c.Call.Args[ci]) && isConstInt(0)(c.Call.Args[fi]):
				sCall, helper = c, g
				nS++
			case pass == 1 && sCall != nil && g == helper && isConstInt('}')(c.Call.Args[ci]) && isPlus1(c.Call.Args[fi], sCall):
				eCall = c
				nE++
			}
		}
	}
	if nS != 1 || nE != 1 || core.LoopHeadOf(sCall.Block()) != nil || core.LoopHeadOf(eCall.Block()) != nil {
		return "", false
	}
	// a term over s, e, L
	type term struct {
		v int // 0 constant, 1 s, 2 e, 3 L
		c int64
	}
	var termOf func(v ssa.Value, depth int) (term, bool)
	termOf = func(v ssa.Value, depth int) (term, bool) {
		v = core.Unwrap(v)
		switch {
		case v == ssa.Value(sCall):
			return term{1, 0}, true
		case v == ssa.Value(eCall):
			return term{2, 0}, true
		case isLenOf(v, key):
			return term{3, 0}, true
		}
		if k, ok := core.ConstInt(v); ok && k >= -2 && k <= 2 {
			return term{0, k}, true
		}
		if b, ok := v.(*ssa.BinOp); ok && depth < 2 && (b.Op == token.ADD || b.Op == token.SUB) {
			if k, isC := core.ConstInt(b.Y); isC && k >= -2 && k <= 2 {
				if t, ok := termOf(b.X, depth+1); ok && t.v != 0 {
					if b.Op == token.SUB {
						k = -k
					}
					if t.c+k >= -2 && t.c+k <= 2 {
						return term{t.v, t.c + k}, true
					}
				}
			}
			if k, isC := core.ConstInt(b.X); isC && b.Op == token.ADD && k >= -2 && k <= 2 {
				if t, ok := termOf(b.Y, depth+1); ok && t.v != 0 && t.c+k >= -2 && t.c+k <= 2 {
					return term{t.v, t.c + k}, true
				}
			}
		}
		return term{}, false
	}
	type fact struct {
		op   token.Token
		x, y term
	}
	val := func(t term, s, e, l int64) int64 {
		switch t.v {
		case 1:
			return s + t.c
		case 2:
			return e + t.c
		case 3:
			return l + t.c
		}
		return t.c
	}
	holds := func(fc fact, s, e, l int64) bool {
		a, b := val(fc.x, s, e, l), val(fc.y, s, e, l)
		switch fc.op {
		case token.EQL:
			return a == b
		case token.NEQ:
			return a != b
		case token.LSS:
			return a < b
		case token.LEQ:
			return a <= b
		case token.GTR:
			return a > b
		case token.GEQ:
			return a >= b
		}
		return true
	}
	// is there a model of the helper's contract and the facts in which the key has (tag=true) / has no (tag=false) tag?
	model := func(facts []fact, tag bool) bool {
		for l := int64(0); l <= 40; l++ {
			for s := int64(0); s <= l; s++ {
				eLo, eHi := s+1, l
				if s == l {
					eHi = s + 1
				}
				for e := eLo; e <= eHi; e++ {
					if (s < l && e < l && e > s+1) != tag {
						continue
					}
					all := true
					for _, fc := range facts {
						if !holds(fc, s, e, l) {
							all = false
							break
						}
					}
					if all {
						return true
					}
				}
			}
		}
		return false
	}
	core.Atomic[helper] = true // the helper is read by its contract: the paths do not walk through its loop
	defer delete(core.Atomic, helper)
	bad := ""
	var badPos token.Pos
	nWhole, nSlice := 0, 0
	okEnum := core.EnumPaths(f.Blocks[0], 0, 100000, func(p *core.Path) {
		ret, ok := p.End.(*ssa.Return)
		if !ok || bad != "" {
			return
		}
		arg := argOf(ret)
		if arg == nil {
			return
		}
		arg = p.Resolve(arg)
		var facts []fact
		nNeq := 0
		for _, fct := range p.Conds {
			c, isCmp := core.FactCmp(fct)
			if !isCmp {
				continue
			}
			x, okx := termOf(c.X, 0)
			y, oky := termOf(c.Y, 0)
			if okx && oky {
				if c.Op == token.NEQ {
					if nNeq++; nNeq > 8 {
						continue // left out (see above): fewer facts only make the proof harder
					}
				}
				facts = append(facts, fact{c.Op, x, y})
			}
		}
		if arg == key {
			nWhole++
			if model(facts, true) {
				bad, badPos = "the whole key is hashed on a path that does not exclude a closed, non-empty tag (first '{' found, first '}' after it found, at least one byte between them)", ret.Pos()
			}
			return
		}
		sl, isSl := arg.(*ssa.Slice)
		if !isSl || sl.X != key || sl.Low == nil || !isPlus1(sl.Low, sCall) || sl.High != ssa.Value(eCall) || sl.Max != nil {
			bad, badPos = "the hashed substring is not key[s+1:e] with s, e the positions the search helper found", ret.Pos()
			return
		}
		nSlice++
		if model(facts, false) {
			bad, badPos = "the tag is hashed on a path that did not establish: '{' found, '}' found after it, tag non-empty", ret.Pos()
		}
	})
	if !okEnum {
		r.Undecided(cons, f.Pos(), "too many paths")
		return "?", true
	}
	if bad != "" {
		r.Fail(cons, badPos, "%s", bad)
		return "bad", true
	}
	r.Check(nWhole > 0 && nSlice > 0, cons, f.Pos(), "expected both whole-key and tag returns (whole=%d tag=%d)", nWhole, nSlice)
	return "first{first}nonempty&16383", true
}
