package rules

import (
	"go/constant"
	"go/token"
	"go/types"

	"golang.org/x/tools/go/ssa"

	"gunyucheck/core"
)

// A small constant folder for pure predicates over an enumerated type
// (`func (m Mode) Valid() bool` and the like): the function's SSA is folded for
// one constant argument. Nothing of /repo is executed; the folder reads
// constants, comparisons, branches, phis, calls of other such functions and
// lookups in a package-level map whose content is a literal written once in the
// package initialiser. Anything else makes the result unknown.

type constTuple []interface{}

type constMapRef struct{ g *ssa.Global }

type constFolder struct {
	w     *core.World
	steps int
}

// foldCall folds f for constant arguments; ok is false when something in f is
// outside what the folder understands.
func (cf *constFolder) foldCall(f *ssa.Function, args []interface{}, depth int) (res []interface{}, ok bool) {
	if f == nil || len(f.Blocks) == 0 || depth > 6 || len(args) != len(f.Params) {
		return nil, false
	}
	env := map[ssa.Value]interface{}{}
	for i, p := range f.Params {
		env[p] = args[i]
	}
	val := func(v ssa.Value) (interface{}, bool) {
		if c, isC := v.(*ssa.Const); isC {
			if c.Value == nil {
				return nil, false
			}
			return c.Value, true
		}
		x, ok := env[v]
		return x, ok
	}
	cells := map[*ssa.Alloc]interface{}{}
	var prev *ssa.BasicBlock
	b := f.Blocks[0]
	for {
		var next *ssa.BasicBlock
		for _, in := range b.Instrs {
			cf.steps++
			if cf.steps > 20000 {
				return nil, false
			}
			switch x := in.(type) {
			case *ssa.DebugRef:
			case *ssa.Phi:
				found := false
				for i, pb := range b.Preds {
					if pb == prev {
						v, ok := val(x.Edges[i])
						if !ok {
							return nil, false
						}
						env[x] = v
						found = true
					}
				}
				if !found {
					return nil, false
				}
			case *ssa.BinOp:
				a, ok1 := val(x.X)
				c, ok2 := val(x.Y)
				ca, isA := a.(constant.Value)
				cb, isB := c.(constant.Value)
				if !ok1 || !ok2 || !isA || !isB {
					return nil, false
				}
				switch x.Op {
				case token.EQL, token.NEQ, token.LSS, token.LEQ, token.GTR, token.GEQ:
					if ca.Kind() != cb.Kind() {
						return nil, false
					}
					env[x] = constant.MakeBool(constant.Compare(ca, x.Op, cb))
				case token.ADD, token.SUB, token.MUL, token.AND, token.OR, token.XOR:
					if ca.Kind() != constant.Int || cb.Kind() != constant.Int {
						return nil, false
					}
					env[x] = constant.BinaryOp(ca, x.Op, cb)
				default:
					return nil, false
				}
			case *ssa.Alloc:
				// a local cell (results are spilled to one when the function defers something)
				cells[x] = nil
			case *ssa.Store:
				a, isA := x.Addr.(*ssa.Alloc)
				if _, known := cells[a]; !isA || !known {
					return nil, false
				}
				v, ok := val(x.Val)
				if !ok {
					return nil, false
				}
				cells[a] = v
			case *ssa.MakeClosure:
				// only as the operand of a defer that does nothing (below)
			case *ssa.Defer:
				if !deferDoesNothing(x) {
					return nil, false
				}
			case *ssa.RunDefers:
			case *ssa.UnOp:
				if a, isA := x.X.(*ssa.Alloc); isA && x.Op == token.MUL {
					v, known := cells[a]
					if !known || v == nil {
						return nil, false
					}
					env[x] = v
					continue
				}
				switch x.Op {
				case token.NOT:
					a, ok := val(x.X)
					ca, isC := a.(constant.Value)
					if !ok || !isC || ca.Kind() != constant.Bool {
						return nil, false
					}
					env[x] = constant.MakeBool(!constant.BoolVal(ca))
				case token.MUL:
					g, isG := x.X.(*ssa.Global)
					if !isG {
						return nil, false
					}
					env[x] = constMapRef{g}
				default:
					return nil, false
				}
			case *ssa.ChangeType:
				a, ok := val(x.X)
				if !ok {
					return nil, false
				}
				env[x] = a
			case *ssa.Convert:
				a, ok := val(x.X)
				if !ok {
					return nil, false
				}
				env[x] = a
			case *ssa.Lookup:
				m, ok := val(x.X)
				ref, isRef := m.(constMapRef)
				k, ok2 := val(x.Index)
				ck, isC := k.(constant.Value)
				if !ok || !isRef || !ok2 || !isC {
					return nil, false
				}
				content, known := cf.mapLiteral(ref.g)
				if !known {
					return nil, false
				}
				var hit interface{}
				for _, e := range content {
					if e.key.Kind() == ck.Kind() && constant.Compare(e.key, token.EQL, ck) {
						hit = e.val
					}
				}
				present := hit != nil
				if hit == nil {
					z, ok := zeroConstOf(x.X.Type())
					if !ok {
						return nil, false
					}
					hit = z
				}
				if x.CommaOk {
					env[x] = constTuple{hit, constant.MakeBool(present)}
				} else {
					env[x] = hit
				}
			case *ssa.Extract:
				t, ok := val(x.Tuple)
				tt, isT := t.(constTuple)
				if !ok || !isT || x.Index >= len(tt) {
					return nil, false
				}
				env[x] = tt[x.Index]
			case *ssa.Call:
				g := x.Call.StaticCallee()
				if g == nil || x.Call.IsInvoke() {
					return nil, false
				}
				var as []interface{}
				for _, a := range x.Call.Args {
					v, ok := val(a)
					if !ok {
						return nil, false
					}
					as = append(as, v)
				}
				rs, ok := cf.foldCall(g, as, depth+1)
				if !ok {
					return nil, false
				}
				if len(rs) == 1 {
					env[x] = rs[0]
				} else {
					env[x] = constTuple(rs)
				}
			case *ssa.If:
				c, ok := val(x.Cond)
				cc, isC := c.(constant.Value)
				if !ok || !isC || cc.Kind() != constant.Bool {
					return nil, false
				}
				if constant.BoolVal(cc) {
					next = b.Succs[0]
				} else {
					next = b.Succs[1]
				}
			case *ssa.Jump:
				next = b.Succs[0]
			case *ssa.Return:
				for _, rv := range x.Results {
					v, ok := val(rv)
					if !ok {
						return nil, false
					}
					res = append(res, v)
				}
				return res, true
			default:
				return nil, false
			}
		}
		if next == nil {
			return nil, false
		}
		prev, b = b, next
	}
}

func zeroConstOf(m types.Type) (interface{}, bool) {
	mt, ok := m.Underlying().(*types.Map)
	if !ok {
		return nil, false
	}
	b, ok := mt.Elem().Underlying().(*types.Basic)
	if !ok {
		return nil, false
	}
	switch {
	case b.Info()&types.IsBoolean != 0:
		return constant.MakeBool(false), true
	case b.Info()&types.IsInteger != 0:
		return constant.MakeInt64(0), true
	case b.Info()&types.IsString != 0:
		return constant.MakeString(""), true
	}
	return nil, false
}

type constMapEntry struct {
	key constant.Value
	val interface{}
}

// mapLiteral: the content of a package-level map that is built once, from
// constant keys and values, in the package initialiser and only read (looked
// up) everywhere else.
func (cf *constFolder) mapLiteral(g *ssa.Global) ([]constMapEntry, bool) {
	var mk *ssa.MakeMap
	for _, f := range cf.w.Funcs() {
		for _, in := range core.OwnInstrs(f) {
			for _, op := range in.Operands(nil) {
				if op == nil || *op != ssa.Value(g) {
					continue
				}
				switch x := in.(type) {
				case *ssa.UnOp:
					if x.Op != token.MUL {
						return nil, false
					}
					for _, rf := range *x.Referrers() {
						switch rf.(type) {
						case *ssa.Lookup, *ssa.DebugRef:
						default:
							return nil, false // ranged over, handed out or updated
						}
					}
				case *ssa.Store:
					if x.Addr != ssa.Value(g) || f.Name() != "init" {
						return nil, false
					}
				default:
					return nil, false
				}
			}
		}
	}
	// the initialiser is not among the analysed functions of the world: read it from the package
	if g.Pkg == nil {
		return nil, false
	}
	init := g.Pkg.Func("init")
	if init == nil {
		return nil, false
	}
	for _, b := range init.Blocks {
		for _, in := range b.Instrs {
			if st, ok := in.(*ssa.Store); ok && st.Addr == ssa.Value(g) {
				if mk != nil {
					return nil, false
				}
				m, isMk := st.Val.(*ssa.MakeMap)
				if !isMk {
					return nil, false
				}
				mk = m
			}
		}
	}
	if mk == nil {
		return nil, false
	}
	var out []constMapEntry
	for _, rf := range *mk.Referrers() {
		switch x := rf.(type) {
		case *ssa.MapUpdate:
			k, okK := x.Key.(*ssa.Const)
			v, okV := x.Value.(*ssa.Const)
			if !okK || !okV || k.Value == nil || v.Value == nil {
				return nil, false
			}
			out = append(out, constMapEntry{k.Value, v.Value})
		case *ssa.Store:
			if x.Addr != ssa.Value(g) {
				return nil, false
			}
		case *ssa.DebugRef:
		default:
			return nil, false
		}
	}
	return out, true
}

// foldPredicate folds a one-argument boolean function for a string constant.
func foldPredicate(w *core.World, f *ssa.Function, arg string) (res, known bool) {
	cf := &constFolder{w: w}
	rs, ok := cf.foldCall(f, []interface{}{constant.MakeString(arg)}, 0)
	if !ok || len(rs) != 1 {
		return false, false
	}
	c, isC := rs[0].(constant.Value)
	if !isC || c.Kind() != constant.Bool {
		return false, false
	}
	return constant.BoolVal(c), true
}

// tableKeys: the string keys of the package-level literal map f looks its
// argument up in (nil when f does no such lookup).
func tableKeys(w *core.World, f *ssa.Function) []string {
	cf := &constFolder{w: w}
	var out []string
	for _, g := range reachableFuncs(f) {
		for _, in := range core.OwnInstrs(g) {
			lk, ok := in.(*ssa.Lookup)
			if !ok {
				continue
			}
			ld, ok := lk.X.(*ssa.UnOp)
			if !ok {
				continue
			}
			gl, ok := ld.X.(*ssa.Global)
			if !ok {
				continue
			}
			content, known := cf.mapLiteral(gl)
			if !known {
				continue
			}
			for _, e := range content {
				if e.key.Kind() == constant.String {
					out = append(out, constant.StringVal(e.key))
				}
			}
		}
	}
	return out
}

// deferDoesNothing: the deferred call is a function literal without captured variables whose body is empty.
func deferDoesNothing(d *ssa.Defer) bool {
	var g *ssa.Function
	switch v := d.Call.Value.(type) {
	case *ssa.MakeClosure:
		if len(v.Bindings) != 0 {
			return false
		}
		g, _ = v.Fn.(*ssa.Function)
	case *ssa.Function:
		g = v
	}
	if g == nil || d.Call.IsInvoke() || len(d.Call.Args) != 0 || len(g.Blocks) != 1 {
		return false
	}
	for _, in := range g.Blocks[0].Instrs {
		switch in.(type) {
		case *ssa.Return, *ssa.DebugRef:
		default:
			return false
		}
	}
	return true
}
