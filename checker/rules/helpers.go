package rules

import (
	"go/ast"
	"go/constant"
	"go/token"
	"go/types"
	"strings"

	"gunyucheck/core"

	"golang.org/x/tools/go/packages"

	"golang.org/x/tools/go/ssa"
)

// fn resolves a module function or reports the anchor as unresolved.
func fn(w *core.World, r *core.Report, name string) *ssa.Function {
	f := w.Func(name)
	if f == nil {
		// folded into its only caller: the obligation is looked for there
		if c, ok := pinnedSoleCaller[name]; ok {
			if g := w.Func(c); g != nil {
				r.Analysed(c)
				return g
			}
		}
		r.Unresolved(name, "function %s not found in /repo (renamed or removed): the obligation cannot be located", name)
		return nil
	}
	r.Analysed(name)
	return f
}

// closureCalling finds the closures nested in f that contain a call whose
// callee name matches one of the patterns.
func closureCalling(f *ssa.Function, patterns ...string) []*ssa.Function {
	var out []*ssa.Function
	for _, c := range core.DeepFuncs(f)[1:] {
		if len(core.SitesNamed(c, false, patterns...)) > 0 {
			out = append(out, c)
		}
	}
	return out
}

// closureCallingFn finds closures nested in f that call callee directly.
func closureCallingFn(f *ssa.Function, callee *ssa.Function) []*ssa.Function {
	var out []*ssa.Function
	for _, c := range core.DeepFuncs(f)[1:] {
		for _, s := range core.Sites(c, false) {
			if s.Callee == callee {
				out = append(out, c)
				break
			}
		}
	}
	return out
}

// param returns the named parameter of f.
func param(f *ssa.Function, name string) *ssa.Parameter {
	for _, p := range f.Params {
		if p.Name() == name {
			return p
		}
	}
	return nil
}

// paramOf finds a parameter by its role, not by its name: the only parameter
// (receiver excluded) whose type ends in typeSuffix. Only when several
// parameters share the type is the name consulted as a tie-break.
func paramOf(f *ssa.Function, typeSuffix, nameHint string) *ssa.Parameter {
	var cands []*ssa.Parameter
	for i, p := range f.Params {
		if i == 0 && f.Signature.Recv() != nil {
			continue
		}
		if strings.HasSuffix(p.Type().String(), typeSuffix) {
			cands = append(cands, p)
		}
	}
	if len(cands) == 1 {
		return cands[0]
	}
	for _, p := range cands {
		if p.Name() == nameHint {
			return p
		}
	}
	return nil
}

// pkgConstInt reads an integer constant declared at package level.
func pkgConstInt(w *core.World, pkg, name string) (int64, bool) {
	p := w.Pkg(pkg)
	if p == nil {
		return 0, false
	}
	c, ok := p.Types.Scope().Lookup(name).(*types.Const)
	if !ok {
		return 0, false
	}
	return constant.Int64Val(c.Val())
}

// pkgConstString reads a string constant declared at package level.
func pkgConstString(w *core.World, pkg, name string) (string, bool) {
	p := w.Pkg(pkg)
	if p == nil {
		return "", false
	}
	c, ok := p.Types.Scope().Lookup(name).(*types.Const)
	if !ok || c.Val().Kind() != constant.String {
		return "", false
	}
	return constant.StringVal(c.Val()), true
}

// isConstInt builds a predicate matching integer constants equal to n.
func isConstInt(n int64) func(ssa.Value) bool {
	return func(v ssa.Value) bool {
		i, ok := core.ConstInt(v)
		return ok && i == n
	}
}

func isConstStr(s string) func(ssa.Value) bool {
	return func(v ssa.Value) bool {
		x, ok := core.ConstString(v)
		return ok && x == s
	}
}

// isResultOf matches Extract #idx of a call to a function with the short name
// (idx < 0: the call value itself).
func isResultOf(name string, idx int) func(ssa.Value) bool {
	return func(v ssa.Value) bool {
		v = core.Unwrap(v)
		if idx >= 0 {
			e, ok := v.(*ssa.Extract)
			if !ok || e.Index != idx {
				return false
			}
			v = e.Tuple
		}
		c, ok := v.(*ssa.Call)
		if !ok {
			return false
		}
		return core.MatchName(core.ResolveCall(c).Name, name)
	}
}

// fieldOf matches `X.name` where X satisfies base (Field on a struct value, or
// a load through FieldAddr).
func fieldOf(name string, base func(ssa.Value) bool) func(ssa.Value) bool {
	return func(v ssa.Value) bool {
		v = core.Unwrap(v)
		switch x := v.(type) {
		case *ssa.Field:
			return core.FieldName(x) == name && base(x.X)
		case *ssa.UnOp:
			if x.Op == token.MUL {
				if fa, ok := x.X.(*ssa.FieldAddr); ok {
					return core.FieldName(fa) == name && base(fa.X)
				}
			}
		}
		return false
	}
}

// selectRecv finds, in function f, the Select instruction that has a receive
// state on channel ch, and returns the extracted received value and ok flag.
func selectRecv(f *ssa.Function, isChan func(ssa.Value) bool) (sel *ssa.Select, state int, item ssa.Value) {
	for _, in := range core.Instrs(f) {
		s, ok := in.(*ssa.Select)
		if !ok {
			continue
		}
		ri := 0
		for k, st := range s.States {
			if st.Dir == types.RecvOnly {
				if isChan(st.Chan) {
					// tuple: (index, recvOk, r_0 ... r_n-1)
					for _, ref := range *s.Referrers() {
						if e, ok := ref.(*ssa.Extract); ok && e.Index == 2+ri {
							return s, k, e
						}
					}
					return s, k, nil
				}
				ri++
			}
		}
	}
	return nil, 0, nil
}

// caseBlock returns the block entered when select state k is chosen.
func caseBlock(sel *ssa.Select, k int) *ssa.BasicBlock {
	var idx ssa.Value
	for _, ref := range *sel.Referrers() {
		if e, ok := ref.(*ssa.Extract); ok && e.Index == 0 {
			idx = e
		}
	}
	if idx == nil {
		return nil
	}
	for _, ref := range *idx.Referrers() {
		b, ok := ref.(*ssa.BinOp)
		if !ok || b.Op != token.EQL {
			continue
		}
		if n, ok := core.ConstInt(b.Y); ok && int(n) == k {
			for _, r2 := range *b.Referrers() {
				if iff, ok := r2.(*ssa.If); ok {
					return iff.Block().Succs[0]
				}
			}
		}
	}
	return nil
}

// isParam matches a parameter (directly, or loaded from the cell a captured
// parameter was spilled to).
func isParam(p *ssa.Parameter) func(ssa.Value) bool {
	return func(v ssa.Value) bool {
		if p == nil {
			return false
		}
		ok := true
		n := 0
		for _, l := range core.Leaves(v) {
			n++
			if l != ssa.Value(p) {
				ok = false
			}
		}
		return ok && n > 0
	}
}

// astCompositeStrings collects the string literals of a package-level
// composite literal variable (slice or map keys).
func astCompositeStrings(w *core.World, pkg, varName string, keys bool) ([]string, token.Pos, bool) {
	p := w.Pkg(pkg)
	if p == nil {
		return nil, token.NoPos, false
	}
	for _, f := range p.Syntax {
		for _, d := range f.Decls {
			gd, ok := d.(*ast.GenDecl)
			if !ok {
				continue
			}
			for _, sp := range gd.Specs {
				vs, ok := sp.(*ast.ValueSpec)
				if !ok {
					continue
				}
				for i, n := range vs.Names {
					if n.Name != varName || i >= len(vs.Values) {
						continue
					}
					cl, ok := vs.Values[i].(*ast.CompositeLit)
					if !ok {
						return nil, n.Pos(), false
					}
					var out []string
					for _, e := range cl.Elts {
						x := e
						if kv, ok := e.(*ast.KeyValueExpr); ok {
							if keys {
								x = kv.Key
							} else {
								x = kv.Value
							}
						}
						tv, ok := p.TypesInfo.Types[x]
						if !ok || tv.Value == nil || tv.Value.Kind() != constant.String {
							return nil, n.Pos(), false
						}
						out = append(out, constant.StringVal(tv.Value))
					}
					return out, n.Pos(), true
				}
			}
		}
	}
	return nil, token.NoPos, false
}

func lowerSet(ss []string) map[string]bool {
	m := map[string]bool{}
	for _, s := range ss {
		m[strings.ToLower(s)] = true
	}
	return m
}

// inLoop reports whether block b belongs to the loop headed by head.
func inLoop(b, head *ssa.BasicBlock) bool {
	if head == nil || !head.Dominates(b) {
		return false
	}
	// b is in the loop when head is reachable from b
	seen := map[*ssa.BasicBlock]bool{}
	work := []*ssa.BasicBlock{b}
	for len(work) > 0 {
		x := work[len(work)-1]
		work = work[:len(work)-1]
		if seen[x] {
			continue
		}
		seen[x] = true
		for _, s := range x.Succs {
			if s == head {
				return true
			}
			if head.Dominates(s) {
				work = append(work, s)
			}
		}
	}
	return false
}

// mapLiteralInts reads a package-level map[string]<int const> literal.
func mapLiteralInts(w *core.World, pkg, varName string) map[string]int64 {
	out := map[string]int64{}
	p := w.Pkg(pkg)
	if p == nil {
		return out
	}
	for _, f := range p.Syntax {
		for _, d := range f.Decls {
			gd, ok := d.(*ast.GenDecl)
			if !ok {
				continue
			}
			for _, sp := range gd.Specs {
				vs, ok := sp.(*ast.ValueSpec)
				if !ok {
					continue
				}
				for i, n := range vs.Names {
					if n.Name != varName || i >= len(vs.Values) {
						continue
					}
					cl, ok := vs.Values[i].(*ast.CompositeLit)
					if !ok {
						return out
					}
					for _, e := range cl.Elts {
						kv, ok := e.(*ast.KeyValueExpr)
						if !ok {
							continue
						}
						k, v := p.TypesInfo.Types[kv.Key], p.TypesInfo.Types[kv.Value]
						if k.Value == nil || v.Value == nil {
							continue
						}
						if iv, ok := constant.Int64Val(v.Value); ok {
							out[strings.ToLower(constant.StringVal(k.Value))] = iv
						}
					}
				}
			}
		}
	}
	return out
}

// lastDecisionPos is the source position of the last branch condition a path took.
func lastDecisionPos(p *core.Path) token.Pos {
	for i := len(p.Conds) - 1; i >= 0; i-- {
		if pos := p.Conds[i].Cond.Pos(); pos.IsValid() {
			return pos
		}
		if ins, ok := p.Conds[i].Cond.(ssa.Instruction); ok {
			for _, op := range ins.Operands(nil) {
				if *op != nil && (*op).Pos().IsValid() {
					return (*op).Pos()
				}
			}
		}
	}
	return token.NoPos
}

// switchCasesOn collects, for every switch under root whose tag is a selector
// expression ending in .field, the string constants of its case clauses.
func switchCasesOn(p *packages.Package, root ast.Node, field string) [][]string {
	var out [][]string
	ast.Inspect(root, func(n ast.Node) bool {
		sw, ok := n.(*ast.SwitchStmt)
		if !ok || sw.Tag == nil {
			return true
		}
		se, ok := sw.Tag.(*ast.SelectorExpr)
		if !ok || se.Sel.Name != field {
			return true
		}
		var cs []string
		for _, cl := range sw.Body.List {
			for _, e := range cl.(*ast.CaseClause).List {
				if tv, ok := p.TypesInfo.Types[e]; ok && tv.Value != nil && tv.Value.Kind() == constant.String {
					cs = append(cs, constant.StringVal(tv.Value))
				}
			}
		}
		out = append(out, cs)
		return true
	})
	return out
}

// ruleRetryHelper checks a retry wrapper `func(…, f func() error, …) error`
// on all of its paths: nil is returned only when the last attempt returned
// nil (or no attempt was made); otherwise the result is the last attempt's
// error or the context's error. A wrapper that loses the error of the last
// failed attempt turns "gave up" into "succeeded".
func ruleRetryHelper(w *core.World, r *core.Report, name string) {
	f := fn(w, r, name)
	if f == nil {
		return
	}
	var fpar ssa.Value
	for _, p := range f.Params {
		if sig, ok := p.Type().Underlying().(*types.Signature); ok && sig.Params().Len() == 0 && sig.Results().Len() == 1 {
			fpar = p
		}
	}
	if fpar == nil {
		r.Undecided(shortName(name)+"/propagates-last-failure", f.Pos(), "no attempt callback parameter found")
		return
	}
	bad := ""
	var badPos token.Pos
	n := 0
	core.EnumPathsN(f.Blocks[0], 0, 100000, core.Unroll, func(p *core.Path) {
		ret, ok := p.End.(*ssa.Return)
		if !ok || len(ret.Results) != 1 || bad != "" {
			return
		}
		n++
		var last *ssa.Call
		for _, in := range p.Instrs {
			if c, ok := in.(*ssa.Call); ok && c.Call.Value == fpar {
				last = c
			}
		}
		var vals []ssa.Value
		for _, v := range core.RetVals(ret, 0) {
			vals = append(vals, p.Resolve(v))
		}
		if len(vals) == 0 {
			vals = []ssa.Value{p.Resolve(ret.Results[0])}
		}
		for _, v := range vals {
			v = core.Unwrap(v)
			if last == nil {
				continue // no attempt on this path
			}
			if v == ssa.Value(last) {
				continue
			}
			if c, ok := v.(*ssa.Call); ok && c.Call.IsInvoke() && c.Call.Method.Name() == "Err" {
				continue // the context's error
			}
			if core.IsNilConst(v) {
				// allowed only when the last attempt is known to have succeeded
				succeeded := false
				for _, fct := range p.Conds {
					c, ok := core.FactCmp(fct)
					if ok && c.Op == token.EQL && core.Unwrap(p.Resolve(c.X)) == ssa.Value(last) && core.IsNilConst(c.Y) {
						succeeded = true
					}
				}
				if succeeded {
					continue
				}
				bad, badPos = "nil is returned on a path whose last attempt failed (or was not tested): the caller takes a failed operation for a successful one", ret.Pos()
				continue
			}
			if ph, ok := v.(*ssa.Phi); ok {
				// a loop-carried error variable: every non-nil-constant edge must be an attempt's result
				okPhi := true
				for _, e := range ph.Edges {
					e = core.Unwrap(e)
					if c, ok := e.(*ssa.Call); ok && c.Call.Value == fpar {
						continue
					}
					if core.IsNilConst(e) || e == ssa.Value(ph) {
						continue
					}
					if _, isPhi := e.(*ssa.Phi); isPhi {
						continue
					}
					okPhi = false
				}
				if okPhi {
					continue
				}
			}
			bad, badPos = "the result is neither the last attempt's error nor the context's error: "+v.String(), ret.Pos()
		}
	})
	r.Check(bad == "" && n > 0, shortName(name)+"/propagates-last-failure", badPos, "%s", bad)
}

// Path enumeration steps into a callee only when the rule base does not know
// it: a named function that did not exist on the tree the rules were written
// against (pinned_gen.go), or a small closure that is called directly and
// that no rule treats as an event of its own (core.Atomic). Such a function is
// what a refactoring produces when it extracts a few statements; analysing it
// as part of its caller keeps the path rules independent of how the code is
// cut into functions. Everything the rules name keeps being one event.
func init() {
	core.Pinned = pinnedFunctions
	// sizes are non-negative: a field (or an atomic counter field) that holds a size
	core.NonNegative = func(v ssa.Value) bool {
		name := ""
		switch x := v.(type) {
		case *ssa.Field:
			name = core.FieldName(x)
		case *ssa.UnOp:
			if fa, ok := x.X.(*ssa.FieldAddr); ok && x.Op == token.MUL {
				name = core.FieldName(fa)
			}
		case *ssa.Call:
			if c := x.Common(); !c.IsInvoke() && len(c.Args) == 1 {
				if f := c.StaticCallee(); f != nil && f.Name() == "Load" && f.Pkg != nil && f.Pkg.Pkg.Path() == "sync/atomic" {
					if fa, ok := c.Args[0].(*ssa.FieldAddr); ok {
						name = core.FieldName(fa)
					}
				}
			}
		}
		return strings.Contains(strings.ToLower(name), "size")
	}
	core.InlinePolicy = func(call *ssa.Call, callee *ssa.Function) bool {
		root := callee
		for root.Parent() != nil {
			root = root.Parent()
		}
		if root.Pkg == nil || !strings.HasPrefix(root.Pkg.Pkg.Path(), core.ModulePath) {
			return false
		}
		if callee.Parent() != nil {
			return len(callee.Blocks) <= 24
		}
		name := core.FuncName(callee)
		if o := callee.Origin(); o != nil {
			name = core.FuncName(o)
		}
		_, pinned := pinnedFunctions[name]
		return !pinned && !core.MatchName(name, knownFunctions...) && len(callee.Blocks) <= 60
	}
	// the flow-insensitive helpers expand the same functions when they have a single call site
	core.Transparent = func(callee *ssa.Function) bool {
		return core.InlinePolicy(nil, callee)
	}
}

// calledOnlyFrom: g has call sites in the module, all of them in the named
// function (or in helpers that are themselves called only from it).
func calledOnlyFrom(w *core.World, g *ssa.Function, owner string) bool {
	return calledOnlyFromDepth(w, g, owner, 3)
}

func calledOnlyFromDepth(w *core.World, g *ssa.Function, owner string, depth int) bool {
	if depth == 0 {
		return false
	}
	found := false
	for _, f := range w.Funcs() {
		for _, s := range core.Sites(f, false) {
			if s.Callee != g {
				continue
			}
			root := f
			for root.Parent() != nil {
				root = root.Parent()
			}
			if core.FuncName(root) != owner && !calledOnlyFromDepth(w, root, owner, depth-1) {
				return false
			}
			found = true
		}
	}
	return found
}

// ---------------------------------------------------------------- ordering decisions

// orderingTable decides a "keep the best of a sequence" loop by cases. The
// loop compares a candidate with the best so far in two dimensions A and B
// (for instance offset and modification time); classify names a value as
// "cA", "bA", "cB", "bB" (candidate/best × dimension) or "". For each of the
// nine sign combinations of (cA ? bA, cB ? bB) the result tells whether some
// path of one iteration that replaces the best (isReplace matches an
// instruction on it) is consistent with the combination. Values are touched
// through comparisons only, so the nine cases are exhaustive.
func orderingTable(head *ssa.BasicBlock, isReplace func(ssa.Instruction) bool, classify func(p *core.Path, v ssa.Value) string) (replaced [3][3]bool, paths int, ok bool) {
	return orderingTableP(head, func(p *core.Path) bool {
		for _, in := range p.Instrs {
			if isReplace(in) {
				return true
			}
		}
		return false
	}, classify)
}

// orderingTableP is orderingTable with the replacement recognised on the whole path.
func orderingTableP(head *ssa.BasicBlock, replaces func(p *core.Path) bool, classify func(p *core.Path, v ssa.Value) string) (replaced [3][3]bool, paths int, ok bool) {
	sign := func(op token.Token, s int) bool { // does "cand op best" hold when cand ? best has sign s (0:<, 1:=, 2:>)
		switch op {
		case token.LSS:
			return s == 0
		case token.LEQ:
			return s <= 1
		case token.EQL:
			return s == 1
		case token.NEQ:
			return s != 1
		case token.GEQ:
			return s >= 1
		case token.GTR:
			return s == 2
		}
		return true
	}
	flip := map[token.Token]token.Token{token.LSS: token.GTR, token.LEQ: token.GEQ, token.GTR: token.LSS, token.GEQ: token.LEQ, token.EQL: token.EQL, token.NEQ: token.NEQ}
	ok = core.EnumPathsN(head, 0, 200000, 1, func(p *core.Path) {
		if !p.Closed {
			return
		}
		if !replaces(p) {
			return
		}
		paths++
		type cons struct {
			dim string
			op  token.Token
		}
		var cs []cons
		for _, fct := range p.Conds {
			c, isCmp := core.AsCmp(p.Resolve(fct.Cond), fct.Val)
			if !isCmp {
				continue
			}
			kx, ky := classify(p, c.X), classify(p, c.Y)
			if kx == "" || ky == "" || kx[1:] != ky[1:] || kx[0] == ky[0] {
				continue
			}
			op := c.Op
			if kx[0] == 'b' {
				op = flip[op]
			}
			cs = append(cs, cons{kx[1:], op})
		}
		for a := 0; a < 3; a++ {
			for b := 0; b < 3; b++ {
				sat := true
				for _, c := range cs {
					s := a
					if c.dim == "B" {
						s = b
					}
					if !sign(c.op, s) {
						sat = false
					}
				}
				if sat {
					replaced[a][b] = true
				}
			}
		}
	})
	return
}


// reachableFuncs: root, its closures, and every function of the same package it
// calls statically or refers to as a value (a callback handed to a library
// function, a bound method), transitively.
func reachableFuncs(root *ssa.Function) []*ssa.Function {
	pkgOf := func(f *ssa.Function) *ssa.Package {
		for f.Parent() != nil {
			f = f.Parent()
		}
		if f.Pkg != nil {
			return f.Pkg
		}
		// a synthetic wrapper (bound method): the package of the method it wraps
		for _, b := range f.Blocks {
			for _, in := range b.Instrs {
				if c, ok := in.(ssa.CallInstruction); ok {
					if g := c.Common().StaticCallee(); g != nil && g.Pkg != nil {
						return g.Pkg
					}
				}
			}
		}
		return nil
	}
	home := pkgOf(root)
	seen := map[*ssa.Function]bool{root: true}
	out := []*ssa.Function{root}
	add := func(g *ssa.Function) {
		if g == nil || seen[g] || len(g.Blocks) == 0 || pkgOf(g) != home {
			return
		}
		seen[g] = true
		out = append(out, g)
	}
	for i := 0; i < len(out); i++ {
		f := out[i]
		for _, a := range f.AnonFuncs {
			add(a)
		}
		for _, b := range f.Blocks {
			for _, in := range b.Instrs {
				if c, ok := in.(ssa.CallInstruction); ok {
					add(c.Common().StaticCallee())
				}
				for _, op := range in.Operands(nil) {
					if op == nil || *op == nil {
						continue
					}
					switch v := (*op).(type) {
					case *ssa.Function:
						add(v)
					case *ssa.MakeClosure:
						if g, ok := v.Fn.(*ssa.Function); ok {
							add(g)
						}
					}
				}
			}
		}
	}
	return out
}


// argValues: v itself, or, when v is a parameter of a closure nested in top (or of a helper the
// pinned tree does not have), the values passed in that position at every call of it inside top.
func argValues(v ssa.Value, top *ssa.Function) []ssa.Value {
	par, ok := v.(*ssa.Parameter)
	if !ok {
		par, ok = core.Unwrap(v).(*ssa.Parameter)
	}
	if !ok || par.Parent() == nil || par.Parent() == top {
		return []ssa.Value{v}
	}
	if par.Parent().Parent() == nil && !(core.Transparent != nil && core.Transparent(par.Parent())) {
		return []ssa.Value{v}
	}
	g := par.Parent()
	k := -1
	for i, q := range g.Params {
		if q == par {
			k = i
		}
	}
	var out []ssa.Value
	scan := func(h *ssa.Function) {
		for _, in := range core.OwnInstrs(h) {
			ci, isCall := in.(ssa.CallInstruction)
			if !isCall {
				continue
			}
			s := core.ResolveCall(ci)
			if s.Callee == g && k < len(s.Common().Args) {
				out = append(out, s.Common().Args[k])
			}
		}
	}
	seen := map[*ssa.Function]bool{}
	for _, h := range core.DeepFuncs(top) {
		seen[h] = true
		scan(h)
	}
	if len(out) == 0 && g.Parent() == nil {
		// a helper called from another helper of top
		for _, h := range reachableFuncs(top) {
			for _, d := range core.DeepFuncs(h) {
				if !seen[d] {
					seen[d] = true
					scan(d)
				}
			}
		}
	}
	if len(out) == 0 {
		return []ssa.Value{v}
	}
	return out
}


// liveBlocks: the blocks of f from which an instruction satisfying pred can still be reached; an
// instruction inside a helper the pinned tree does not have counts at the helper's call site.
func liveBlocks(f *ssa.Function, pred func(ssa.Instruction) bool) map[*ssa.BasicBlock]bool {
	reach := map[*ssa.Function]bool{}
	var has func(g *ssa.Function, depth int) bool
	has = func(g *ssa.Function, depth int) bool {
		if v, ok := reach[g]; ok {
			return v
		}
		reach[g] = false
		for _, b := range g.Blocks {
			for _, in := range b.Instrs {
				if pred(in) {
					reach[g] = true
					return true
				}
				if c, ok := in.(*ssa.Call); ok && depth > 0 {
					if h := c.Call.StaticCallee(); h != nil && len(h.Blocks) > 0 && core.Transparent != nil && core.Transparent(h) && has(h, depth-1) {
						reach[g] = true
						return true
					}
				}
			}
		}
		return false
	}
	live := map[*ssa.BasicBlock]bool{}
	for _, b := range f.Blocks {
		for _, in := range b.Instrs {
			if pred(in) {
				live[b] = true
			}
			if c, ok := in.(*ssa.Call); ok {
				if h := c.Call.StaticCallee(); h != nil && len(h.Blocks) > 0 && core.Transparent != nil && core.Transparent(h) && has(h, 3) {
					live[b] = true
				}
			}
		}
	}
	for changed := true; changed; {
		changed = false
		for _, b := range f.Blocks {
			if live[b] {
				continue
			}
			for _, sc := range b.Succs {
				if live[sc] {
					live[b], changed = true, true
				}
			}
		}
	}
	return live
}


// unconditionalIn: the instruction runs on every normal execution of f: no branch outcome other than
// "the loop it sits in has another element" dominates it, and when it sits in a helper of the package
// the same holds for the helper's call (up to three levels).
func unconditionalIn(w *core.World, f *ssa.Function, in ssa.Instruction, depth int) bool {
	for _, fct := range core.FactsAt(in.Block()) {
		if fct.If != nil && core.LoopHeadOf(fct.If.Block()) == fct.If.Block() {
			continue // the own test of a loop the instruction sits in, or comes after
		}
		return false
	}
	if in.Parent() == f {
		return true
	}
	if depth == 0 {
		return false
	}
	if in.Parent().Parent() != nil {
		return false
	}
	cs := callSitesOf(w, in.Parent())
	if len(cs) == 0 {
		return false
	}
	for _, c := range cs {
		if !unconditionalIn(w, f, c, depth-1) {
			return false
		}
	}
	return true
}
