package rules

import (
	"fmt"
	"go/constant"
	"go/token"
	"go/types"
	"os"
	"strings"

	"gunyucheck/core"

	"golang.org/x/tools/go/ssa"
)

func init() {
	All["C16"] = c16
	core.Explanations["C16"] = "Decides necessary structural conditions of 'a follower's cache is a faithful copy of the leader's stream': " +
		"(R16.1) the leader sends data only on the edge where the follower's id is the leader's current id and the follower is not ahead; (R16.2) 'ahead' compares the offset the follower sent with the leader's newest offset, and that branch sends HANDOVER and returns the hand-over error without data; " +
		"(R16.3) the requested offset is replaced by the leader's newest only when it is not a valid cache offset; (R16.4) every CONTINUE frame carries offset+n and the running offset advances by exactly n; (R16.5) the follower's writers start at the offset / size of the META frame they were given; " +
		"(R16.6) clear-before-discontinuity: on every path the snapshot writer is created after DelRunId ≺ SetRunId, and the log writer after a DelRunId unless the leader's data starts at or before the follower's position; (R16.7) every refusal code (all enum values other than META/CONTINUE) maps to a non-nil error on every path of the follower's response handler; " +
		"(R16.8) a refusal frame ends the exchange: every handleError call of the leader is given a non-nil error and its result is returned. Not decided: byte identity of the copies; behaviour over all cache-state pairs."
}

func c16(w *core.World, r *core.Report) {
	h := fn(w, r, "(*syncer.ReplicaLeader).Handle")
	sd := fn(w, r, "(*syncer.ReplicaLeader).sendData")

	r.Rule("R16.1", "data is sent only for the leader's current id and a follower that is not ahead", 1)
	r.Rule("R16.2", "hand-over: compares the follower's own offset with the leader's newest; sends HANDOVER and returns the hand-over error, no data", 1)
	if h != nil {
		ruleHandleGuards(w, r, h)
	}
	r.Rule("R16.3", "requested offset replaced by the leader's newest only when invalid", 1)
	r.Rule("R16.4", "CONTINUE frames carry offset+n; the running offset advances by n", 2)
	if sd != nil {
		ruleSendData(w, r, sd)
	}
	r.Rule("R16.5", "follower writers start at the META frame's offset and size", 2)
	r.Rule("R16.6", "clear-before-discontinuity on every path of rdbSync / aofSync", 2)
	ruleFollowerWriters(w, r)
	r.Rule("R08.2", "after a restart the follower's store offers only what was completely received: the directory scan ignores temporary snapshots and empty segments (shared with C08)", 3)
	ruleScan(w, r)
	r.Rule("R08.3", "what the follower holds after a restart is contiguous: gap truncation keeps the newest run and drops a snapshot the log does not continue (shared with C08)", 3)
	r.Rule("R08.6", "contiguity includes the snapshot/log joint (shared with C08)", 1)
	ruleTruncateGap(w, r)
	r.Rule("R16.11", "the leader's id is adopted only for a copy known to be its prefix: a copy held under another id that does not end at the leader's offset is discarded before the re-labelling, not after a data request that may fail", 1)
	ruleRelabelOnlyAPrefix(w, r)
	r.Rule("R16.9", "a follower that is ahead keeps its copy: before talking to the leader it discards only when it is behind", 1)
	ruleFollowerAheadKeepsCopy(w, r)
	r.Rule("R16.7", "every refusal code maps to a non-nil error in the follower's response handler (all paths)", 5)
	ruleHandleResp(w, r)
	r.Rule("R16.8", "a refusal frame ends the exchange on the leader (handleError given a non-nil error, result returned)", 4)
	ruleRefusalEnds(w, r)
	r.Rule("R05.10", "the leader's cache stays contiguous under collection: a snapshot kept while its first log segment is collected is served to a follower again and again (shared with C05)", 3)
	ruleJointUnderGc(w, r)
	r.Rule("R16.12", "the handshake frame answers only a follower that named no replication id", 1)
	ruleHandshakeOnlyForNewFollower(w, r)
	r.Rule("R06.8", "the follower's disk cache re-reads its directory whenever the leader's id is (re)confirmed: a snapshot whose transfer broke off is not reported to the leader as held (shared with C06; seed C16-14)", 2)
	ruleCacheRefreshed(w, r)
}

func isReqGetter(name string) func(ssa.Value) bool {
	return func(v ssa.Value) bool {
		c, ok := core.Unwrap(v).(*ssa.Call)
		return ok && strings.HasSuffix(core.ResolveCall(c).Name, "SyncRequest)."+name)
	}
}

func ruleHandleGuards(w *core.World, r *core.Report, h *ssa.Function) {
	var send core.Site
	for _, s := range core.SitesNamed(h, false, "(*syncer.ReplicaLeader).sendData") {
		send = s
	}
	if send.Instr == nil {
		r.Rule("R16.1", "", 1)
		r.Fail("Handle/sendData", h.Pos(), "data transfer call not found")
		return
	}
	isLeaderSp := func(v ssa.Value) bool {
		return fieldOf("Offset", func(b ssa.Value) bool {
			return core.DependsOn(b, func(x ssa.Value) bool {
				c, ok := x.(*ssa.Call)
				return ok && c.Call.IsInvoke() && c.Call.Method.Name() == "StartPoint"
			})
		})(v)
	}
	idOK, notAhead := false, false
	for _, fct := range core.FactsAt(send.Instr.Block()) {
		c, ok := core.FactCmp(fct)
		if !ok {
			continue
		}
		if c.Op == token.EQL && (isReqRunId(c.X) || isReqRunId(c.Y)) {
			other := c.X
			if isReqRunId(c.X) {
				other = c.Y
			}
			// other is inputRunIds[0]
			if ld, ok := core.Unwrap(other).(*ssa.UnOp); ok {
				if ia, ok := ld.X.(*ssa.IndexAddr); ok && isConstInt(0)(ia.Index) {
					idOK = true
				}
			}
		}
		if c.Op == token.LEQ && isConstInt(0)(c.Y) {
			if sub, ok := core.Unwrap(c.X).(*ssa.BinOp); ok && sub.Op == token.SUB && isReqGetter("GetOffset")(sub.X) && isLeaderSp(sub.Y) {
				notAhead = true
			}
		}
		if c.Op == token.LEQ && isReqGetter("GetOffset")(c.X) && isLeaderSp(c.Y) {
			notAhead = true
		}
	}
	r.Rule("R16.1", "", 1)
	r.Check(idOK && notAhead, "Handle/sendData-guards", send.Pos(), "data must be sent only when the follower's run id equals the leader's current id (id=%v) and the offset the follower sent is not beyond the leader's newest offset (not-ahead=%v; the comparison must use the follower's own offset, not one already replaced by the leader's)", idOK, notAhead)

	// R16.2: the path that assumed 'ahead' sends HANDOVER and returns ErrLeaderHandover
	r.Rule("R16.2", "", 1)
	handover, _ := pbCode(w, "SyncResponse_HANDOVER")
	bad := ""
	var badPos token.Pos
	n := 0
	core.EnumPaths(h.Blocks[0], 0, 100000, func(p *core.Path) {
		ret, ok := p.End.(*ssa.Return)
		if !ok || bad != "" {
			return
		}
		ahead := false
		for _, fct := range p.Conds {
			c, ok := core.FactCmp(fct)
			if ok && c.Op == token.GTR && isConstInt(0)(c.Y) {
				if sub, ok := core.Unwrap(c.X).(*ssa.BinOp); ok && sub.Op == token.SUB && isReqGetter("GetOffset")(sub.X) {
					ahead = true
				}
			}
		}
		if !ahead {
			return
		}
		n++
		sentHandover, sentData := false, false
		for _, s := range pathSites(p) {
			if s.Method == "Send" && s.Common().IsInvoke() {
				if code, ok := frameCode(s.Args()[0]); ok && code == handover {
					sentHandover = true
				}
			}
			if s.Name == "(*syncer.ReplicaLeader).sendData" {
				sentData = true
			}
		}
		isHandoverErr := false
		for _, rv := range core.RetVals(ret, 0) {
			if ld, ok := p.Resolve(rv).(*ssa.UnOp); ok {
				if g, ok := ld.X.(*ssa.Global); ok && g.Name() == "ErrLeaderHandover" {
					isHandoverErr = true
				}
			}
			if !core.IsNilConst(p.Resolve(rv)) && failedSendOnPath(p) {
				isHandoverErr = true // the HANDOVER frame could not be sent: that error is returned
			}
		}
		if sentData || !sentHandover || !isHandoverErr {
			bad, badPos = "a follower that is ahead of the leader must be offered leadership (HANDOVER frame, hand-over error) and must not be sent data that would overwrite what it holds", ret.Pos()
		}
	})
	if n == 0 && bad == "" {
		bad = "no path tests 'offset sent by the follower - leader's newest offset > 0': a follower that is ahead is never offered leadership"
	}
	r.Check(bad == "" && n > 0, "Handle/handover-branch", badPos, "%s (paths=%d)", bad, n)
}

func failedSendOnPath(p *core.Path) bool {
	for _, s := range pathSites(p) {
		if s.Method == "Send" && s.Common().IsInvoke() && failedOn(p, s.Value()) {
			return true
		}
	}
	return false
}

func isReqRunId(v ssa.Value) bool {
	c, ok := core.Unwrap(v).(*ssa.Call)
	return ok && strings.HasSuffix(core.ResolveCall(c).Name, "Node).GetRunId")
}

func pbCode(w *core.World, name string) (int64, bool) {
	for path, p := range w.ByPth {
		if !strings.HasSuffix(path, "pkg/api/golang") {
			continue
		}
		if c, ok := p.Types.Scope().Lookup(name).(*types.Const); ok {
			return constant.Int64Val(c.Val())
		}
	}
	return 0, false
}

// frameCode reads the Code field of a &pb.SyncResponse{...} literal.
// frameAlloc: the frame literal behind v, and, when a constructor helper of the package builds it
// (`return &pb.SyncResponse{…}` as its only return), the helper's parameters mapped to the call's arguments.
func frameAlloc(v ssa.Value) (*ssa.Alloc, map[ssa.Value]ssa.Value) {
	v = core.Unwrap(v)
	if a, ok := v.(*ssa.Alloc); ok {
		return a, nil
	}
	c, ok := v.(*ssa.Call)
	if !ok {
		return nil, nil
	}
	g := c.Call.StaticCallee()
	if g == nil || len(g.Blocks) == 0 || len(g.Params) != len(c.Call.Args) {
		return nil, nil
	}
	var a *ssa.Alloc
	for _, in := range core.OwnInstrs(g) {
		ret, isRet := in.(*ssa.Return)
		if !isRet {
			continue
		}
		ra, isA := core.Unwrap(ret.Results[0]).(*ssa.Alloc)
		if len(ret.Results) != 1 || !isA || (a != nil && a != ra) {
			return nil, nil
		}
		a = ra
	}
	if a == nil {
		return nil, nil
	}
	sub := map[ssa.Value]ssa.Value{}
	for i, p := range g.Params {
		sub[p] = c.Call.Args[i]
	}
	return a, sub
}

func frameCode(v ssa.Value) (int64, bool) {
	a, _ := frameAlloc(v)
	ok := a != nil
	if !ok {
		return 0, false
	}
	for _, ref := range *a.Referrers() {
		fa, ok := ref.(*ssa.FieldAddr)
		if !ok || core.FieldName(fa) != "Code" {
			continue
		}
		for _, rr := range *fa.Referrers() {
			if st, ok := rr.(*ssa.Store); ok {
				return core.ConstInt(st.Val)
			}
		}
	}
	return 0, true // zero value: META
}

func frameField(v ssa.Value, name string) ssa.Value {
	a, sub := frameAlloc(v)
	ok := a != nil
	if !ok {
		return nil
	}
	_ = sub
	for _, ref := range *a.Referrers() {
		fa, ok := ref.(*ssa.FieldAddr)
		if !ok || core.FieldName(fa) != name {
			continue
		}
		for _, rr := range *fa.Referrers() {
			if st, ok := rr.(*ssa.Store); ok {
				// a field the helper fills with one of its parameters is what the caller handed in
				if arg, isPar := sub[core.Unwrap(st.Val)]; isPar {
					return arg
				}
				return st.Val
			}
		}
	}
	return nil
}

// ruleMetaFrame (R16.10): the META frame tells the follower what it is about to receive and where it
// belongs: the follower names the snapshot / the first log segment after the frame's offset and size.
// They must be the reader's own — reader.Left() and reader.Size() — not the offset that was asked for:
// a snapshot reader starts at the snapshot's offset whatever was requested, and a follower that files
// it under the requested offset shifts every later byte.
func ruleMetaFrame(w *core.World, r *core.Report, sd *ssa.Function) {
	r.Rule("R16.10", "the META frame carries the reader's own start offset, size and kind", 1)
	meta := int64(0)
	if k, ok := pbCode(w, "SyncResponse_META"); ok {
		meta = k
	}
	n := 0
	for _, g := range reachableFuncs(sd) {
		if g != sd && !(core.Transparent != nil && core.Transparent(g)) && g.Parent() == nil {
			continue
		}
		for _, in := range core.OwnInstrs(g) {
			a, ok := in.(*ssa.Alloc)
			if !ok || !strings.HasSuffix(core.TypeName(a.Type()), "SyncResponse") {
				continue
			}
			code, ok := frameCode(a)
			if !ok || code != meta {
				continue
			}
			// only frames that announce data (a Meta part is set)
			if frameField(a, "Meta") == nil {
				continue
			}
			n++
			isReaderCall := func(v ssa.Value, method string) bool {
				if v == nil {
					return false
				}
				for _, x := range argValues(core.Unwrap(v), sd) {
					c, ok := core.Unwrap(x).(*ssa.Call)
					if ok && c.Call.IsInvoke() && c.Call.Method.Name() == method && strings.HasSuffix(core.TypeName(c.Call.Value.Type()), "ChannelReader") {
						continue
					}
					return false
				}
				return true
			}
			okOff := isReaderCall(frameField(a, "Offset"), "Left")
			okSize := isReaderCall(frameField(a, "Size"), "Size")
			r.Check(okOff && okSize, "sendData/meta-frame", a.Pos(), "the META frame must announce the reader's own position and size (Offset = reader.Left(): %v, Size = reader.Size(): %v): the follower files what it receives under these values", okOff, okSize)
		}
	}
	if n == 0 {
		r.Fail("sendData/meta-frame", sd.Pos(), "no META frame is sent before the data")
	}
}

func ruleSendData(w *core.World, r *core.Report, sd *ssa.Function) {
	ruleMetaFrame(w, r, sd)
	// R16.3
	r.Rule("R16.3", "", 1)
	n := 0
	for _, in := range core.Instrs(sd) {
		st, ok := in.(*ssa.Store)
		if !ok {
			continue
		}
		fa, ok := st.Addr.(*ssa.FieldAddr)
		if !ok || core.FieldName(fa) != "Offset" || !strings.HasSuffix(core.TypeName(fa.X.Type()), "syncer.StartPoint") {
			continue
		}
		// only the local copy of the requested start point (the cell the parameter was spilled to)
		a, ok := fa.X.(*ssa.Alloc)
		if !ok {
			continue
		}
		fromParam := false
		for _, cs := range core.CellStores(a) {
			if _, isP := cs.Val.(*ssa.Parameter); isP {
				fromParam = true
			}
		}
		if !fromParam {
			continue
		}
		n++
		invalid := false
		for _, fct := range core.FactsAt(st.Block()) {
			c, isC := core.Unwrap(fct.Cond).(*ssa.Call)
			if isC && c.Call.IsInvoke() && c.Call.Method.Name() == "IsValidOffset" && !fct.Val {
				invalid = true
			}
		}
		r.Check(invalid, "sendData/offset-fallback", st.Pos(), "the offset the follower asked for may be replaced by the leader's newest only when the cache cannot serve it")
	}
	if n == 0 {
		r.OK("sendData/offset-fallback", sd.Pos(), "no fallback")
	}
	// R16.4
	r.Rule("R16.4", "", 2)
	// sendData, the helpers of the package it is split into, and their closures
	var scope []*ssa.Function
	for _, g := range reachableFuncs(sd) {
		if g == sd || (g.Parent() == nil && core.Transparent != nil && core.Transparent(g)) {
			scope = append(scope, core.DeepFuncs(g)...)
		}
	}
	cont, _ := pbCode(w, "SyncResponse_CONTINUE")
	frames := 0
	okAll := true
	var pos token.Pos = sd.Pos()
	// the running offset: a loop variable, or (when a closure builds the frames) a captured local
	type runOff struct {
		phi  *ssa.Phi
		cell *ssa.Alloc
	}
	baseOf := func(v ssa.Value) (runOff, bool) {
		v = core.Unwrap(v)
		if ph, ok := v.(*ssa.Phi); ok {
			return runOff{phi: ph}, true
		}
		if ld, ok := v.(*ssa.UnOp); ok && ld.Op == token.MUL {
			if c := core.Cell(ld.X); c != nil {
				return runOff{cell: c}, true
			}
		}
		return runOff{}, false
	}
	// the byte count of a frame: the count a Read returned, or the length of a slice that every
	// caller of the frame-building closure cuts to such a count (buf[:n])
	var countKey func(v ssa.Value, sub map[ssa.Value]ssa.Value) (string, bool)
	countKey = func(v ssa.Value, sub map[ssa.Value]ssa.Value) (string, bool) {
		v = core.Unwrap(v)
		if isResultOf("*Read", 0)(v) {
			return fmt.Sprintf("read@%p", v), true
		}
		c, ok := v.(*ssa.Call)
		if !ok || !isBuiltin(c, "len") {
			return "", false
		}
		par, ok := core.Unwrap(c.Call.Args[0]).(*ssa.Parameter)
		if ok {
			// the length of what this very call of a frame constructor was handed: buf[:n]
			if arg, isSub := sub[par]; isSub {
				sl, isSl := core.Unwrap(arg).(*ssa.Slice)
				if !isSl || sl.Low != nil || sl.High == nil || !isResultOf("*Read", 0)(core.Unwrap(sl.High)) {
					return "", false
				}
				return fmt.Sprintf("read@%p", core.Unwrap(sl.High)), true
			}
		}
		if !ok || par.Parent().Parent() == nil {
			return "", false
		}
		g := par.Parent()
		k := -1
		for i, q := range g.Params {
			if q == par {
				k = i
			}
		}
		calls := 0
		for _, h := range scope {
			for _, cs := range core.Sites(h, false) {
				if cs.Callee != g || cs.Instr.Parent() != h {
					continue
				}
				calls++
				args := cs.Common().Args
				if k >= len(args) {
					return "", false
				}
				sl, isSl := core.Unwrap(args[k]).(*ssa.Slice)
				if !isSl || sl.Low != nil || sl.High == nil || !isResultOf("*Read", 0)(core.Unwrap(sl.High)) {
					return "", false
				}
			}
		}
		if calls == 0 {
			return "", false
		}
		return fmt.Sprintf("len(param %d of %p)", k, g), true
	}
	var base runOff
	haveBase := false
	for _, g := range scope {
		for _, s := range core.Sites(g, false) {
			if s.Instr.Parent() != g || s.Method != "Send" || !s.Common().IsInvoke() {
				continue
			}
			code, ok := frameCode(s.Args()[0])
			if !ok || code != cont {
				continue
			}
			frames++
			off := frameField(s.Args()[0], "Offset")
			size := frameField(s.Args()[0], "Size")
			good := false
			if b, isB := core.Unwrap(off).(*ssa.BinOp); isB && b.Op == token.ADD && size != nil {
				if ro, okB := baseOf(b.X); okB && (!haveBase || ro == base) {
					base, haveBase = ro, true
					_, sub := frameAlloc(s.Args()[0])
					ka, ok1 := countKey(b.Y, nil)
					kb, ok2 := countKey(size, sub)
					good = ok1 && ok2 && ka == kb
				}
			}
			if !good {
				okAll = false
				pos = s.Pos()
			}
		}
	}
	// one frame-building closure called from two places counts for two frames
	sends := frames
	if haveBase && base.cell != nil {
		sends = 0
		for _, g := range scope {
			for _, s := range core.Sites(g, false) {
				if s.Instr.Parent() == g && s.Callee != nil && s.Callee.Parent() != nil && len(core.SitesNamed(s.Callee, false, "*.Send")) > 0 {
					sends++
				}
			}
		}
		if sends < frames {
			sends = frames
		}
	}
	r.Check(okAll && frames >= 1 && sends >= 2, "sendData/continue-frame-offset", pos, "every data frame must carry (running offset + n, n) with n the number of bytes just read (frames=%d)", frames)
	adv := false
	if haveBase && base.phi != nil {
		for _, e := range base.phi.Edges {
			if b, ok := e.(*ssa.BinOp); ok && b.Op == token.ADD && b.X == ssa.Value(base.phi) && isResultOf("*Read", 0)(core.Unwrap(b.Y)) {
				adv = true
			}
		}
	}
	if haveBase && base.cell != nil {
		for _, st := range core.CellStores(base.cell) {
			if b, ok := st.Val.(*ssa.BinOp); ok && b.Op == token.ADD && isResultOf("*Read", 0)(core.Unwrap(b.Y)) {
				if ro, okB := baseOf(b.X); okB && ro == base {
					adv = true
				}
			}
		}
	}
	r.Check(adv, "sendData/offset-advances-by-n", sd.Pos(), "the running offset must advance by exactly the bytes sent")
}

func isRespGetter(name string, resp ssa.Value) func(ssa.Value) bool {
	return func(v ssa.Value) bool {
		c, ok := core.Unwrap(v).(*ssa.Call)
		if !ok || !strings.HasSuffix(core.ResolveCall(c).Name, "SyncResponse)."+name) {
			return false
		}
		return resp == nil || paramAtUse(resp.(*ssa.Parameter), c.Call.Args[0])
	}
}

// paramAtUse: v is the parameter itself, or a load of the cell the parameter
// was spilled to, at a point where only the parameter's value can be in the
// cell: the function stores nothing else into it, and every closure that
// writes the cell is created after the use.
func paramAtUse(p *ssa.Parameter, v ssa.Value) bool {
	v = core.Unwrap(v)
	if v == ssa.Value(p) {
		return true
	}
	ld, ok := v.(*ssa.UnOp)
	if !ok || ld.Op != token.MUL {
		return false
	}
	cell, ok := ld.X.(*ssa.Alloc)
	if !ok {
		return false
	}
	for _, st := range core.CellStores(cell) {
		if st.Parent() == ld.Parent() {
			if st.Val != ssa.Value(p) {
				return false
			}
			continue
		}
		// a closure writes the cell: it must be created after the use
		cl := st.Parent()
		for cl.Parent() != nil && cl.Parent() != ld.Parent() {
			cl = cl.Parent()
		}
		created := false
		for _, in := range core.Instrs(ld.Parent()) {
			if mc, ok := in.(*ssa.MakeClosure); ok && mc.Fn == cl {
				created = true
				if !core.Dominates(ld, mc) {
					return false
				}
			}
		}
		if !created {
			return false
		}
	}
	return true
}

func ruleFollowerWriters(w *core.World, r *core.Report) {
	if f := fn(w, r, "(*syncer.ReplicaFollower).rdbSync"); f != nil {
		resp := ssa.Value(paramOf(f, "SyncResponse", "resp"))
		r.Rule("R16.5", "", 2)
		n := 0
		var nw core.Site
		for _, s := range core.Sites(f, false) {
			if s.Method == "NewRdbWriter" && s.Common().IsInvoke() {
				n++
				nw = s
				a := s.Args()
				r.Check(len(a) == 3 && flowAll(a[1], isRespGetter("GetOffset", resp)) && flowAll(a[2], isRespGetter("GetSize", resp)), "rdbSync/writer-start", s.Pos(), "the snapshot writer must start at the META frame's offset with its size")
				// ... read before the receiving goroutine, which counts the size down, exists
				for k := 1; k < len(a); k++ {
					if who := writtenByEarlierClosure(a[k], s.Instr); who != "" {
						r.Fail("rdbSync/writer-start-unshared", s.Pos(), "an argument of the snapshot writer is a variable that %s, started before the writer is created, modifies: frames received meanwhile shrink the size the writer is told, and a truncated snapshot is committed as complete", who)
					}
				}
			}
		}
		if n == 0 {
			r.Fail("rdbSync/writer-start", f.Pos(), "no snapshot writer")
		}
		r.Rule("R16.6", "", 2)
		if nw.Instr != nil {
			bad := ""
			k := 0
			core.EnumPaths(f.Blocks[0], 0, 100000, func(p *core.Path) {
				var seq []string
				on := false
				for _, s := range pathSites(p) {
					if s.Common().IsInvoke() && (s.Method == "DelRunId" || s.Method == "SetRunId" || s.Method == "NewRdbWriter") {
						seq = append(seq, s.Method)
						if failedOn(p, s.Value()) && s.Method != "NewRdbWriter" {
							seq = append(seq, "!")
						}
					}
					if s.Instr == nil {
						continue
					}
					if s.Method == "NewRdbWriter" {
						on = true
					}
				}
				if !on {
					return
				}
				k++
				if strings.Join(seq, " ") != "DelRunId SetRunId NewRdbWriter" {
					bad = "the snapshot writer is created on a path whose cache operations are [" + strings.Join(seq, " ") + "], expected DelRunId ≺ SetRunId ≺ NewRdbWriter (each succeeded): old data of the id would be mixed with the new snapshot"
				}
			})
			r.Check(bad == "" && k > 0, "rdbSync/clear-before-snapshot", nw.Pos(), "%s", bad)
		}
	}
	if f := fn(w, r, "(*syncer.ReplicaFollower).aofSync"); f != nil {
		resp := ssa.Value(paramOf(f, "SyncResponse", "resp"))
		r.Rule("R16.5", "", 2)
		var nw core.Site
		for _, s := range core.Sites(f, false) {
			if s.Method == "NewAofWritter" && s.Common().IsInvoke() {
				nw = s
				a := s.Args()
				r.Check(len(a) == 2 && flowAll(a[1], isRespGetter("GetOffset", resp)), "aofSync/writer-start", s.Pos(), "the log writer must start at the META frame's offset")
			}
		}
		if nw.Instr == nil {
			r.Fail("aofSync/writer-start", f.Pos(), "no log writer")
			return
		}
		r.Rule("R16.6", "", 2)
		isLeft := isRespGetter("GetOffset", resp)
		isMine := func(v ssa.Value) bool {
			return fieldOf("Offset", func(b ssa.Value) bool {
				return core.DependsOn(b, func(x ssa.Value) bool {
					c, ok := x.(*ssa.Call)
					return ok && c.Call.IsInvoke() && c.Call.Method.Name() == "StartPoint"
				})
			})(v)
		}
		bad := ""
		k := 0
		core.EnumPaths(f.Blocks[0], 0, 100000, func(p *core.Path) {
			on, cleared := false, false
			for _, s := range pathSites(p) {
				if s.Common().IsInvoke() && s.Method == "DelRunId" && !failedOn(p, s.Value()) && !on {
					cleared = true
				}
				if s.Method == "NewAofWritter" {
					on = true
				}
			}
			if !on {
				return
			}
			k++
			if cleared {
				return
			}
			// joins: the leader's data starts exactly where the follower's ends. "At or before" is not enough:
			// data that starts inside the follower's range comes from a leader that switched to another
			// history, and the old bytes would stay stored under the new id (W22)
			joins := p.Holds(token.EQL, isLeft, isMine) || p.Holds(token.EQL, isMine, isLeft)
			initial := pathAssumed(p, func(v ssa.Value) bool {
				c, ok := core.Unwrap(v).(*ssa.Call)
				return ok && strings.HasSuffix(core.ResolveCall(c).Name, "StartPoint).IsInitial")
			}, true)
			if !joins && !initial {
				if os.Getenv("GUNYU_DEBUG") != "" {
					for _, fct := range p.Conds {
						if c, ok := core.FactCmp(fct); ok {
							fmt.Println("DEBUG cond", c.Op, p.Resolve(c.X).String(), "|", p.Resolve(c.Y).String(), isLeft(p.Resolve(c.X)), isMine(p.Resolve(c.Y)))
						} else {
							fmt.Println("DEBUG cond", fct.Val, fct.Cond.String())
						}
					}
				}
				bad = "the log writer is created without clearing the cache on a path that did not establish that the leader's data starts exactly at the follower's newest offset (or that the follower is empty): a hole, or bytes of another replication history the leader has left, would be stored under one id"
			}
		})
		r.Check(bad == "" && k > 0, "aofSync/clear-before-gap", nw.Pos(), "%s", bad)
	}
}

func ruleHandleResp(w *core.World, r *core.Report) {
	f := fn(w, r, "(*syncer.ReplicaFollower).handleResp")
	if f == nil {
		return
	}
	isCode := func(v ssa.Value) bool {
		c, ok := core.Unwrap(v).(*ssa.Call)
		return ok && strings.HasSuffix(core.ResolveCall(c).Name, "SyncResponse).GetCode")
	}
	var pbPkg *types.Package
	for path, p := range w.ByPth {
		if strings.HasSuffix(path, "pkg/api/golang") {
			pbPkg = p.Types
		}
	}
	if pbPkg == nil {
		r.Unresolved("pb.SyncResponse_Code", "protobuf package not found")
		return
	}
	for _, name := range pbPkg.Scope().Names() {
		if !strings.HasPrefix(name, "SyncResponse_") {
			continue
		}
		c, ok := pbPkg.Scope().Lookup(name).(*types.Const)
		if !ok || !strings.HasSuffix(c.Type().String(), "SyncResponse_Code") {
			continue
		}
		if name == "SyncResponse_META" || name == "SyncResponse_CONTINUE" {
			continue
		}
		k, _ := constant.Int64Val(c.Val())
		bad := ""
		var badPos token.Pos
		n := 0
		core.EnumPaths(f.Blocks[0], 0, 100000, func(p *core.Path) {
			ret, ok := p.End.(*ssa.Return)
			if !ok || !p.Holds(token.EQL, isCode, isConstInt(k)) {
				return
			}
			n++
			for _, rv := range core.RetVals(ret, 0) {
				v := p.Resolve(rv)
				if core.IsNilConst(v) || v == ssa.Value(f.Params[1]) {
					bad, badPos = "the refusal is answered with a nil error on some path: the caller then reads the refusal frame as a META/data frame (offset 0, size 0)", ret.Pos()
				}
			}
		})
		r.Check(bad == "" && n > 0, "handleResp/"+name, badPos, "%s (paths=%d; a code with no path is not recognised at all)", bad, n)
	}
}

func ruleRefusalEnds(w *core.World, r *core.Report) {
	he := w.Func("(*syncer.ReplicaLeader).handleError")
	if he == nil {
		r.Unresolved("(*syncer.ReplicaLeader).handleError", "not found")
		return
	}
	// handleError returns its err parameter
	retsErr := true
	for _, in := range core.Instrs(he) {
		if ret, ok := in.(*ssa.Return); ok {
			if len(ret.Results) != 1 || core.RetVal(ret, 0) != ssa.Value(he.Params[2]) {
				retsErr = false
			}
		}
	}
	r.Check(retsErr, "handleError/returns-its-error", he.Pos(), "handleError must return the error it was given")
	n := 0
	for _, f := range w.FuncsIn("syncer") {
		if f.Signature.Recv() == nil || !strings.HasSuffix(core.TypeName(f.Signature.Recv().Type()), "ReplicaLeader") {
			continue
		}
		for _, s := range core.Sites(f, false) {
			if s.Callee != he {
				continue
			}
			n++
			errArg := s.Args()[1]
			nonNil := false
			switch x := core.Unwrap(errArg).(type) {
			case *ssa.Call:
				nm := core.ResolveCall(x).Name
				nonNil = nm == "fmt.Errorf" || nm == "errors.Join" || nm == "errors.New"
			}
			if !nonNil {
				nonNil = core.NilFact(s.Instr.Block(), func(v ssa.Value) bool { return core.Unwrap(v) == core.Unwrap(errArg) || sameOrigin(v, errArg) }, false)
			}
			returned := false
			for _, ref := range *s.Value().Referrers() {
				switch x := ref.(type) {
				case *ssa.Return:
					returned = true
				case *ssa.Store:
					// defer-spilled result: stored to the result cell and returned
					if a, ok := x.Addr.(*ssa.Alloc); ok && a.Comment == "" {
						returned = true
					}
				}
			}
			r.Check(nonNil && returned, f.Name()+"/refusal-ends-exchange", s.Pos(), "after a refusal frame the handler must stop: handleError has to be given a non-nil error (non-nil=%v) and its result returned (returned=%v); otherwise Handle goes on sending on the same stream", nonNil, returned)
		}
	}
	if n == 0 {
		r.Fail("ReplicaLeader/refusal-ends-exchange", he.Pos(), "no refusal sites found")
	}
}

// sameOrigin: both values resolve to the same single definition through phis/cells.
func sameOrigin(a, b ssa.Value) bool {
	la, lb := core.Leaves(a), core.Leaves(b)
	if len(la) == 0 || len(la) != len(lb) {
		return false
	}
	for i := range la {
		if la[i] != lb[i] {
			return false
		}
	}
	return true
}

// flowAll: every value that can reach v (loads of local cells resolved by
// reaching stores) satisfies pred.
// writtenByEarlierClosure: v is a load of a variable that a closure writes, and that closure is created
// on some path before `at` (not strictly after it): the name of the closure, "" otherwise.
func writtenByEarlierClosure(v ssa.Value, at ssa.Instruction) string {
	ld, ok := core.Unwrap(v).(*ssa.UnOp)
	if !ok || ld.Op != token.MUL {
		return ""
	}
	cell, ok := ld.X.(*ssa.Alloc)
	if !ok {
		return ""
	}
	for _, st := range core.CellStores(cell) {
		if st.Parent() == at.Parent() {
			continue
		}
		cl := st.Parent()
		for cl.Parent() != nil && cl.Parent() != at.Parent() {
			cl = cl.Parent()
		}
		for _, in := range core.OwnInstrs(at.Parent()) {
			if mc, ok := in.(*ssa.MakeClosure); ok && mc.Fn == ssa.Value(cl) {
				if !core.Dominates(at, mc) {
					return "a goroutine (" + cl.Name() + ")"
				}
			}
		}
	}
	return ""
}

func flowAll(v ssa.Value, pred func(ssa.Value) bool) bool {
	vals := core.FlowVals(core.Unwrap(v))
	if len(vals) == 0 {
		return false
	}
	for _, x := range vals {
		if !pred(x) {
			return false
		}
	}
	return true
}

// ---------------------------------------------------------------- R16.9 a follower that is ahead never discards its copy before it talks to the leader

// ruleFollowerAheadKeepsCopy: before it contacts the leader the follower may
// give up its own copy only when it is far *behind* (the leader would have to
// send too much). A follower that holds more than the leader must keep it: the
// hand-over is decided by the leader from the offset the follower reports
// (R16.2). Every DelRunId in preSync must therefore be under
// (leader offset − follower offset) > c with c >= 0, on the signed difference.
func ruleFollowerAheadKeepsCopy(w *core.World, r *core.Report) {
	f := fn(w, r, "(*syncer.ReplicaFollower).preSync")
	if f == nil {
		return
	}
	leader := paramOf(f, "StartPoint", "leaderSp")
	heldID := fieldOf("RunId", func(b ssa.Value) bool {
		return core.DependsOn(b, func(x ssa.Value) bool {
			c, ok := x.(*ssa.Call)
			return ok && c.Call.IsInvoke() && c.Call.Method.Name() == "StartPoint"
		})
	})
	leadID := fieldOf("RunId", func(b ssa.Value) bool {
		return leader != nil && core.DependsOn(b, func(x ssa.Value) bool { return isParam(leader)(x) || paramAtUse(leader, x) })
	})
	n := 0
	for _, s := range core.Sites(f, false) {
		if !s.Common().IsInvoke() || s.Method != "DelRunId" {
			continue
		}
		n++
		bad := ""
		paths := 0
		okEnum := core.EnumPathsN(f.Blocks[0], 0, 100000, core.Unroll, func(p *core.Path) {
			on := false
			for _, in := range p.Instrs {
				if in == s.Instr {
					on = true
				}
			}
			if !on || bad != "" {
				return
			}
			paths++
			behind := false
			for _, fct := range factsBefore(p, s.Instr) {
				c, ok := core.FactCmp(fct)
				if !ok || c.Op != token.GTR {
					continue
				}
				k, isK := core.ConstInt(p.Resolve(c.Y))
				if !isK || k < 0 {
					continue
				}
				d, isB := core.Unwrap(p.Resolve(c.X)).(*ssa.BinOp)
				if !isB || d.Op != token.SUB {
					continue
				}
				fromLeader := leader != nil && core.DependsOn(d.X, func(v ssa.Value) bool { return v == ssa.Value(leader) || core.Unwrap(v) == ssa.Value(leader) })
				fromOwn := core.DependsOn(d.Y, func(v ssa.Value) bool {
					call, ok := v.(*ssa.Call)
					return ok && call.Call.IsInvoke() && call.Call.Method.Name() == "StartPoint"
				})
				if fromLeader && fromOwn {
					behind = true
				}
			}
			// a copy held under another id than the leader's is not what the hand-over is about: the leader
			// refuses ids it does not have (R16.1), and such a copy is re-labelled or cleared, never offered
			foreign := p.Holds(token.NEQ, heldID, leadID) || p.Holds(token.NEQ, leadID, heldID)
			if !behind && !foreign {
				bad = "the follower discards its own copy before talking to the leader on a path that did not establish that it is behind the leader (leader offset − own offset > c on the signed difference): a follower that holds more than the leader is wiped instead of being offered the leadership"
			}
		})
		if !okEnum || paths == 0 {
			r.Undecided("preSync/discard-only-when-behind", s.Pos(), "paths to the discard could not be enumerated (%d)", paths)
			continue
		}
		r.Check(bad == "", "preSync/discard-only-when-behind", s.Pos(), "%s", bad)
	}
	if n == 0 {
		r.OK("preSync/discard-only-when-behind", f.Pos(), "the follower never discards its copy before talking to the leader")
	}
}

// ---------------------------------------------------------------- R16.11 re-labelling only what is a prefix of the leader's history

// ruleRelabelOnlyAPrefix: channel.SetRunId(leader's id) re-labels whatever the
// follower holds (the disk cache renames the directory, the memory cache
// overwrites its id). From then on an offset comparison cannot tell the copy
// from a prefix of the leader's history. In preSync every path to that call has
// therefore either removed the copy (DelRunId), or established that the copy is
// under the leader's id already, that nothing is held, or that it ends exactly
// at the leader's offset. Leaving it to the guard of aofSync is too late: that
// runs after the data request, and when the request fails the next round
// continues the foreign bytes (W31).
func ruleRelabelOnlyAPrefix(w *core.World, r *core.Report) {
	f := fn(w, r, "(*syncer.ReplicaFollower).preSync")
	if f == nil {
		return
	}
	leader := paramOf(f, "StartPoint", "leaderSp")
	if leader == nil {
		r.Unresolved("preSync/leader", "the leader's start point parameter was not found")
		return
	}
	fromHeld := func(b ssa.Value) bool {
		return core.DependsOn(b, func(x ssa.Value) bool {
			c, ok := x.(*ssa.Call)
			return ok && c.Call.IsInvoke() && c.Call.Method.Name() == "StartPoint"
		})
	}
	fromLeader := func(b ssa.Value) bool {
		return core.DependsOn(b, func(x ssa.Value) bool { return isParam(leader)(x) || paramAtUse(leader, x) })
	}
	heldID, heldOff := fieldOf("RunId", fromHeld), fieldOf("Offset", fromHeld)
	leadID, leadOff := fieldOf("RunId", fromLeader), fieldOf("Offset", fromLeader)
	bad := ""
	var pos token.Pos = f.Pos()
	n := 0
	okEnum := core.EnumPathsN(f.Blocks[0], 0, 100000, 1, func(p *core.Path) {
		if bad != "" {
			return
		}
		cleared := false
		for _, s := range pathSites(p) {
			if !s.Common().IsInvoke() {
				continue
			}
			if s.Method == "DelRunId" && !failedOn(p, s.Value()) {
				cleared = true
			}
			if s.Method != "SetRunId" {
				continue
			}
			n++
			if cleared {
				continue
			}
			same := p.Holds(token.EQL, heldID, leadID) || p.Holds(token.EQL, leadID, heldID)
			none := p.Holds(token.EQL, heldID, isConstStr(""))
			joins := p.Holds(token.EQL, heldOff, leadOff) || p.Holds(token.EQL, leadOff, heldOff)
			if !same && !none && !joins {
				bad, pos = "the follower's copy is re-labelled with the leader's id on a path that neither removed it nor established that it is under that id already, that nothing is held, or that it ends exactly at the leader's offset: if the data request that follows fails, the next round takes bytes of another history for a prefix of the leader's and continues them", s.Pos()
			}
		}
	})
	if !okEnum {
		r.Undecided("preSync/relabel-only-a-prefix", f.Pos(), "too many paths")
		return
	}
	r.Check(bad == "" && n > 0, "preSync/relabel-only-a-prefix", pos, "%s", bad)
}
