package rules

import (
	"go/token"
	"go/types"
	"sort"
	"strings"

	"gunyucheck/core"

	"golang.org/x/tools/go/callgraph"
	"golang.org/x/tools/go/ssa"
)

func init() {
	All["C04"] = c04
	core.Explanations["C04"] = "Decides necessary structural conditions of 'an incomplete snapshot replay is never recorded as a completed full sync': " +
		"(R04.1) in sendRdb every replay goroutine (and its panic callback) sends exactly one result on every path, the collection loop receives cap(results) values, and the checkpoint write and the bidirectional offset store are dominated by 'no result was an error'; " +
		"(R04.2) cancellation is not success: the checkpoint write is additionally dominated by a test that the replay context is still alive placed after the collection loop, or every result-producing function returns a non-nil error on its context-done case; " +
		"(R04.3) every error edge of the snapshot parser (header, entry, footer) sends an entry carrying the error before the pipe is closed, completion is announced only after the footer check, and every consumer tests the entry's error before using it; " +
		"(R04.4) the loader reads only through a tee into the CRC, and on every path Footer returns nil only after reading the stored checksum and finding it zero or equal; (R04.8) every function that recovers a panic never panics again and, when it reports through an error variable, assigns it on every recovered path; (R04.9) the replies of a pipelined expanded entry are each checked in the iteration that received them; (R04.5) every explicit panic of the RDB decoding packages is reachable from a goroutine root only through a frame with a deferred recover (whole-program call graph); " +
		"(R04.6) the cache-to-replay pumps return nil only when the announced snapshot size was delivered; (R04.7) every select that moves snapshot entries has a context-done alternative. Not decided: detection of every single-byte alteration (value-level), absence of hangs, memory bounds on corrupted lengths."
}

func c04(w *core.World, r *core.Report) {
	r.Rule("R04.1", "sendRdb: one result per goroutine on every path; collection receives cap(results); checkpoint dominated by 'no error'", 5)
	r.Rule("R04.2", "cancellation is not success (checkpoint dominated by a live-context test after collection, or all result producers fail on cancel)", 1)
	ruleSendRdbResults(w, r)
	r.Rule("R04.3", "parser errors reach the result; completion announced after the footer check; consumers test the entry's error first", 5)
	ruleParserErrors(w, r)
	r.Rule("R04.4", "checksum covers everything read; Footer nil only for zero or equal checksum", 2)
	ruleChecksum(w, r)
	r.Rule("R04.6", "pumps return nil only when the announced size was delivered", 2)
	ruleShortSnapshot(w, r)
	r.Rule("R04.7", "every select that moves snapshot entries watches the replay context", 4)
	ruleWatchContext(w, r)
	r.Rule("R04.5", "explicit panics of the RDB decoding packages are contained by a recover frame on every call path from a goroutine root", 1)
	rulePanicContainment(w, r)
	r.Rule("R04.8", "recovering frames never re-throw and assign an error on every path on which a panic was recovered", 6)
	ruleRecoverFrames(w, r)
	r.Rule("R04.9", "every reply of a pipelined expanded entry is checked in the iteration that received it", 1)
	ruleReplyErrorsChecked(w, r)
	r.Rule("R20.13", "the key-exists policy the replay switches on is one of the three words it knows: with any other spelling a BUSYKEY answer matches no case, the entry is not applied and the replay reports success (shared with C20)", 1)
	rulePolicyValueNormalised(w, r)
	r.Rule("R04.10", "the bidirectional snapshot builders never answer 'nothing to replay' (or success) on a path that has seen an expansion, probe or capture error", 2)
	ruleBuildersSurfaceErrors(w, r)
	r.Rule("R03.6", "every replay path of an entry, the 'Bad data format' fallback included, hands the target's error up (shared with C03)", 3)
	ruleExpiryPaths(w, r)
	r.Rule("R20.9", "a RESTORE error is swallowed as 'key exists' only for the published BUSYKEY texts (shared with C20)", 2)
	ruleBusyKeyTexts(w, r)
	r.Rule("R04.11", "a plain cluster batch scans its replies for error replies before it reports success: a refused native command of a snapshot entry is not taken for applied", 1)
	ruleBatchExecChecksReplies(w, r)
	r.Rule("R04.12", "an error of applying a snapshot entry ends the replay worker: from every call in the per-entry loop that is handed the entry (or something made from it), a path that has seen its error neither takes the next entry nor returns nil, unless it retries the call or the replay context was cancelled (seed C04-13)", 3)
	ruleEntryErrorEndsWorker(w, r)
}

// chanOf reports whether v denotes the channel created by mk (through cells / closures).
func chanOf(mk ssa.Value) func(ssa.Value) bool {
	return func(v ssa.Value) bool {
		ok := false
		core.Walk(v, func(x ssa.Value) bool {
			if x == mk {
				ok = true
			}
			return !ok
		})
		return ok
	}
}

func ruleSendRdbResults(w *core.World, r *core.Report) {
	f := fn(w, r, "(*syncer.RedisOutput).sendRdb")
	if f == nil {
		return
	}
	var mk *ssa.MakeChan
	for _, in := range core.Instrs(f) {
		if m, ok := in.(*ssa.MakeChan); ok && strings.HasSuffix(m.Type().String(), "chan error") {
			mk = m
		}
	}
	if mk == nil {
		r.Unresolved("sendRdb/results-channel", "result channel not found")
		return
	}
	isRes := chanOf(mk)
	// goroutine bodies and panic handlers passed to SafeGo that send on the channel
	r.Rule("R04.1", "", 5)
	senders := 0
	for _, s := range core.SitesNamed(f, false, "pkg/sync.SafeGo") {
		for ai, a := range s.Args() {
			mc, ok := core.Unwrap(a).(*ssa.MakeClosure)
			if !ok {
				continue
			}
			body := mc.Fn.(*ssa.Function)
			sends := false
			for _, in := range core.Instrs(body) {
				if sd, ok := in.(*ssa.Send); ok && isRes(sd.Chan) {
					sends = true
				}
			}
			if !sends {
				continue
			}
			senders++
			role := "goroutine"
			if ai == 1 {
				role = "panic-callback"
			}
			bad := ""
			n := 0
			core.EnumPaths(body.Blocks[0], 0, 10000, func(p *core.Path) {
				if _, ok := p.End.(*ssa.Return); !ok {
					return
				}
				n++
				k := 0
				for _, in := range p.Instrs {
					if sd, ok := in.(*ssa.Send); ok && isRes(sd.Chan) {
						k++
					}
				}
				if k != 1 {
					bad = "a path sends " + itoa(k) + " results (the collector waits for exactly one per goroutine: fewer hangs it, more leaves an error unread)"
				}
			})
			r.Check(bad == "" && n > 0, "sendRdb/"+role+"-sends-once/"+body.Name(), body.Pos(), "%s", bad)
		}
	}
	if senders < 4 {
		r.Fail("sendRdb/senders", f.Pos(), "expected distributor, worker and their panic callbacks to report on the result channel, found %d senders", senders)
	}
	// collection loop: receives in a loop bounded by cap(channel)
	var recv *ssa.UnOp
	for _, in := range core.Instrs(f) {
		if u, ok := in.(*ssa.UnOp); ok && u.Op == token.ARROW && isRes(u.X) {
			recv = u
		}
	}
	okLoop := false
	if recv != nil {
		if head := core.LoopHeadOf(recv.Block()); head != nil {
			isCap := func(v ssa.Value) bool {
				call, ok := core.Unwrap(v).(*ssa.Call)
				if !ok {
					return false
				}
				b, ok := call.Call.Value.(*ssa.Builtin)
				return ok && b.Name() == "cap" && isRes(call.Call.Args[0])
			}
			okLoop = loopRunsTimes(head, isCap)
		}
	}
	r.Check(okLoop, "sendRdb/collects-cap-results", f.Pos(), "the collector must receive cap(result channel) values, the channel being sized to the number of goroutines")
	// capacity = parallel + 1 (+1 with the global lane)
	okCap := core.DependsOn(mk.Size, func(v ssa.Value) bool { return core.IsFieldLoad(v, "", "ReplayRdbParallel") })
	r.Check(okCap, "sendRdb/capacity", mk.Pos(), "the result channel must be sized from the number of replay workers")

	// checkpoint dominated by len(errs) == 0
	var sinks []core.Site
	for _, s := range core.Sites(f, false) {
		if s.Name == "(*syncer.RedisOutput).setCheckpoint" || (s.Name == "(*sync/atomic.Int64).Store" && core.IsFieldLoad(addrOf(s.Common().Args[0]), "RedisOutput", "bisyncOffset")) {
			sinks = append(sinks, s)
		}
	}
	if len(sinks) == 0 {
		r.Fail("sendRdb/checkpoint", f.Pos(), "no completion record found")
	}
	isLenErrs := func(v ssa.Value) bool {
		c, ok := core.Unwrap(v).(*ssa.Call)
		if !ok {
			return false
		}
		b, ok := c.Call.Value.(*ssa.Builtin)
		return ok && b.Name() == "len" && strings.HasSuffix(c.Call.Args[0].Type().String(), "[]error")
	}
	for _, s := range sinks {
		noErr := false
		for _, fct := range core.FactsAt(s.Instr.Block()) {
			c, ok := core.FactCmp(fct)
			if ok && isLenErrs(c.X) && isConstInt(0)(c.Y) && (c.Op == token.LEQ || c.Op == token.EQL) {
				noErr = true
			}
		}
		after := recv != nil && core.PathFrom(f, s.Instr, core.Is(recv), nil) == nil
		r.Check(noErr && after, "sendRdb/"+s.Method+"-needs-no-error", s.Pos(), "the completion record must be written only after all results were collected and none was an error")
	}
	// R04.2
	r.Rule("R04.2", "", 1)
	isCtxErr := func(v ssa.Value) bool {
		c, ok := core.Unwrap(v).(*ssa.Call)
		return ok && c.Call.IsInvoke() && c.Call.Method.Name() == "Err" && strings.HasSuffix(c.Call.Value.Type().String(), "context.Context")
	}
	alive := len(sinks) > 0
	for _, s := range sinks {
		okAlive := false
		for _, fct := range core.FactsAt(s.Instr.Block()) {
			c, ok := core.FactCmp(fct)
			if ok && c.Op == token.EQL && core.IsNilConst(c.Y) && isCtxErr(c.X) {
				// the test happens after the collection loop
				call := core.Unwrap(c.X).(*ssa.Call)
				if recv != nil && core.PathFrom(f, call, core.Is(recv), nil) == nil {
					okAlive = true
				}
			}
		}
		if !okAlive {
			alive = false
		}
	}
	if alive {
		r.OK("sendRdb/cancel-is-not-success", f.Pos(), "checkpoint dominated by ctx.Err() == nil after collection")
		return
	}
	// otherwise every result producer must fail on its context-done case
	var bad []string
	for _, name := range []string{"(*syncer.RedisOutput).rdbReplay", "(*syncer.RedisOutput).rdbReplayBisync", "(*syncer.RedisOutput).rdbReplayBisyncGlobal"} {
		g := w.Func(name)
		if g == nil {
			continue
		}
		if nilOnCancel(g) {
			bad = append(bad, shortName(name))
		}
	}
	for _, g := range core.DeepFuncs(f)[1:] {
		if nilOnCancel(g) {
			bad = append(bad, g.Name())
		}
	}
	sort.Strings(bad)
	r.Check(len(bad) == 0, "sendRdb/cancel-is-not-success", f.Pos(),
		"a stopped replay can be recorded as complete: %v return nil when the context is done and the checkpoint write is not guarded by a live-context test after the results were collected (workers may still hold unapplied entries)", bad)
}

func addrOf(v ssa.Value) ssa.Value { return v }

// nilOnCancel: some select case on a context's Done channel returns a nil error.
func nilOnCancel(g *ssa.Function) bool {
	for _, in := range core.Instrs(g) {
		sel, ok := in.(*ssa.Select)
		if !ok {
			continue
		}
		for k, st := range sel.States {
			if st.Dir != types.RecvOnly || !isCtxDone(st.Chan) {
				continue
			}
			cb := caseBlock(sel, k)
			if cb == nil {
				continue
			}
			for _, i2 := range cb.Instrs {
				if ret, ok := i2.(*ssa.Return); ok && len(ret.Results) >= 1 {
					for _, rv := range core.RetVals(ret, len(ret.Results)-1) {
						if core.IsNilConst(rv) {
							return true
						}
					}
				}
			}
		}
	}
	return false
}

func isCtxDone(v ssa.Value) bool {
	c, ok := core.Unwrap(v).(*ssa.Call)
	if !ok || !c.Call.IsInvoke() || c.Call.Method.Name() != "Done" {
		return false
	}
	t := c.Call.Value.Type().String()
	return strings.HasSuffix(t, "context.Context") || strings.HasSuffix(t, "sync.WaitCloser")
}

func ruleParserErrors(w *core.World, r *core.Report) {
	f := fn(w, r, "pkg/rdb.ParseRdb")
	if f != nil {
		var body *ssa.Function
		for _, c := range core.DeepFuncs(f)[1:] {
			if len(core.SitesNamed(c, false, "(*pkg/rdb.Loader).Next")) > 0 {
				body = c
			}
		}
		if body == nil {
			r.Unresolved("ParseRdb/goroutine", "parser goroutine not found")
		} else {
			// entry literals sent on the pipe: which fields are set
			var sentKind func(p *core.Path, v ssa.Value) string
			sentKind = func(p *core.Path, v ssa.Value) string {
				if p != nil {
					v = p.Resolve(v)
				}
				a, ok := core.Unwrap(v).(*ssa.Alloc)
				if !ok {
					// built by a small constructor: what every return of it builds
					if c, isC := core.Unwrap(v).(*ssa.Call); isC {
						if g := c.Call.StaticCallee(); g != nil && len(g.Blocks) > 0 && g.Signature.Results().Len() == 1 {
							kind := ""
							for _, in := range core.OwnInstrs(g) {
								if ret, isRet := in.(*ssa.Return); isRet {
									for _, rv := range core.RetVals(ret, 0) {
										k := sentKind(nil, rv)
										if kind != "" && k != kind {
											return "entry"
										}
										kind = k
									}
								}
							}
							if kind != "" {
								return kind
							}
						}
					}
					return "entry"
				}
				kind := "entry"
				for _, ref := range *a.Referrers() {
					if fa, ok := ref.(*ssa.FieldAddr); ok {
						switch core.FieldName(fa) {
						case "Err":
							kind = "err"
						case "Done":
							kind = "done"
						}
					}
				}
				return kind
			}
			bad := ""
			var badPos token.Pos
			n := 0
			head := core.LoopHeadOf(core.SitesNamed(body, false, "(*pkg/rdb.Loader).Next")[0].Instr.Block())
			check := func(p *core.Path) {
				if _, ok := p.End.(*ssa.Return); !ok || bad != "" {
					return
				}
				n++
				var kinds []string
				var calls []core.Site
				for _, in := range p.Instrs {
					if sd, ok := in.(*ssa.Send); ok {
						kinds = append(kinds, sentKind(p, sd.X))
					}
					if ci, ok := in.(*ssa.Call); ok {
						calls = append(calls, core.ResolveCall(ci))
					}
				}
				failed := ""
				footer := false
				for _, s := range calls {
					switch s.Name {
					case "(*pkg/rdb.Loader).Header", "(*pkg/rdb.Loader).Next", "(*pkg/rdb.Loader).Footer":
						if s.Method == "Footer" {
							footer = true
						}
						if failedOn(p, s.Value()) {
							failed = s.Method
						}
					}
				}
				hasErr, hasDone := false, false
				for _, k := range kinds {
					if k == "err" {
						hasErr = true
					}
					if k == "done" {
						hasDone = true
					}
				}
				if failed != "" && !hasErr {
					bad, badPos = "the parser stops after a failed "+failed+" without sending an entry that carries the error: consumers see a closed pipe, which they read as normal completion", p.End.Pos()
				}
				if failed == "" && !hasDone && !hasErr {
					bad, badPos = "the parser goroutine ends on a path that announces neither completion nor an error", p.End.Pos()
				}
				versionGate := false
				for _, fct := range p.Conds {
					if c, ok := core.FactCmp(fct); ok {
						if ld, ok := c.X.(*ssa.UnOp); ok {
							if g, ok := ld.X.(*ssa.Global); ok && g.Name() == "RdbVersion" {
								versionGate = true // formats before version 3 carry no checksum
							}
						}
					}
				}
				if hasDone && !footer && !versionGate {
					// allowed only under RdbVersion <= 2
					bad, badPos = "completion is announced on a path that did not verify the footer checksum", p.End.Pos()
				}
			}
			core.EnumPaths(body.Blocks[0], 0, 10000, check)
			if head != nil {
				core.EnumPaths(head, 0, 10000, check)
			}
			r.Check(bad == "" && n >= 3, "ParseRdb/error-edges", badPos, "%s", bad)
		}
	}
	// consumers: the entry's Err is tested before the entry is used
	type cons struct{ fn, use string }
	for _, c := range []cons{
		{"(*syncer.RedisOutput).rdbReplay", "(*pkg/rdbrestore.RdbReplay).Replay"},
		{"(*syncer.RedisOutput).rdbReplayBisync", "*buildBisyncRdbReplayUnit"},
		{"(*syncer.RedisOutput).rdbReplayBisyncGlobal", "*buildBisyncRdbGlobalUnit"},
		{"(*syncer.RedisOutput).sendRdb", "*distribute*"},
	} {
		g := fn(w, r, c.fn)
		if g == nil {
			continue
		}
		n := 0
		scan := core.DeepFuncs(g)
		// a helper that takes the pipe and does the receive for its callers
		for _, h := range core.DeepFuncs(g) {
			for _, cs := range core.Sites(h, false) {
				if cs.Callee == nil || cs.Callee.Parent() != nil || len(cs.Callee.Blocks) == 0 || cs.Instr.Parent() != h {
					continue
				}
				takesPipe := false
				for _, a := range cs.Common().Args {
					if ch, isCh := a.Type().Underlying().(*types.Chan); isCh && strings.HasSuffix(ch.Elem().String(), "rdb.BinEntry") {
						takesPipe = true
					}
				}
				already := false
				for _, x := range scan {
					if x == cs.Callee {
						already = true
					}
				}
				if takesPipe && !already {
					scan = append(scan, cs.Callee)
				}
			}
		}
		for _, h := range scan {
			for _, in := range core.Instrs(h) {
				sel, ok := in.(*ssa.Select)
				if !ok {
					continue
				}
				for k, st := range sel.States {
					if st.Dir != types.RecvOnly || !strings.HasSuffix(st.Chan.Type().String(), "rdb.BinEntry") {
						continue
					}
					n++
					cb := caseBlock(sel, k)
					if cb == nil {
						r.Undecided(shortName(c.fn)+"/tests-entry-error", sel.Pos(), "receive case not found")
						continue
					}
					// from the case block, every path to a use of the entry (a call taking it, or a send of it)
					// passes a test of its Err field
					isErrTest := func(in ssa.Instruction) bool {
						b, ok := in.(*ssa.BinOp)
						return ok && (b.Op == token.NEQ || b.Op == token.EQL) && core.IsNilConst(b.Y) && fieldNameOfLoad(b.X) == "Err"
					}
					isUse := func(in ssa.Instruction) bool {
						switch x := in.(type) {
						case *ssa.Call:
							s := core.ResolveCall(x)
							if strings.HasPrefix(s.Name, "builtin.") || strings.HasPrefix(s.Name, "iface:pkg/log") {
								return false
							}
							for _, a := range x.Call.Args {
								if strings.HasSuffix(a.Type().String(), "*"+core.ModulePath+"/pkg/rdb.BinEntry") {
									return true
								}
							}
						case *ssa.Select:
							for _, st2 := range x.States {
								if st2.Dir == types.SendOnly && st2.Send != nil && strings.HasSuffix(st2.Send.Type().String(), "rdb.BinEntry") {
									return true
								}
							}
						case *ssa.Send:
							return strings.HasSuffix(x.X.Type().String(), "rdb.BinEntry")
						case *ssa.Return:
							// handing the entry back to the caller is using it
							for _, rv := range x.Results {
								if strings.HasSuffix(rv.Type().String(), "rdb.BinEntry") && !core.IsNilConst(rv) {
									return true
								}
							}
						}
						return false
					}
					use := core.PathFrom(h, cb.Instrs[0], isUse, func(in ssa.Instruction) bool { return isErrTest(in) || in == ssa.Instruction(sel) })
					if use == nil && isUse(cb.Instrs[0]) {
						use = cb.Instrs[0]
					}
					pos := sel.Pos()
					if use != nil {
						pos = use.Pos()
					}
					r.Check(use == nil, shortName(c.fn)+"/tests-entry-error", pos, "a snapshot entry is used on a path that did not test its Err field: a parse error (truncated or corrupted snapshot) would be replayed as if it were an entry")
				}
			}
		}
		if n == 0 {
			r.Fail(shortName(c.fn)+"/tests-entry-error", g.Pos(), "no receive from the snapshot pipe found")
		}
	}
}

func ruleChecksum(w *core.World, r *core.Report) {
	if f := fn(w, r, "pkg/rdb.NewLoader"); f != nil {
		ok := false
		for _, s := range core.SitesNamed(f, false, "pkg/rdb.NewRdbReader") {
			if t, isC := core.Unwrap(s.Args()[0]).(*ssa.Call); isC && core.ResolveCall(t).Name == "io.TeeReader" {
				a := t.Call.Args
				if core.Unwrap(a[0]) == ssa.Value(f.Params[0]) && core.DependsOn(a[1], isResultOf("pkg/digest.New", -1)) {
					ok = true
				}
			}
		}
		r.Check(ok, "NewLoader/tee", f.Pos(), "the loader must read the snapshot only through TeeReader(source, crc)")
	}
	f := fn(w, r, "(*pkg/rdb.Loader).Footer")
	if f == nil {
		return
	}
	isStored := isResultOf("(*pkg/rdb.RdbReader).ReadUint64", 0)
	isComputed := func(v ssa.Value) bool { return isIfaceCallName(core.Unwrap(v), "Sum64") }
	bad := ""
	var badPos token.Pos
	n := 0
	core.EnumPaths(f.Blocks[0], 0, 10000, func(p *core.Path) {
		ret, ok := p.End.(*ssa.Return)
		if !ok || bad != "" {
			return
		}
		if !pathNil(p, ret.Results[0]) {
			return
		}
		n++
		read := false
		for _, s := range pathSites(p) {
			if s.Name == "(*pkg/rdb.RdbReader).ReadUint64" {
				read = true
			}
		}
		zero := p.Holds(token.EQL, isStored, isConstInt(0))
		equal := p.Holds(token.EQL, isComputed, isStored)
		if !read || !(zero || equal) {
			bad, badPos = "Footer accepts the snapshot on a path that did not read the stored checksum and find it zero or equal to the computed one: a damaged snapshot is replayed and recorded as complete", ret.Pos()
		}
	})
	r.Check(bad == "" && n >= 2, "Loader.Footer/nil-only-if-verified", badPos, "%s", bad)
	// computed before the footer bytes are read
	var sum, rd ssa.Instruction
	for _, s := range core.Sites(f, false) {
		if s.Method == "Sum64" {
			sum = s.Instr
		}
		if s.Method == "ReadUint64" {
			rd = s.Instr
		}
	}
	r.Check(sum != nil && rd != nil && core.Dominates(sum, rd), "Loader.Footer/sum-before-read", f.Pos(), "the checksum must be taken before the 8 footer bytes pass through the tee")
}

func ruleShortSnapshot(w *core.World, r *core.Report) {
	if f := fn(w, r, "(*pkg/store.RdbReader).pump"); f != nil {
		// after the loop: remaining != 0 => non-nil
		bad := ""
		var badPos token.Pos
		tested := 0
		for _, in := range core.Instrs(f) {
			ret, ok := in.(*ssa.Return)
			if !ok {
				continue
			}
			vals := core.RetVals(ret, 0)
			nonNil := len(vals) > 0
			for _, v := range vals {
				c, ok := v.(*ssa.Call)
				if !(ok && core.ResolveCall(c).Name == "errors.Join") {
					nonNil = false
				}
			}
			if nonNil {
				continue
			}
			// a possibly-nil return must be dominated by remaining == 0
			okZero := false
			for _, fct := range core.FactsAt(ret.Block()) {
				c, ok := core.FactCmp(fct)
				if ok && c.Op == token.EQL && isConstInt(0)(c.Y) {
					if ph, ok := c.X.(*ssa.Phi); ok && phiStartsFromField(ph, "RdbReader", "size") {
						okZero = true // the remaining-bytes counter: initialised from the announced size
					}
				}
			}
			tested++
			if !okZero {
				bad, badPos = "the pump can return nil without having established that the remaining byte count is zero: a short snapshot is reported as complete", ret.Pos()
			}
		}
		r.Check(bad == "" && tested > 0, "store.RdbReader.pump/short-is-error", badPos, "%s", bad)
	}
	if f := fn(w, r, "syncer.copyRdbFrom"); f != nil {
		bad := ""
		var badPos token.Pos
		n := 0
		isSize := func(v ssa.Value) bool { return fieldNameOfLoad(v) == "size" }
		isRead := func(v ssa.Value) bool {
			// the bytes-delivered counter: starts at 0 and grows by the bytes just copied
			ph, ok := core.Unwrap(v).(*ssa.Phi)
			if !ok {
				return false
			}
			zero, grows := false, false
			seen := map[*ssa.Phi]bool{}
			var walk func(p *ssa.Phi)
			walk = func(p *ssa.Phi) {
				if seen[p] {
					return
				}
				seen[p] = true
				for _, e := range p.Edges {
					switch x := e.(type) {
					case *ssa.Phi:
						walk(x)
					case *ssa.BinOp:
						if x.Op == token.ADD {
							if q, isPhi := x.X.(*ssa.Phi); isPhi && (q == ph || seen[q]) {
								grows = true
							}
						}
					default:
						if isConstInt(0)(e) {
							zero = true
						}
					}
				}
			}
			walk(ph)
			return zero && grows
		}
		for _, in := range core.Instrs(f) {
			ret, ok := in.(*ssa.Return)
			if !ok {
				continue
			}
			isNil := false
			for _, v := range core.RetVals(ret, 0) {
				if core.IsNilConst(v) {
					isNil = true
				}
			}
			if !isNil {
				continue
			}
			n++
			okDone := false
			for _, fct := range core.FactsAt(ret.Block()) {
				c, ok := core.FactCmp(fct)
				if !ok {
					continue
				}
				if c.Op == token.GEQ && isSize(c.Y) && (isRead(c.X) || core.DependsOn(c.X, isRead)) {
					okDone = true
				}
			}
			if !okDone {
				bad, badPos = "the memory snapshot copy returns nil on a path that did not establish readBytes >= size", ret.Pos()
			}
		}
		r.Check(bad == "" && n >= 2, "copyRdbFrom/short-is-error", badPos, "%s", bad)
	}
}

func ruleWatchContext(w *core.World, r *core.Report) {
	n := 0
	for _, name := range []string{"(*syncer.RedisOutput).sendRdb", "(*syncer.RedisOutput).rdbReplay", "(*syncer.RedisOutput).rdbReplayBisync", "(*syncer.RedisOutput).rdbReplayBisyncGlobal"} {
		f := fn(w, r, name)
		if f == nil {
			continue
		}
		for _, g := range core.DeepFuncs(f) {
			for _, in := range core.Instrs(g) {
				switch x := in.(type) {
				case *ssa.Select:
					moves := false
					watch := false
					for _, st := range x.States {
						if strings.HasSuffix(st.Chan.Type().String(), "rdb.BinEntry") {
							moves = true
						}
						if st.Dir == types.RecvOnly && isCtxDone(st.Chan) {
							watch = true
						}
					}
					if moves {
						n++
						r.Check(watch, shortName(name)+"/select-watches-context", x.Pos(), "a stage that moves snapshot entries blocks without a context-done alternative: a stopped replay would hang")
					}
				case *ssa.Send:
					if strings.HasSuffix(x.X.Type().String(), "rdb.BinEntry") {
						n++
						r.Fail(shortName(name)+"/select-watches-context", x.Pos(), "a snapshot entry is sent with a plain blocking send (no context-done alternative)")
					}
				case *ssa.UnOp:
					if x.Op == token.ARROW && strings.HasSuffix(x.X.Type().String(), "rdb.BinEntry") {
						n++
						r.Fail(shortName(name)+"/select-watches-context", x.Pos(), "a snapshot entry is received with a plain blocking receive (no context-done alternative)")
					}
				}
			}
		}
	}
	if n == 0 {
		r.Fail("rdb-pipes/select-watches-context", token.NoPos, "no snapshot pipe operations found")
	}
}

// ---------------------------------------------------------------- R04.5

func hasRecoverDefer(f *ssa.Function) bool {
	for _, in := range core.Instrs(f) {
		d, ok := in.(*ssa.Defer)
		if !ok {
			continue
		}
		s := core.ResolveCall(d)
		if strings.Contains(s.Name, "Xrecover") || strings.Contains(s.Name, "Recover") {
			return true
		}
		if s.Callee != nil {
			for _, i2 := range core.Instrs(s.Callee) {
				if c, ok := i2.(*ssa.Call); ok {
					if b, ok := c.Call.Value.(*ssa.Builtin); ok && b.Name() == "recover" {
						return true
					}
				}
			}
		}
	}
	return false
}

func explicitPanics(f *ssa.Function) []ssa.Instruction {
	var out []ssa.Instruction
	for _, in := range core.Instrs(f) {
		p, ok := in.(*ssa.Panic)
		if !ok {
			continue
		}
		if s, ok := core.ConstString(p.X); ok && strings.HasPrefix(s, "blocking select matched no case") {
			continue
		}
		out = append(out, p)
	}
	return out
}

func rulePanicContainment(w *core.World, r *core.Report) {
	cg := w.CallGraph()
	inScope := func(f *ssa.Function) bool {
		if f == nil || f.Pkg == nil {
			if f != nil && f.Parent() != nil {
				p := f
				for p.Parent() != nil {
					p = p.Parent()
				}
				f = p
			} else {
				return false
			}
		}
		if f.Pkg == nil {
			return false
		}
		pp := core.Short(f.Pkg.Pkg.Path())
		if pp == "pkg/rdb" || pp == "pkg/redis/types" {
			return true
		}
		if pp == "pkg/util" {
			pos := w.Pos(f.Pos())
			return strings.Contains(pos, "slice_buffer.go")
		}
		return false
	}
	isModule := func(f *ssa.Function) bool {
		for p := f; p != nil; p = p.Parent() {
			if p.Pkg != nil {
				return strings.HasPrefix(p.Pkg.Pkg.Path(), core.ModulePath)
			}
		}
		return false
	}
	// closures passed to SafeGo are protected frames (SafeGo recovers)
	safeGoBodies := map[*ssa.Function]bool{}
	swallowed := map[*ssa.Function]bool{}
	goTargets := map[*ssa.Function]bool{}
	for _, f := range w.Funcs() {
		for _, in := range core.Instrs(f) {
			switch x := in.(type) {
			case *ssa.Go:
				s := core.ResolveCall(x)
				if s.Callee != nil {
					goTargets[s.Callee] = true
				}
			case *ssa.Call:
				s := core.ResolveCall(x)
				if s.Name == "pkg/sync.SafeGo" && len(s.Args()) == 2 {
					// SafeGo recovers, but only a non-nil callback turns the panic into a reported error;
					// with a nil callback the goroutine just ends (deferred closes run, nobody learns of the failure)
					reports := !core.IsNilConst(core.Unwrap(s.Args()[1]))
					var body *ssa.Function
					if mc, ok := core.Unwrap(s.Args()[0]).(*ssa.MakeClosure); ok {
						body = mc.Fn.(*ssa.Function)
					} else if fn2, ok := core.Unwrap(s.Args()[0]).(*ssa.Function); ok {
						body = fn2
					}
					if body != nil {
						if reports {
							safeGoBodies[body] = true
						} else {
							swallowed[body] = true
						}
					}
				}
			}
		}
	}
	protected := func(f *ssa.Function) bool { return hasRecoverDefer(f) || safeGoBodies[f] }
	var panickers []*ssa.Function
	for _, f := range w.Funcs() {
		if inScope(f) && len(explicitPanics(f)) > 0 {
			panickers = append(panickers, f)
		}
	}
	if len(panickers) == 0 {
		r.Fail("panic-containment", token.NoPos, "no explicit panic found in the RDB decoding packages (expected the P-suffixed readers)")
		return
	}
	// backward search from all panickers to unprotected roots
	type item struct {
		f    *ssa.Function
		path []string
	}
	seen := map[*ssa.Function]bool{}
	var work []item
	for _, f := range panickers {
		if !protected(f) {
			work = append(work, item{f, []string{core.FuncName(f)}})
			seen[f] = true
		}
	}
	escapes := map[string]string{}
	escPos := map[string]token.Pos{}
	for len(work) > 0 {
		it := work[len(work)-1]
		work = work[:len(work)-1]
		node := cg.Nodes[it.f]
		var callers []*callgraph.Edge
		if node != nil {
			callers = node.In
		}
		nModuleCallers := 0
		for _, e := range callers {
			c := e.Caller.Func
			if c == nil || !isModule(c) {
				continue
			}
			if rootPkg(c) == "pkg/sync" {
				continue // SafeGo's own frames: the SafeGo call site decides (see above)
			}
			nModuleCallers++
			if protected(c) || seen[c] {
				continue
			}
			seen[c] = true
			np := append(append([]string{}, it.path...), core.FuncName(c))
			work = append(work, item{c, np})
		}
		// roots: goroutine entry points and main/init; a function nobody in the module calls is dead code, not a root
		isRoot := goTargets[it.f] || swallowed[it.f] || (nModuleCallers == 0 && (it.f.Name() == "main" || it.f.Name() == "init"))
		if isRoot {
			key := core.FuncName(it.f)
			if _, dup := escapes[key]; !dup {
				escapes[key] = strings.Join(it.path, " <- ")
				escPos[key] = it.f.Pos()
			}
		}
	}
	r.CallSites += len(panickers)
	if len(escapes) == 0 {
		r.OK("panic-containment", token.NoPos, "%d panicking functions, all call paths pass a recover frame", len(panickers))
		return
	}
	keys := make([]string, 0, len(escapes))
	for k := range escapes {
		keys = append(keys, k)
	}
	sort.Strings(keys)
	for _, k := range keys {
		r.Fail("panic-containment/root:"+k, escPos[k], "a decoder panic on damaged input can reach this root without passing a frame with a deferred recover (crash instead of an error): %s", escapes[k])
	}
}

func rootPkg(f *ssa.Function) string {
	for p := f; p != nil; p = p.Parent() {
		if p.Pkg != nil {
			return core.Short(p.Pkg.Pkg.Path())
		}
	}
	return ""
}

// ---------------------------------------------------------------- R04.8 recover frames convert, never re-throw

// ruleRecoverFrames: R04.5 treats a frame with a deferred recover as the place
// where a decoder panic becomes an error. That holds only if the recovering
// function (a) never panics itself (no re-throw for "some kinds" of panic:
// damaged input produces runtime errors such as index out of range or
// makeslice as easily as explicit panics) and (b), when it reports through an
// error variable, assigns a non-nil error on every path on which something
// was recovered.
func ruleRecoverFrames(w *core.World, r *core.Report) {
	n := 0
	for _, f := range w.Funcs() {
		var rec *ssa.Call
		for _, in := range core.Instrs(f) {
			if c, ok := in.(*ssa.Call); ok {
				if b, ok := c.Call.Value.(*ssa.Builtin); ok && b.Name() == "recover" {
					rec = c
				}
			}
		}
		if rec == nil {
			continue
		}
		n++
		name := core.FuncName(f)
		var rethrow ssa.Instruction
		for _, in := range core.Instrs(f) {
			switch x := in.(type) {
			case *ssa.Panic:
				rethrow = x
			case *ssa.Call:
				if core.ResolveCall(x).Name == "pkg/util.PanicIfErr" {
					rethrow = x
				}
			}
		}
		if rethrow != nil {
			r.Fail("recover-frame/"+name, rethrow.Pos(), "a recovering frame panics again: whatever it re-throws (for example runtime errors, which damaged input provokes: index out of range, makeslice) escapes the decoder as a crash instead of an error")
			continue
		}
		// error sink: *error parameter, or a captured/named error cell
		isErrPtr := func(t types.Type) bool {
			p, ok := t.Underlying().(*types.Pointer)
			return ok && p.Elem().String() == "error"
		}
		var sinks []ssa.Value
		for _, p := range f.Params {
			if isErrPtr(p.Type()) {
				sinks = append(sinks, p)
			}
		}
		for _, fv := range f.FreeVars {
			if isErrPtr(fv.Type()) {
				sinks = append(sinks, fv)
			}
		}
		if len(sinks) == 0 {
			r.OK("recover-frame/"+name, f.Pos(), "recovers without re-throwing; reports through a callback")
			continue
		}
		bad := false
		paths := 0
		core.EnumPaths(f.Blocks[0], 0, 5000, func(p *core.Path) {
			if _, ok := p.End.(*ssa.Return); !ok {
				return
			}
			recovered := false
			for _, fct := range p.Conds {
				c, ok := core.FactCmp(fct)
				if ok && c.Op == token.NEQ && core.Unwrap(p.Resolve(c.X)) == ssa.Value(rec) && core.IsNilConst(c.Y) {
					recovered = true
				}
			}
			if !recovered {
				return
			}
			paths++
			stored := false
			for _, in := range p.Instrs {
				st, ok := in.(*ssa.Store)
				if !ok || core.IsNilConst(st.Val) {
					continue
				}
				for _, s := range sinks {
					if st.Addr == s {
						stored = true
					}
				}
			}
			if !stored {
				bad = true
			}
		})
		r.Check(!bad && paths > 0, "recover-frame/"+name, f.Pos(), "on a path on which a panic was recovered no error is assigned to the frame's error result: the caller sees success (paths with a recovered value: %d)", paths)
	}
	if n == 0 {
		r.Fail("recover-frame", token.NoPos, "no recovering function found")
	}
}

// ---------------------------------------------------------------- R04.9 every reply of an expanded entry is checked

// ruleReplyErrorsChecked: commands of an expanded snapshot entry are pipelined
// and their replies drained in a loop. An error reply to any of them means the
// element was refused; it must end the replay with an error in the iteration
// that received it. Carrying the error variable round the loop (testing it
// only afterwards) keeps the last reply's error only.
func ruleReplyErrorsChecked(w *core.World, r *core.Report) {
	n := 0
	for _, f := range w.FuncsIn("pkg/rdbrestore") {
		for _, s := range core.Sites(f, false) {
			if s.Method != "Receive" && s.Name != "(*pkg/redis/client.Redis).Receive" && !strings.HasSuffix(s.Name, ".Receive") {
				continue
			}
			call, ok := s.Instr.(*ssa.Call)
			if !ok {
				continue
			}
			head := core.LoopHeadOf(call.Block())
			if head == nil {
				continue
			}
			n++
			var errv ssa.Value
			if refs := call.Referrers(); refs != nil {
				for _, ref := range *refs {
					if e, ok := ref.(*ssa.Extract); ok && e.Type().String() == "error" {
						errv = e
					}
				}
			}
			cons := "reply-error/" + core.FuncName(f)
			if errv == nil {
				r.Fail(cons, s.Pos(), "the error of a drained reply is discarded: a refused element of an expanded value goes unnoticed and the snapshot is recorded as replayed")
				continue
			}
			carried := false
			for _, ref := range *errv.Referrers() {
				if ph, ok := ref.(*ssa.Phi); ok && core.LoopHeadOf(ph.Block()) != nil {
					carried = true
				}
				if st, ok := ref.(*ssa.Store); ok && st.Val == errv {
					if _, isAlloc := st.Addr.(*ssa.Alloc); isAlloc {
						carried = carried || !failureReturned(f, s)
					}
				}
			}
			r.Check(!carried && failureReturned(f, s), cons, s.Pos(), "a reply's error must end the replay in the iteration that received it (tested inside the drain loop, non-nil return); it is carried round the loop or not returned, so only the last reply's error survives (carried=%v)", carried)
		}
	}
	if n == 0 {
		r.Fail("reply-error", token.NoPos, "no reply drain loop found in the snapshot replay package")
	}
}

// phiStartsFromField: ph (or a phi it merges) has an operand that loads the
// given field: a loop variable initialised from it.
func phiStartsFromField(ph *ssa.Phi, typ, field string) bool {
	seen := map[*ssa.Phi]bool{}
	var walk func(p *ssa.Phi) bool
	walk = func(p *ssa.Phi) bool {
		if seen[p] {
			return false
		}
		seen[p] = true
		for _, e := range p.Edges {
			if core.IsFieldLoad(core.Unwrap(e), typ, field) {
				return true
			}
			if q, ok := e.(*ssa.Phi); ok && walk(q) {
				return true
			}
			if b, ok := e.(*ssa.BinOp); ok {
				if q, ok := b.X.(*ssa.Phi); ok && walk(q) {
					return true
				}
			}
		}
		return false
	}
	return walk(ph)
}

// loopRunsTimes: the loop headed by head runs exactly N times, N being the
// value isN recognises: `for i := 0; i < N; i++` or `for k := N; k > 0; k--`.
func loopRunsTimes(head *ssa.BasicBlock, isN func(ssa.Value) bool) bool {
	iff, ok := head.Instrs[len(head.Instrs)-1].(*ssa.If)
	if !ok {
		return false
	}
	c, ok := core.AsCmp(iff.Cond, true)
	if !ok {
		return false
	}
	// the branch that stays in the loop is the true edge
	stays := head.Succs[0] != nil && head.Dominates(head.Succs[0]) && blockReaches(head.Succs[0], head)
	if !stays {
		return false
	}
	ctr, ok := core.Unwrap(c.X).(*ssa.Phi)
	if !ok || ctr.Block() != head {
		return false
	}
	var init ssa.Value
	step := int64(0)
	for i, e := range ctr.Edges {
		if head.Dominates(head.Preds[i]) { // back edge
			b, isB := e.(*ssa.BinOp)
			if !isB || b.X != ssa.Value(ctr) {
				return false
			}
			k, isK := core.ConstInt(b.Y)
			if !isK {
				return false
			}
			switch b.Op {
			case token.ADD:
				step = k
			case token.SUB:
				step = -k
			default:
				return false
			}
		} else {
			init = e
		}
	}
	if init == nil {
		return false
	}
	switch {
	case c.Op == token.LSS && step == 1 && isConstInt(0)(init) && isN(c.Y):
		return true
	case c.Op == token.GTR && step == -1 && isN(init) && isConstInt(0)(c.Y):
		return true
	case c.Op == token.GEQ && step == -1 && isN(init) && isConstInt(1)(c.Y):
		return true
	}
	return false
}


// ---------------------------------------------------------------- R04.10 the bidirectional builders hand errors up

// ruleBuildersSurfaceErrors: buildBisyncRdbReplayUnit / buildBisyncRdbGlobalUnit
// answer (unit, skip, err). "skip" means the entry needs no replay; the worker
// goes on and the full sync is recorded as complete. An object parser that
// rejects a value before producing its first command yields (no commands, err):
// testing "no commands → skip" before "err → fail" turns a corrupted value into a
// silently missing key. On no path that has seen a non-nil error of a call may
// the builder return a nil error.
func ruleBuildersSurfaceErrors(w *core.World, r *core.Report) {
	n := 0
	for _, name := range []string{"(*syncer.RedisOutput).buildBisyncRdbReplayUnit", "(*syncer.RedisOutput).buildBisyncRdbGlobalUnit"} {
		f := fn(w, r, name)
		if f == nil {
			continue
		}
		bad, pos, calls, okEnum := seenErrorsSurface(f, "the entry is skipped (or reported as replayed) although it could not be expanded, and the full sync is recorded as complete without it")
		if !okEnum {
			r.Undecided(shortName(name)+"/errors-surface", f.Pos(), "too many paths")
			continue
		}
		n++
		r.Check(bad == "" && calls > 0, shortName(name)+"/errors-surface", pos, "%s (calls with an error result on paths=%d)", bad, calls)
	}
	if n == 0 {
		r.Fail("bisync-rdb-builders/errors-surface", token.NoPos, "no builder found")
	}
}
