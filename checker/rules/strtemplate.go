package rules

import (
	"strings"

	"go/token"
	"go/types"

	"gunyucheck/core"

	"golang.org/x/tools/go/ssa"
)

// String templates: the shape of a string a function builds, as a sequence of
// constant pieces and holes. Computed from the expression that builds the
// string — concatenation, fmt.Sprintf with a constant format, strconv
// conversions, helpers with a single return — so that `fmt.Sprintf("%s:%s:x:{%s}",
// P, a, b)`, `P + ":" + a + ":x:{" + b + "}"` and the same thing through a
// shared helper have one template.

type strPiece struct {
	lit  string
	hole ssa.Value // non-nil: an unknown string; a *ssa.Parameter for a parameter of the function asked about
	num  bool      // the hole is a formatted number (digits, sign)
}

func strTemplate(v ssa.Value, env map[ssa.Value]ssa.Value, depth int) ([]strPiece, bool) {
	if depth > 40 {
		return nil, false
	}
	if s, ok := env[v]; ok {
		return strTemplate(s, nil, depth+1) // an argument is an expression of the caller: no further substitution
	}
	if str, ok := core.ConstString(v); ok {
		return []strPiece{{lit: str}}, true
	}
	switch x := v.(type) {
	case *ssa.Parameter:
		return []strPiece{{hole: x}}, true
	case *ssa.BinOp:
		if x.Op != token.ADD {
			return nil, false
		}
		a, ok1 := strTemplate(x.X, env, depth+1)
		b, ok2 := strTemplate(x.Y, env, depth+1)
		if !ok1 || !ok2 {
			return nil, false
		}
		return mergeLits(append(a, b...)), true
	case *ssa.Call:
		name := core.ResolveCall(x).Name
		switch name {
		case "fmt.Sprintf":
			format, ok := core.ConstString(x.Call.Args[0])
			if !ok {
				return nil, false
			}
			elems, ok := core.VariadicElems(x.Call.Args[1])
			if !ok {
				return nil, false
			}
			var out []strPiece
			k := 0
			for i := 0; i < len(format); {
				if format[i] != '%' {
					j := strings.IndexByte(format[i:], '%')
					if j < 0 {
						j = len(format) - i
					}
					out = append(out, strPiece{lit: format[i : i+j]})
					i += j
					continue
				}
				// a verb: %[flags][width]verb
				j := i + 1
				for j < len(format) && strings.IndexByte("+-# 0123456789.", format[j]) >= 0 {
					j++
				}
				if j >= len(format) {
					return nil, false
				}
				verb := format[j]
				if verb == '%' {
					out = append(out, strPiece{lit: "%"})
					i = j + 1
					continue
				}
				if k >= len(elems) {
					return nil, false
				}
				arg := core.Unwrap(elems[k])
				k++
				switch verb {
				case 's', 'v':
					if b, isB := arg.Type().Underlying().(*types.Basic); isB && b.Info()&types.IsString != 0 && j == i+1 {
						t, ok := strTemplate(arg, env, depth+1)
						if !ok {
							t = []strPiece{{hole: arg}}
						}
						out = append(out, t...)
					} else if b, isB := arg.Type().Underlying().(*types.Basic); isB && b.Info()&types.IsInteger != 0 {
						out = append(out, strPiece{hole: arg, num: true})
					} else {
						return nil, false
					}
				case 'd':
					out = append(out, strPiece{hole: arg, num: true})
				default:
					return nil, false
				}
				i = j + 1
			}
			return mergeLits(out), true
		case "strconv.Itoa", "strconv.FormatInt", "strconv.FormatUint":
			return []strPiece{{hole: x, num: true}}, true
		}
		// a helper with one return expression
		g := x.Call.StaticCallee()
		if g == nil || len(g.Blocks) == 0 || g.Signature.Results().Len() != 1 || len(x.Call.Args) != len(g.Params) {
			return []strPiece{{hole: x}}, true
		}
		var ret *ssa.Return
		for _, in := range core.OwnInstrs(g) {
			if rt, ok := in.(*ssa.Return); ok {
				if ret != nil {
					return []strPiece{{hole: x}}, true
				}
				ret = rt
			}
		}
		if ret == nil {
			return nil, false
		}
		sub := map[ssa.Value]ssa.Value{}
		for i, par := range g.Params {
			a := x.Call.Args[i]
			if s, ok := env[a]; ok {
				a = s
			}
			sub[par] = a
		}
		t, ok := strTemplate(ret.Results[0], sub, depth+1)
		if !ok {
			return []strPiece{{hole: x}}, true
		}
		return t, true
	}
	if b, isB := v.Type().Underlying().(*types.Basic); isB && b.Info()&types.IsString != 0 {
		return []strPiece{{hole: v}}, true
	}
	return nil, false
}

func mergeLits(ps []strPiece) []strPiece {
	var out []strPiece
	for _, p := range ps {
		if p.hole == nil && len(out) > 0 && out[len(out)-1].hole == nil {
			out[len(out)-1].lit += p.lit
			continue
		}
		if p.hole == nil && p.lit == "" {
			continue
		}
		out = append(out, p)
	}
	return out
}

// funcStrTemplate: the template of the string a function returns (single return statement).
func funcStrTemplate(f *ssa.Function) ([]strPiece, bool) {
	var ret *ssa.Return
	for _, in := range core.OwnInstrs(f) {
		if rt, ok := in.(*ssa.Return); ok {
			if ret != nil {
				return nil, false
			}
			ret = rt
		}
	}
	if ret == nil || len(ret.Results) != 1 {
		return nil, false
	}
	return strTemplate(core.RetVal(ret, 0), nil, 0)
}
