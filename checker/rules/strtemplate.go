package rules

import (
	"strings"

	"go/token"
	"go/types"

	"gunyucheck/core"

	"golang.org/x/tools/go/ssa"
)

// String templates: the shape of a string a function builds, as a sequence of
// constant pieces and holes. Computed from the expression that builds the
// string — concatenation, fmt.Sprintf with a constant format, strconv
// conversions, helpers with a single return — so that `fmt.Sprintf("%s:%s:x:{%s}",
// P, a, b)`, `P + ":" + a + ":x:{" + b + "}"` and the same thing through a
// shared helper have one template.

type strPiece struct {
	lit  string
	hole ssa.Value // non-nil: an unknown string; a *ssa.Parameter for a parameter of the function asked about
	num  bool      // the hole is a formatted number (digits, sign)
}

func strTemplate(v ssa.Value, env map[ssa.Value]ssa.Value, depth int) ([]strPiece, bool) {
	if depth > 40 {
		return nil, false
	}
	if s, ok := env[v]; ok {
		return strTemplate(s, nil, depth+1) // an argument is an expression of the caller: no further substitution
	}
	if str, ok := core.ConstString(v); ok {
		return []strPiece{{lit: str}}, true
	}
	switch x := v.(type) {
	case *ssa.Parameter:
		return []strPiece{{hole: x}}, true
	case *ssa.UnOp:
		// a field of a struct parameter (spilled to a local): the value the caller put into that field
		if fa, ok := x.X.(*ssa.FieldAddr); ok && x.Op == token.MUL {
			if fv := structParamField(fa.X, fa.Field, env); fv != nil {
				return strTemplate(fv, nil, depth+1)
			}
		}
	case *ssa.Field:
		if par, ok := x.X.(*ssa.Parameter); ok {
			if fv := fieldOfStructValue(envOr(par, env), x.Field); fv != nil {
				return strTemplate(fv, nil, depth+1)
			}
		}
	case *ssa.BinOp:
		if x.Op != token.ADD {
			return nil, false
		}
		a, ok1 := strTemplate(x.X, env, depth+1)
		b, ok2 := strTemplate(x.Y, env, depth+1)
		if !ok1 || !ok2 {
			return nil, false
		}
		return mergeLits(append(a, b...)), true
	case *ssa.Call:
		name := core.ResolveCall(x).Name
		switch name {
		case "fmt.Sprintf":
			format, ok := core.ConstString(x.Call.Args[0])
			if !ok {
				return nil, false
			}
			elems, ok := core.VariadicElems(x.Call.Args[1])
			if !ok {
				return nil, false
			}
			var out []strPiece
			k := 0
			for i := 0; i < len(format); {
				if format[i] != '%' {
					j := strings.IndexByte(format[i:], '%')
					if j < 0 {
						j = len(format) - i
					}
					out = append(out, strPiece{lit: format[i : i+j]})
					i += j
					continue
				}
				// a verb: %[flags][width]verb
				j := i + 1
				for j < len(format) && strings.IndexByte("+-# 0123456789.", format[j]) >= 0 {
					j++
				}
				if j >= len(format) {
					return nil, false
				}
				verb := format[j]
				if verb == '%' {
					out = append(out, strPiece{lit: "%"})
					i = j + 1
					continue
				}
				if k >= len(elems) {
					return nil, false
				}
				arg := core.Unwrap(elems[k])
				k++
				switch verb {
				case 's', 'v':
					if b, isB := arg.Type().Underlying().(*types.Basic); isB && b.Info()&types.IsString != 0 && j == i+1 {
						t, ok := strTemplate(arg, env, depth+1)
						if !ok {
							t = []strPiece{{hole: arg}}
						}
						out = append(out, t...)
					} else if b, isB := arg.Type().Underlying().(*types.Basic); isB && b.Info()&types.IsInteger != 0 {
						out = append(out, strPiece{hole: arg, num: true})
					} else {
						return nil, false
					}
				case 'd':
					out = append(out, strPiece{hole: arg, num: true})
				default:
					return nil, false
				}
				i = j + 1
			}
			return mergeLits(out), true
		case "strconv.Itoa", "strconv.FormatInt", "strconv.FormatUint":
			return []strPiece{{hole: x, num: true}}, true
		case "(*strings.Builder).String":
			// a local builder written in straight-line code: the pieces in the order they were written
			if t, ok := builderTemplate(x, env, depth); ok {
				return t, true
			}
			return []strPiece{{hole: x}}, true
		}
		// a helper with one return expression
		g := x.Call.StaticCallee()
		if g == nil || len(g.Blocks) == 0 || g.Signature.Results().Len() != 1 || len(x.Call.Args) != len(g.Params) {
			return []strPiece{{hole: x}}, true
		}
		var ret *ssa.Return
		for _, in := range core.OwnInstrs(g) {
			if rt, ok := in.(*ssa.Return); ok {
				if ret != nil {
					return []strPiece{{hole: x}}, true
				}
				ret = rt
			}
		}
		if ret == nil {
			return nil, false
		}
		sub := map[ssa.Value]ssa.Value{}
		for i, par := range g.Params {
			a := x.Call.Args[i]
			if s, ok := env[a]; ok {
				a = s
			} else if ld, isLd := a.(*ssa.UnOp); isLd && ld.Op == token.MUL {
				// a struct parameter handed on by value (a load of its spill)
				if al, isA := ld.X.(*ssa.Alloc); isA {
					if sts := core.CellStores(al); len(sts) == 1 {
						if s, ok := env[sts[0].Val]; ok {
							a = s
						}
					}
				}
			}
			sub[par] = a
		}
		t, ok := strTemplate(ret.Results[0], sub, depth+1)
		if !ok {
			return []strPiece{{hole: x}}, true
		}
		return t, true
	}
	if b, isB := v.Type().Underlying().(*types.Basic); isB && b.Info()&types.IsString != 0 {
		return []strPiece{{hole: v}}, true
	}
	return nil, false
}

func mergeLits(ps []strPiece) []strPiece {
	var out []strPiece
	for _, p := range ps {
		if p.hole == nil && len(out) > 0 && out[len(out)-1].hole == nil {
			out[len(out)-1].lit += p.lit
			continue
		}
		if p.hole == nil && p.lit == "" {
			continue
		}
		out = append(out, p)
	}
	return out
}

// funcStrTemplate: the template of the string a function returns (single return statement).
func funcStrTemplate(f *ssa.Function) ([]strPiece, bool) {
	var ret *ssa.Return
	for _, in := range core.OwnInstrs(f) {
		if rt, ok := in.(*ssa.Return); ok {
			if ret != nil {
				return nil, false
			}
			ret = rt
		}
	}
	if ret == nil || len(ret.Results) != 1 {
		return nil, false
	}
	return strTemplate(core.RetVal(ret, 0), nil, 0)
}


func envOr(v ssa.Value, env map[ssa.Value]ssa.Value) ssa.Value {
	if s, ok := env[v]; ok {
		return s
	}
	return v
}

// structParamField: base is the local a struct parameter was spilled to; the value stored into field
// idx of the struct the caller passed (a composite literal of the caller), nil when not of that shape.
func structParamField(base ssa.Value, idx int, env map[ssa.Value]ssa.Value) ssa.Value {
	al, ok := base.(*ssa.Alloc)
	if !ok {
		return nil
	}
	sts := core.CellStores(al)
	if len(sts) != 1 {
		return nil
	}
	par, ok := sts[0].Val.(*ssa.Parameter)
	if !ok {
		return nil
	}
	return fieldOfStructValue(envOr(par, env), idx)
}

// fieldOfStructValue: v is a struct value built by a composite literal (a load of the literal's local):
// the one value stored into its field idx.
func fieldOfStructValue(v ssa.Value, idx int) ssa.Value {
	ld, ok := v.(*ssa.UnOp)
	if !ok || ld.Op != token.MUL {
		return nil
	}
	lit, ok := ld.X.(*ssa.Alloc)
	if !ok || lit.Referrers() == nil {
		return nil
	}
	var val ssa.Value
	for _, ref := range *lit.Referrers() {
		fa, ok := ref.(*ssa.FieldAddr)
		if !ok || fa.Field != idx || fa.Referrers() == nil {
			continue
		}
		for _, r2 := range *fa.Referrers() {
			if st, ok := r2.(*ssa.Store); ok && st.Addr == ssa.Value(fa) {
				if val != nil {
					return nil
				}
				val = st.Val
			}
		}
	}
	return val
}

// builderTemplate: the string of a local strings.Builder at a String() call: every write to it is a
// WriteString / WriteByte / WriteRune whose block dominates the call and lies in no loop.
func builderTemplate(call *ssa.Call, env map[ssa.Value]ssa.Value, depth int) ([]strPiece, bool) {
	if len(call.Call.Args) != 1 {
		return nil, false
	}
	b, ok := call.Call.Args[0].(*ssa.Alloc)
	if !ok || b.Referrers() == nil {
		return nil, false
	}
	var out []strPiece
	for _, in := range core.OwnInstrs(call.Parent()) {
		c, isCall := in.(*ssa.Call)
		if !isCall || len(c.Call.Args) == 0 || c.Call.Args[0] != ssa.Value(b) || c == call {
			continue
		}
		if !core.Dominates(c, call) || core.LoopHeadOf(c.Block()) != nil {
			return nil, false
		}
		switch core.ResolveCall(c).Name {
		case "(*strings.Builder).WriteString":
			t, ok := strTemplate(c.Call.Args[1], env, depth+1)
			if !ok {
				return nil, false
			}
			out = append(out, t...)
		case "(*strings.Builder).WriteByte", "(*strings.Builder).WriteRune":
			k, ok := core.ConstInt(c.Call.Args[1])
			if !ok {
				return nil, false
			}
			out = append(out, strPiece{lit: string(rune(k))})
		case "(*strings.Builder).Grow", "(*strings.Builder).Len":
		default:
			return nil, false
		}
	}
	// any other use of the builder (its address handed elsewhere) makes the content unknown
	for _, ref := range *b.Referrers() {
		if _, isCall := ref.(*ssa.Call); !isCall {
			return nil, false
		}
	}
	return mergeLits(out), true
}
