package rules

import (
	"go/constant"
	"go/token"
	"go/types"
	"strconv"
	"strings"

	"gunyucheck/core"

	"golang.org/x/tools/go/ssa"
)

func init() {
	All["C17"] = c17
	core.Explanations["C17"] = "Decides necessary structural conditions of 'resume bookkeeping maintenance never loses the live resume position': on every path of the maintenance routines " +
		"(R17.1) UpdateCheckpoint writes the new checkpoint, then repoints the index, then deletes the old checkpoint, then the old index entry, and a failed step ends the routine; (R17.2) the database GetCheckpoint found the old checkpoint in is selected before the new one is written; " +
		"(R17.3) stale-checkpoint collection spares the newest entry of an id a source still reports, never deletes entries younger than the threshold, and drops the index entry only for dead ids whose entries are all gone; " +
		"(R17.4) a bidirectional mode migration seeds checkpoint, mode-specific state and mode marker of the new namespace before repointing the index, and only then retires the old one; (R17.5) re-keying passes [new id, old id]. " +
		"Not decided: 'not smaller than' as a value statement for every prefix of requests."
}

// pathSites lists the resolved calls on a path, in order.
func pathSites(p *core.Path) []core.Site {
	var out []core.Site
	for _, in := range p.Instrs {
		if ci, ok := in.(ssa.CallInstruction); ok {
			if _, isDefer := in.(*ssa.Defer); isDefer {
				continue
			}
			out = append(out, core.ResolveCall(ci))
		}
	}
	return out
}

// failedOn reports whether the path assumed a non-nil error for the call.
func failedOn(p *core.Path, call ssa.Value) bool {
	if call == nil {
		return false
	}
	is := core.ErrOf(call)
	for _, f := range p.Conds {
		c, ok := core.FactCmp(f)
		if !ok || c.Op != token.NEQ {
			continue
		}
		x, y := p.Resolve(c.X), p.Resolve(c.Y)
		if core.IsNilConst(y) && is(x) || core.IsNilConst(x) && is(y) {
			return true
		}
	}
	return false
}

func shortCallee(s core.Site) string {
	n := s.Name
	if i := strings.LastIndex(n, "."); i >= 0 {
		return n[i+1:]
	}
	return n
}

func c17(w *core.World, r *core.Report) {
	ruleUpdateCheckpoint(w, r, "R17.1", "R17.2")

	r.Rule("R17.3", "stale-checkpoint collection spares the newest entry of live ids, entries younger than the threshold, and the index entry of ids that are live or still have entries", 4)
	ruleStaleGC(w, r)

	r.Rule("R17.4", "mode migration: seed (checkpoint ≺ mode-specific state ≺ mode marker) ≺ repoint index ≺ retire old index entry / old namespace", 2)
	ruleMigrationOrder(w, r)

	r.Rule("R17.7", "the recovery scan of a cluster target lists every slot 0..16383", 2)
	ruleAllSlots(w, r)

	r.Rule("R17.8", "the set of live replication ids is complete before anything is collected: a source that cannot be asked ends the round", 1)
	ruleLiveIdsComplete(w, r)

	r.Rule("R17.9", "the mode marker of an existing namespace says what is there until the migration has run", 1)
	ruleModeMarkerTruthful(w, r)

	r.Rule("R17.10", "a running output adopts a new replication id only after its checkpoint was moved there: every attempt is made with (new id, the id still held)", 1)
	ruleRunIdAdoptedAfterMove(w, r)

	r.Rule("R17.11", "a failed look-up of the stored position surfaces as an error, never as 'nothing stored'", 3)
	ruleLookupErrorsSurface(w, r)

	r.Rule("R17.12", "every command on the id → name index is issued with database 0 selected by the same function", 4)
	ruleIndexInDbZero(w, r)

	r.Rule("R17.13", "a mode migration carries over the greater of the old namespace's mode state and its root checkpoint: the root is read before the old namespace is deleted, and raises the seed when it is ahead", 1)
	ruleMigrationJoinsRoot(w, r)

	r.Rule("R17.6", "an index entry is deleted only under a test that it is not the entry just written (old id != new id)", 2)
	for _, name := range []string{"pkg/redis/checkpoint.UpdateCheckpoint", "(*syncer.syncer).resolveBisyncCheckpointNameWithClient"} {
		f := fn(w, r, name)
		if f == nil {
			continue
		}
		var written []ssa.Value
		for _, s := range core.SitesNamed(f, false, "pkg/redis/checkpoint.SetCheckpointHash") {
			if a := s.Args(); len(a) == 3 {
				written = append(written, a[1])
			}
		}
		n := 0
		for _, d := range core.SitesNamed(f, false, "pkg/redis/checkpoint.DelCheckpointHash") {
			a := d.Args()
			if len(a) != 2 {
				continue
			}
			n++
			guarded := false
			for _, fct := range core.FactsAt(d.Instr.Block()) {
				c, ok := core.FactCmp(fct)
				if !ok || c.Op != token.NEQ {
					continue
				}
				for _, wv := range written {
					if (sameValue(c.X, a[1]) && sameValue(c.Y, wv)) || (sameValue(c.Y, a[1]) && sameValue(c.X, wv)) {
						guarded = true
					}
				}
			}
			r.Check(guarded, shortName(name)+"/DelCheckpointHash-not-new", d.Pos(), "the index entry of an id is deleted without testing that it differs from the id the index was just repointed under: when the id did not change this removes the live entry and the next start finds no resume position")
		}
		if n == 0 {
			r.Fail(shortName(name)+"/DelCheckpointHash-not-new", f.Pos(), "old index entry is never retired")
		}
	}

	r.Rule("R17.5", "re-keying after a source id change passes [new id, previous id]", 1)
	if f := fn(w, r, "(*syncer.RedisOutput).SetRunId"); f != nil {
		n := 0
		for _, g := range core.DeepFuncs(f) {
			for _, s := range core.SitesNamed(g, false, "pkg/redis/checkpoint.UpdateCheckpoint") {
				n++
				a := s.Args()
				ok := false
				if len(a) == 3 {
					if el, isV := core.VariadicElems(a[2]); isV && len(el) == 2 {
						id := paramOf(f, "string", "id")
						ok = isParam(id)(el[0]) && core.DependsOn(el[1], func(v ssa.Value) bool { return core.IsFieldLoad(v, "", "RunId") })
					}
				}
				r.Check(ok, "RedisOutput.SetRunId/ids", s.Pos(), "UpdateCheckpoint must be given []string{new id, configured previous id}")
			}
		}
		if n == 0 {
			r.Fail("RedisOutput.SetRunId/ids", f.Pos(), "SetRunId no longer re-keys the checkpoint")
		}
	}
	// the (re)connection decisions of syncMeta decide what happens to the stored position (shared with C06)
	r.Rule("R06.3", "PSYNC argument choice and cache clearing on every successful path of syncMeta (shared with C06)", 3)
	r.Rule("R06.4", "reader start / writer offset / snapshot size definitions on every successful path of syncMeta (shared with C06)", 2)
	r.Rule("R06.6", "one id for cache and bookkeeping; CONTINUE keeps the source's current id (shared with C06)", 2)
	r.Rule("R06.10", "a full resynchronisation does not carry the target's old position over to the new replication id (shared with C06)", 2)
	r.Rule("R06.14", "a granted continuation keeps the position the target holds: the output is told to drop it only on a full resynchronisation (shared with C06)", 1)
	ruleSyncMetaPaths(w, r)
	r.Rule("R06.12", "the start-up maintenance answers the run id it left the checkpoint under: configured with another id the output never moves the record, and the position is lost once the source stops reporting the old id (shared with C06; seed C17-14)", 2)
	ruleStartupKeepsCheckpointId(w, r)
}

func ruleStaleGC(w *core.World, r *core.Report) {
	// (a) DelStaleCheckpoint: the hdel is reached only for entries that are not the spared newest and are older than the threshold
	if f := fn(w, r, "pkg/redis/checkpoint.DelStaleCheckpoint"); f != nil {
		except := paramOf(f, "bool", "exceptNewest")
		maxPhi, argOfMax := argmaxIdiom(f, "Offset")
		var hdel []core.Site
		doesHdel := func(g *ssa.Function) bool {
			for _, s := range core.Sites(g, false) {
				if s.Method == "Do" {
					if cmd, ok := core.CmdName(s); ok && cmd == "hdel" {
						return true
					}
				}
			}
			return false
		}
		for _, s := range core.Sites(f, false) {
			if s.Method == "Do" {
				if cmd, ok := core.CmdName(s); ok && cmd == "hdel" {
					hdel = append(hdel, s)
				}
			}
			// or through a helper shared with the other deletions
			if s.Callee != nil && s.Callee.Parent() == nil && len(s.Callee.Blocks) > 0 && s.Instr.Parent() == f && doesHdel(s.Callee) {
				hdel = append(hdel, s)
			}
		}
		if len(hdel) == 0 || except == nil {
			r.Unresolved("DelStaleCheckpoint/hdel", "deletion site or exceptNewest parameter not found")
		}
		for _, h := range hdel {
			// the deletion may sit in a helper written for this loop alone: the loop is the one around its call
			at := h.Instr
			for at.Parent() != f {
				c := core.ExpandedInto(at.Parent())
				if c == nil {
					break
				}
				at = c
			}
			head := core.LoopHeadOf(at.Block())
			if head == nil {
				r.Undecided("DelStaleCheckpoint/hdel", h.Pos(), "deletion is not inside the per-database loop")
				continue
			}
			bad := ""
			n := 0
			isMtime := func(v ssa.Value) bool { return fieldNameOfLoad(v) == "Mtime" }
			// the threshold: now.Add(-1 * beforeNow).UnixNano(), nothing else applied to it
			beforeNow := paramOf(f, "time.Duration", "beforeNow")
			isThreshold := func(v ssa.Value) bool {
				c, ok := core.Unwrap(v).(*ssa.Call)
				if !ok || core.ResolveCall(c).Name != "(time.Time).UnixNano" {
					return false
				}
				add, ok := c.Call.Args[0].(*ssa.Call)
				if !ok || core.ResolveCall(add).Name != "(time.Time).Add" {
					return false
				}
				now, ok := add.Call.Args[0].(*ssa.Call)
				if !ok || core.ResolveCall(now).Name != "time.Now" {
					return false
				}
				m, ok := add.Call.Args[1].(*ssa.BinOp)
				if !ok || m.Op != token.MUL {
					return false
				}
				k, isK := core.ConstInt(m.X)
				other := m.Y
				if !isK {
					k, isK = core.ConstInt(m.Y)
					other = m.X
				}
				return isK && k == -1 && other == ssa.Value(beforeNow)
			}
			core.EnumPaths(head, 0, 100000, func(p *core.Path) {
				on := false
				for _, in := range p.Instrs {
					if in == h.Instr {
						on = true
					}
				}
				if !on {
					return
				}
				n++
				// not younger than the threshold
				young := true
				for _, fct := range p.Conds {
					c, ok := core.AsCmp(p.Resolve(fct.Cond), fct.Val)
					if !ok {
						continue
					}
					x, y := p.Resolve(c.X), p.Resolve(c.Y)
					if ((c.Op == token.LEQ || c.Op == token.LSS) && isMtime(x) && isThreshold(y)) ||
						((c.Op == token.GEQ || c.Op == token.GTR) && isMtime(y) && isThreshold(x)) {
						young = false
					}
				}
				if young {
					bad = "an entry is deleted on a path that did not establish that it is older than the staleness threshold"
				}
				// newest spared when requested
				spared := false
				if v, ok := p.Eval(except); ok && !v {
					spared = true
				}
				for _, fct := range p.Conds {
					c, ok := core.AsCmp(p.Resolve(fct.Cond), fct.Val)
					if ok && c.Op == token.NEQ {
						if ph, isPhi := core.Unwrap(c.Y).(*ssa.Phi); isPhi && argOfMax[ph] {
							spared = true
						}
						if ph, isPhi := core.Unwrap(c.X).(*ssa.Phi); isPhi && argOfMax[ph] {
							spared = true
						}
					}
				}
				if !spared {
					bad = "an entry is deleted on a path where it may be the newest one of an id that a source still reports"
				}
			})
			r.Check(bad == "" && n > 0, "DelStaleCheckpoint/hdel", h.Pos(), "%s (paths=%d)", bad, n)
		}
		// newest = argmax offset
		okMax := false
		for _, in := range core.Instrs(f) {
			b, ok := in.(*ssa.BinOp)
			if !ok || b.Op != token.GTR {
				continue
			}
			if fieldNameOfLoad(b.X) == "Offset" {
				if ph, isPhi := b.Y.(*ssa.Phi); isPhi && ph == maxPhi {
					okMax = true
				}
			}
		}
		r.Check(okMax, "DelStaleCheckpoint/newest", f.Pos(), "the spared database must be the one holding the greatest offset (strict > against the running maximum)")
	}
	// (b) the caller: exceptNewest = id is live; index entry dropped only for dead ids with everything deleted
	f := fn(w, r, "(*cmd.SyncerCmd).gcStaleCheckpoint")
	if f == nil {
		return
	}
	n := 0
	for _, g := range reachableFuncs(f) {
		for _, s := range core.SitesNamed(g, false, "pkg/redis/checkpoint.DelStaleCheckpoint") {
			if s.Instr.Parent() != g {
				continue
			}
			n++
			a := s.Args()
			isExist := func(v ssa.Value) bool {
				e, ok := core.Unwrap(v).(*ssa.Extract)
				if !ok || e.Index != 1 {
					return false
				}
				_, ok = e.Tuple.(*ssa.Lookup)
				return ok
			}
			okArg := len(a) == 5 && isExist(a[4])
			// the looked-up key is the run id of the same index row
			if okArg {
				lk := core.Unwrap(a[4]).(*ssa.Extract).Tuple.(*ssa.Lookup)
				okArg = core.Unwrap(lk.Index) == core.Unwrap(a[2])
			}
			r.Check(okArg, "gcStaleCheckpoint/exceptNewest", s.Pos(), "the newest entry must be spared exactly when the entry's run id is in the set of ids the sources report")
			// DelCheckpointHash guarded by !exist && total == deleted
			for _, d := range core.SitesNamed(g, false, "pkg/redis/checkpoint.DelCheckpointHash") {
				dead, all := false, false
				for _, fct := range core.FactsAt(d.Instr.Block()) {
					if !fct.Val && isExist(fct.Cond) {
						dead = true
					}
					if c, ok := core.FactCmp(fct); ok && c.Op == token.EQL {
						e1, ok1 := c.X.(*ssa.Extract)
						e2, ok2 := c.Y.(*ssa.Extract)
						if ok1 && ok2 && e1.Tuple == s.Value() && e2.Tuple == s.Value() && e1.Index+e2.Index == 1 {
							all = true
						}
					}
				}
				r.Check(dead && all, "gcStaleCheckpoint/DelCheckpointHash", d.Pos(), "the index entry may be removed only for an id no source reports and only when every entry of it was deleted")
			}
		}
	}
	if n == 0 {
		r.Fail("gcStaleCheckpoint/exceptNewest", f.Pos(), "no call of DelStaleCheckpoint found")
	}
	// the live-id set is filled from both ids of every source
	fills := 0
	for _, g := range reachableFuncs(f) {
		for _, s := range core.SitesNamed(g, false, "pkg/redis.GetRunIds") {
			if s.Instr.Parent() != g {
				continue
			}
			got := map[int]bool{}
			for _, h := range reachableFuncs(f) {
				for _, in := range core.OwnInstrs(h) {
					mu, ok := in.(*ssa.MapUpdate)
					if !ok {
						continue
					}
					// the key is one of the two ids the call returned (handed on through helpers' results)
					core.Walk(mu.Key, func(x ssa.Value) bool {
						if e, ok := x.(*ssa.Extract); ok && e.Tuple == s.Value() && e.Index <= 1 {
							got[e.Index] = true
						}
						return true
					})
				}
			}
			fills += len(got)
		}
	}
	r.Check(fills >= 2, "gcStaleCheckpoint/live-ids", f.Pos(), "both replication ids of every source must enter the live set (found %d insertions)", fills)
}

func ruleMigrationOrder(w *core.World, r *core.Report) {
	if f := fn(w, r, "(*syncer.syncer).resolveBisyncCheckpointNameWithClient"); f != nil {
		want := []string{"seedBisyncNamespace", "SetCheckpointHash", "DelCheckpointHash", "cleanupBisyncNamespace"}
		idx := map[string]int{}
		for i, n := range want {
			idx[n] = i + 1
		}
		bad := ""
		var badPos token.Pos
		full := 0
		okEnum := core.EnumPaths(f.Blocks[0], 0, 200000, func(p *core.Path) {
			var seq []core.Site
			for _, s := range pathSites(p) {
				if idx[shortCallee(s)] > 0 {
					seq = append(seq, s)
				}
			}
			last := 0
			for i, s := range seq {
				k := idx[shortCallee(s)]
				if k <= last {
					bad, badPos = shortCallee(s)+" after "+shortCallee(seq[i-1]), s.Pos()
				}
				if k >= 3 {
					// both the seed and the repoint must have succeeded
					if i < 2 || idx[shortCallee(seq[0])] != 1 || idx[shortCallee(seq[1])] != 2 {
						bad, badPos = shortCallee(s)+" is reachable before the new namespace was seeded and the index repointed", s.Pos()
					}
				}
				if k == 2 && (i < 1 || idx[shortCallee(seq[0])] != 1) {
					bad, badPos = "the index is repointed to a namespace that was not seeded", s.Pos()
				}
				if k <= 2 && i+1 < len(seq) && failedOn(p, s.Value()) {
					bad, badPos = "a failed "+shortCallee(s)+" is followed by "+shortCallee(seq[i+1]), seq[i+1].Pos()
				}
				last = k
			}
			if len(seq) == 4 {
				full++
			}
		})
		if !okEnum {
			r.Undecided("resolveBisyncCheckpointName/migration-order", f.Pos(), "too many paths")
		} else if bad != "" {
			r.Fail("resolveBisyncCheckpointName/migration-order", badPos, "%s", bad)
		} else {
			r.Check(full > 0, "resolveBisyncCheckpointName/migration-order", f.Pos(), "no path performs the complete migration")
		}
	}
	if f := fn(w, r, "(*syncer.syncer).seedBisyncNamespace"); f != nil {
		seed := paramOf(f, "BisyncNamespaceSeed", "seed")
		bad := ""
		var badPos token.Pos
		seeded := 0
		core.EnumPaths(f.Blocks[0], 0, 100000, func(p *core.Path) {
			hasSeed := p.Holds(token.NEQ, func(v ssa.Value) bool { return core.Unwrap(v) == ssa.Value(seed) }, core.IsNilConst)
			var names []string
			var sites []core.Site
			for _, s := range pathSites(p) {
				n := shortCallee(s)
				switch {
				case s.Name == "pkg/redis/checkpoint.SetCheckpoint", s.Name == "pkg/redis/checkpoint.SaveBisyncFrontierSnapshot", s.Name == "pkg/redis/checkpoint.SaveBisyncNamespaceMode":
					names = append(names, n)
					sites = append(sites, s)
				case s.Method == "Do":
					if cmd, ok := core.CmdName(s); ok && cmd == "hset" {
						names = append(names, "hset-latest")
						sites = append(sites, s)
					}
				}
			}
			for i, n := range names {
				if n != "SaveBisyncNamespaceMode" {
					continue
				}
				if hasSeed {
					seeded++
					okOrder := i == 2 && names[0] == "SetCheckpoint" && (names[1] == "SaveBisyncFrontierSnapshot" || names[1] == "hset-latest")
					if !okOrder {
						bad, badPos = "the mode marker is written on a seeded path without checkpoint and mode-specific state before it (sequence "+strings.Join(names, " ")+")", sites[i].Pos()
					}
				}
				if i+1 < len(names) {
					bad, badPos = "writes after the mode marker", sites[i+1].Pos()
				}
			}
			for i, s := range sites {
				if i+1 < len(sites) && failedOn(p, s.Value()) {
					bad, badPos = "a failed "+names[i]+" is followed by "+names[i+1], sites[i+1].Pos()
				}
			}
		})
		if bad != "" {
			r.Fail("seedBisyncNamespace/order", badPos, "%s", bad)
		} else {
			r.Check(seeded >= 2, "seedBisyncNamespace/order", f.Pos(), "expected seeded paths for both mode families, found %d", seeded)
		}
	}
}

// ruleUpdateCheckpoint checks the re-keying routine on all of its paths
// (used by C17 and, as the "no window without a position" condition, by C07).
func ruleUpdateCheckpoint(w *core.World, r *core.Report, idOrder, idDb string) {
	r.Rule(idOrder, "UpdateCheckpoint: SetCheckpoint ≺ SetCheckpointHash ≺ DelCheckpoint ≺ DelCheckpointHash on every path; a failed step is the last effect; writes address (new name, new id), deletes (old name, old id)", 2)
	r.Rule(idDb, "the database the old checkpoint was found in is selected before the new checkpoint is written", 1)
	if f := fn(w, r, "pkg/redis/checkpoint.UpdateCheckpoint"); f != nil {
		order := map[string]int{"SetCheckpoint": 1, "SetCheckpointHash": 2, "DelCheckpoint": 3, "DelCheckpointHash": 4}
		bad, bad2 := "", ""
		var badPos, bad2Pos token.Pos
		full, withGet := 0, 0
		okEnum := core.EnumPaths(f.Blocks[0], 0, 100000, func(p *core.Path) {
			var seq []core.Site
			for _, s := range pathSites(p) {
				if strings.HasPrefix(s.Name, "pkg/redis/checkpoint.") && order[shortCallee(s)] > 0 {
					seq = append(seq, s)
				}
			}
			last := 0
			for i, s := range seq {
				k := order[shortCallee(s)]
				if k <= last {
					bad, badPos = "effects out of order: "+shortCallee(s)+" after "+shortCallee(seq[i-1]), s.Pos()
				}
				// each delete requires both writes before it
				if k >= 3 && (i < 2 || order[shortCallee(seq[0])] != 1 || order[shortCallee(seq[1])] != 2) {
					bad, badPos = shortCallee(s)+" is reachable before the new checkpoint was written and the index repointed (a stop here leaves no resume position)", s.Pos()
				}
				if k == 4 && (i < 1 || order[shortCallee(seq[i-1])] != 3) {
					bad, badPos = "the old index entry is deleted before the old checkpoint", s.Pos()
				}
				if i+1 < len(seq) && failedOn(p, s.Value()) {
					bad, badPos = "a failed "+shortCallee(s)+" is followed by "+shortCallee(seq[i+1]), seq[i+1].Pos()
				}
				last = k
			}
			if len(seq) == 4 {
				full++
			}
			// R17.2
			var get, set core.Site
			var gi, si = -1, -1
			all := pathSites(p)
			for i, s := range all {
				if s.Name == "pkg/redis/checkpoint.GetCheckpoint" {
					get, gi = s, i
				}
				if s.Name == "pkg/redis/checkpoint.SetCheckpoint" && si < 0 {
					set, si = s, i
				}
			}
			if gi >= 0 && si > gi {
				withGet++
				isDb := func(v ssa.Value) bool {
					e, ok := core.Unwrap(v).(*ssa.Extract)
					return ok && e.Index == 1 && e.Tuple == get.Value()
				}
				sel := false
				for _, s := range all[gi+1 : si] {
					if s.Name == "pkg/redis.SelectDB" {
						a := s.Args()
						if len(a) == 2 && core.DependsOn(a[1], isDb) {
							sel = true
						}
					}
				}
				none := p.Holds(token.LSS, isDb, isConstInt(0)) || p.Holds(token.LEQ, isDb, isConstInt(-1)) || p.Holds(token.EQL, isDb, isConstInt(-1))
				if !sel && !none {
					bad2, bad2Pos = "the new checkpoint is written without selecting the database the old one was found in: GetCheckpoint leaves the connection in whichever database it visited last, so the position can move to another database (or be shadowed by a stale one)", set.Pos()
				}
			}
		})
		r.Rule(idOrder, "", 1)
		if !okEnum {
			r.Undecided("UpdateCheckpoint/order", f.Pos(), "too many paths")
		} else if bad != "" {
			r.Fail("UpdateCheckpoint/order", badPos, "%s", bad)
		} else {
			r.Check(full > 0, "UpdateCheckpoint/order", f.Pos(), "no path performs the complete write-new / repoint / delete-old sequence")
		}
		r.Rule(idDb, "", 1)
		if bad2 != "" {
			r.Fail("UpdateCheckpoint/database", bad2Pos, "%s", bad2)
		} else {
			r.Check(withGet > 0, "UpdateCheckpoint/database", f.Pos(), "no path restores an old checkpoint")
		}
		// which record each step addresses: writes go to (new name, new id), deletes to (old name, old id)
		r.Rule(idOrder, "", 1)
		if len(f.Params) == 3 {
			newName := ssa.Value(f.Params[1])
			isNewId := func(v ssa.Value) bool { // ids[0]
				u, ok := core.Unwrap(v).(*ssa.UnOp)
				if !ok || u.Op != token.MUL {
					return false
				}
				ia, ok := u.X.(*ssa.IndexAddr)
				return ok && ia.X == ssa.Value(f.Params[2]) && isConstInt(0)(ia.Index)
			}
			isOldName := isResultOf("pkg/redis/checkpoint.GetCheckpointHash", 0)
			isOldId := func(v ssa.Value) bool { // the RunId of the record found, read before it is overwritten
				return fieldOf("RunId", func(ssa.Value) bool { return true })(core.Unwrap(v))
			}
			okAll, n := true, 0
			var pos token.Pos = f.Pos()
			var delId ssa.Value
			for _, st := range core.Sites(f, false) {
				a := st.Args()
				switch st.Name {
				case "pkg/redis/checkpoint.SetCheckpointHash":
					n++
					if len(a) != 3 || !isNewId(a[1]) || core.Unwrap(a[2]) != newName {
						okAll, pos = false, st.Pos()
					}
				case "pkg/redis/checkpoint.DelCheckpoint":
					n++
					if len(a) != 3 || !isOldName(a[1]) || !isOldId(a[2]) || isNewId(a[2]) {
						okAll, pos = false, st.Pos()
					} else {
						delId = core.Unwrap(a[2])
					}
				case "pkg/redis/checkpoint.DelCheckpointHash":
					n++
					if len(a) != 2 || !isOldId(a[1]) || isNewId(a[1]) || (delId != nil && core.Unwrap(a[1]) != delId) {
						okAll, pos = false, st.Pos()
					}
				case "pkg/redis/checkpoint.GetCheckpoint":
					n++
					if len(a) != 3 || !isOldName(a[1]) {
						okAll, pos = false, st.Pos()
					}
				}
			}
			r.Check(okAll && n == 4, "UpdateCheckpoint/addresses", pos, "the old record is read and deleted under the name the index gave and the id stored in it; the index is repointed from the new id to the new name. Deleting under the new name removes the record that was just written whenever only the name changed (steps found: %d)", n)
		}
	}

}

func shortName(n string) string {
	if i := strings.LastIndex(n, "."); i >= 0 {
		return n[i+1:]
	}
	return n
}

// sameValue: structural equality of two pure expressions (same SSA value, or
// loads of the same element/field of the same base).
func sameValue(a, b ssa.Value) bool {
	a, b = core.Unwrap(a), core.Unwrap(b)
	if a == b {
		return true
	}
	// the same pure conversion of the same value, written out twice
	if ca, isA := a.(*ssa.Call); isA {
		if cb, isB := b.(*ssa.Call); isB {
			ga, gb := ca.Call.StaticCallee(), cb.Call.StaticCallee()
			if ga != nil && ga == gb && len(ca.Call.Args) == len(cb.Call.Args) {
				switch core.FuncName(ga) {
				case "pkg/util.BytesToString", "pkg/util.StringToBytes":
					for i := range ca.Call.Args {
						if !sameValue(ca.Call.Args[i], cb.Call.Args[i]) {
							return false
						}
					}
					return true
				}
			}
		}
	}
	ua, ok1 := a.(*ssa.UnOp)
	ub, ok2 := b.(*ssa.UnOp)
	if ok1 && ok2 && ua.Op == token.MUL && ub.Op == token.MUL {
		ia, ok1 := ua.X.(*ssa.IndexAddr)
		ib, ok2 := ub.X.(*ssa.IndexAddr)
		if ok1 && ok2 {
			ka, okA := core.ConstInt(ia.Index)
			kb, okB := core.ConstInt(ib.Index)
			return okA && okB && ka == kb && sameValue(ia.X, ib.X)
		}
		fa, ok1 := ua.X.(*ssa.FieldAddr)
		fb, ok2 := ub.X.(*ssa.FieldAddr)
		if ok1 && ok2 {
			return fa.Field == fb.Field && sameValue(fa.X, fb.X)
		}
	}
	return false
}

// argmaxIdiom recognises `if x.<field> > max { max = x.<field>; arg = k }`
// carried round a loop: it returns the running maximum and the variables
// that are updated together with it (the position of the maximum).
func argmaxIdiom(f *ssa.Function, field string) (*ssa.Phi, map[*ssa.Phi]bool) {
	args := map[*ssa.Phi]bool{}
	var maxPhi *ssa.Phi
	for _, in := range core.Instrs(f) {
		cmp, ok := in.(*ssa.BinOp)
		if !ok || cmp.Op != token.GTR || fieldNameOfLoad(cmp.X) != field {
			continue
		}
		ph, ok := cmp.Y.(*ssa.Phi)
		if !ok {
			continue
		}
		// the maximum is updated with the compared value
		fam := phiFamily(f, ph)
		updated := false
		for q := range fam {
			for _, e := range q.Edges {
				if core.Unwrap(e) == core.Unwrap(cmp.X) || (fieldNameOfLoad(e) == field && e.Type() == cmp.X.Type()) {
					updated = true
				}
			}
		}
		if !updated {
			continue
		}
		maxPhi = ph
		// variables assigned on the edge taken when the comparison holds
		for _, in2 := range core.Instrs(f) {
			q, ok := in2.(*ssa.Phi)
			if !ok || fam[q] {
				continue
			}
			for i := range q.Edges {
				if _, isPhi := q.Edges[i].(*ssa.Phi); isPhi {
					continue
				}
				for _, fct := range core.FactsAt(q.Block().Preds[i]) {
					if fct.Val && fct.Cond == ssa.Value(cmp) {
						for r2 := range phiFamily(f, q) {
							args[r2] = true
						}
					}
				}
			}
		}
	}
	return maxPhi, args
}

// ---------------------------------------------------------------- R17.7 the recovery scan covers every cluster slot

// ruleAllSlots: on a cluster target the per-slot recovery state (latest
// records, journals, old namespaces) is looked up slot by slot. The list of
// slots to scan must be 0..16383 complete: a record that sits in a slot the
// list omits is not found by the migration / the start-point search, the new
// namespace is seeded from an older record and the old one deleted.
func ruleAllSlots(w *core.World, r *core.Report) {
	const nSlots = 16384
	for _, name := range []string{"(*syncer.RedisOutput).bisyncRecoverySlots", "syncer.bisyncRecoverySlotsForConfig"} {
		f := fn(w, r, name)
		if f == nil {
			continue
		}
		verdict, why := slotListCoverage(f, nSlots)
		switch verdict {
		case 1:
			r.Check(true, shortName(name)+"/all-slots", f.Pos(), "")
		case 0:
			r.Check(false, shortName(name)+"/all-slots", f.Pos(), "the list of slots scanned for recovery state on a cluster target does not cover 0..16383 (%s): a record kept in an omitted slot is not found, the resume position falls back to an older record or to none", why)
		default:
			r.Undecided(shortName(name)+"/all-slots", f.Pos(), "slot list construction not recognised (%s)", why)
		}
	}
}

// slotListCoverage: 1 = f builds the list 0..n-1 completely, 0 = it visibly
// builds less, -1 = construction not recognised.
func slotListCoverage(f *ssa.Function, n int64) (int, string) {
	isU16Slice := func(t types.Type) bool {
		s, ok := t.Underlying().(*types.Slice)
		if !ok {
			return false
		}
		b, ok := s.Elem().Underlying().(*types.Basic)
		return ok && b.Kind() == types.Uint16
	}
	verdict, why := -1, "no slot list found"
	for _, in := range core.OwnInstrs(f) {
		var v ssa.Value
		var length int64 = -1
		switch x := in.(type) {
		case *ssa.MakeSlice:
			if !isU16Slice(x.Type()) {
				continue
			}
			v = x
			if k, ok := core.ConstInt(x.Len); ok {
				length = k
			}
		case *ssa.Slice:
			al, ok := x.X.(*ssa.Alloc)
			if !ok || !isU16Slice(x.Type()) {
				continue
			}
			arr, ok := al.Type().Underlying().(*types.Pointer).Elem().Underlying().(*types.Array)
			if !ok || arr.Len() < 2 {
				continue // a literal such as []uint16{0}
			}
			v = x
			length = arr.Len()
			if x.High != nil {
				if k, ok := core.ConstInt(x.High); ok {
					length = k
				} else {
					length = -1
				}
			}
		default:
			continue
		}
		if length > 0 {
			// filled in place: slots[i] = i for i in [0, len)
			if length != n {
				return 0, "the list has " + strconv.FormatInt(length, 10) + " entries"
			}
			filled := false
			for _, in2 := range core.OwnInstrs(f) {
				st, ok := in2.(*ssa.Store)
				if !ok {
					continue
				}
				ia, ok := st.Addr.(*ssa.IndexAddr)
				if !ok || ia.X != v {
					continue
				}
				if core.Unwrap(st.Val) != core.Unwrap(ia.Index) {
					return 0, "entry i does not hold slot i"
				}
				from, bound, ok := indexRange(ia.Index)
				if !ok {
					return -1, "loop not recognised"
				}
				if from != 0 {
					return 0, "the fill starts at " + strconv.FormatInt(from, 10)
				}
				if k, isK := core.ConstInt(bound); isK {
					if k != n {
						return 0, "the fill stops at " + strconv.FormatInt(k, 10)
					}
				} else if c, isC := core.Unwrap(bound).(*ssa.Call); !isC || !isBuiltin(c, "len") || c.Call.Args[0] != v {
					return -1, "loop bound not recognised"
				}
				filled = true
			}
			if !filled {
				return -1, "no fill loop"
			}
			verdict, why = 1, ""
			continue
		}
		if length == 0 {
			// grown by append: for c := 0; c < n; c++ { slots = append(slots, c) }
			for _, ref := range *v.Referrers() {
				ph, ok := ref.(*ssa.Phi)
				if !ok {
					continue
				}
				for _, e := range ph.Edges {
					app, ok := e.(*ssa.Call)
					if !ok || !isBuiltin(app, "append") || app.Call.Args[0] != ssa.Value(ph) {
						continue
					}
					elems, ok := core.VariadicElems(app.Call.Args[1])
					if !ok || len(elems) != 1 {
						return -1, "append form not recognised"
					}
					from, bound, ok := indexRange(core.Unwrap(elems[0]))
					if !ok {
						// bounded by the list's own length: for c := 0; len(list) < K; c++ { list = append(list, c) }
						from, bound, ok = lengthBoundedFill(ph, app, elems[0])
					}
					if !ok {
						return -1, "loop not recognised"
					}
					k, isK := core.ConstInt(bound)
					if !isK {
						return -1, "loop bound not constant"
					}
					if from != 0 || k != n {
						return 0, "slots " + strconv.FormatInt(from, 10) + ".." + strconv.FormatInt(k-1, 10) + " are listed"
					}
					verdict, why = 1, ""
				}
			}
		}
	}
	return verdict, why
}

// lengthBoundedFill: the list phi grows by exactly one element per iteration (its only back edge is app), the
// loop runs while len(list) < bound, and the element is a counter that starts at a constant and advances by
// one on every back edge: the list holds from, from+1, … from+bound-1.
func lengthBoundedFill(list *ssa.Phi, app *ssa.Call, elem ssa.Value) (from int64, bound ssa.Value, ok bool) {
	head := list.Block()
	for i, e := range list.Edges {
		if head.Dominates(head.Preds[i]) && e != ssa.Value(app) {
			return 0, nil, false
		}
	}
	e := core.Unwrap(elem)
	if cv, isCv := e.(*ssa.Convert); isCv {
		e = core.Unwrap(cv.X)
	}
	ctr, isPhi := e.(*ssa.Phi)
	if !isPhi || ctr.Block() != head {
		return 0, nil, false
	}
	haveInit := false
	for i, ce := range ctr.Edges {
		if head.Dominates(head.Preds[i]) {
			b, isB := ce.(*ssa.BinOp)
			if !isB || b.Op != token.ADD || b.X != ssa.Value(ctr) || !isConstInt(1)(b.Y) {
				return 0, nil, false
			}
			continue
		}
		k, isK := core.ConstInt(ce)
		if !isK {
			return 0, nil, false
		}
		from, haveInit = k, true
	}
	iff, isIf := head.Instrs[len(head.Instrs)-1].(*ssa.If)
	if !haveInit || !isIf {
		return 0, nil, false
	}
	cmp, isCmp := iff.Cond.(*ssa.BinOp)
	if !isCmp || cmp.Op != token.LSS {
		return 0, nil, false
	}
	ln, isCall := core.Unwrap(cmp.X).(*ssa.Call)
	if !isCall || !isBuiltin(ln, "len") || ln.Call.Args[0] != ssa.Value(list) {
		return 0, nil, false
	}
	// the body (true edge) is where the append is; the counter's range is [from, from+bound)
	if from != 0 {
		return 0, nil, false
	}
	return from, cmp.Y, true
}

func isBuiltin(c *ssa.Call, name string) bool {
	b, ok := c.Call.Value.(*ssa.Builtin)
	return ok && b.Name() == name
}

// indexRange: idx runs over from, from+1, … while idx < bound (exclusive):
// `for i := from; i < bound; i++` (idx is the loop variable), `i <= last`
// (bound = last+1 for a constant), or the index of `for i := range s`.
func indexRange(idx ssa.Value) (from int64, bound ssa.Value, ok bool) {
	idx = core.Unwrap(idx)
	var ph *ssa.Phi
	plusOne := false
	switch x := idx.(type) {
	case *ssa.Phi:
		ph = x
	case *ssa.BinOp:
		// range form: index = phi + 1, phi starts at -1
		p, isP := x.X.(*ssa.Phi)
		if x.Op != token.ADD || !isP || !isConstInt(1)(x.Y) {
			return 0, nil, false
		}
		ph, plusOne = p, true
	default:
		return 0, nil, false
	}
	if len(ph.Edges) < 2 {
		return 0, nil, false
	}
	head := ph.Block()
	var next ssa.Value
	init := int64(0)
	haveInit := false
	for i, e := range ph.Edges {
		if head.Dominates(head.Preds[i]) {
			// several back edges (a `continue` in the body): all carry the same next value
			if next != nil && next != e {
				return 0, nil, false
			}
			next = e
		} else if k, isK := core.ConstInt(e); isK {
			if haveInit && k != init {
				return 0, nil, false
			}
			init, haveInit = k, true
		} else {
			return 0, nil, false
		}
	}
	if !haveInit || next == nil {
		return 0, nil, false
	}
	nb, isB := next.(*ssa.BinOp)
	if !isB || nb.Op != token.ADD || nb.X != ssa.Value(ph) || !isConstInt(1)(nb.Y) {
		return 0, nil, false
	}
	// the test that keeps the loop going
	var tested ssa.Value = ph
	if plusOne {
		tested = nb
		if idx != ssa.Value(nb) {
			return 0, nil, false
		}
		init++
	}
	for _, b := range []*ssa.BasicBlock{head, nb.Block()} {
		if len(b.Instrs) == 0 {
			continue
		}
		iff, isIf := b.Instrs[len(b.Instrs)-1].(*ssa.If)
		if !isIf {
			continue
		}
		c, isC := core.AsCmp(iff.Cond, true)
		if !isC || core.Unwrap(c.X) != tested {
			continue
		}
		switch c.Op {
		case token.LSS:
			return init, c.Y, true
		case token.LEQ:
			if k, isK := core.ConstInt(c.Y); isK {
				return init, ssa.NewConst(constant.MakeInt64(k+1), c.Y.Type()), true
			}
		}
	}
	return 0, nil, false
}

// ---------------------------------------------------------------- R17.8 the set of live ids is complete before anything is collected

// ruleLiveIdsComplete: the collector spares the newest checkpoint of every id a
// source still reports. The set of reported ids is only as good as its
// collection: a source whose ids could not be read must abandon the round, not
// be skipped — otherwise its id counts as dead and its only checkpoint is
// removed.
func ruleLiveIdsComplete(w *core.World, r *core.Report) {
	f := fn(w, r, "(*cmd.SyncerCmd).gcStaleCheckpoint")
	if f == nil {
		return
	}
	n := 0
	for _, g := range reachableFuncs(f) {
		for _, s := range core.SitesNamed(g, false, "pkg/redis.GetRunIds") {
			if s.Instr.Parent() != g {
				continue
			}
			n++
			// from the failure edge of the call no collection is reachable in this function: it returns
			bad := false
			var pos token.Pos = s.Pos()
			okEnum := core.EnumPathsN(g.Blocks[0], 0, 200000, 2, func(p *core.Path) {
				if bad {
					return
				}
				failedAt := -1
				for i, in := range p.Instrs {
					if in == s.Instr {
						failedAt = i
					}
				}
				if failedAt < 0 || !failedOn(p, s.Value()) {
					return
				}
				// the path went on after the failure: it must end the round (return), not reach the next source
				// or the collection
				for _, in := range p.Instrs[failedAt+1:] {
					if c, ok := in.(*ssa.Call); ok {
						nm := core.ResolveCall(c).Name
						if nm == "pkg/redis.GetRunIds" || strings.HasSuffix(nm, "DelStaleCheckpoint") || strings.Contains(nm, "gcStale") {
							bad, pos = true, in.Pos()
						}
					}
				}
				if _, isRet := p.End.(*ssa.Return); !isRet {
					bad = true
				}
			})
			if !okEnum {
				r.Undecided(shortName(core.FuncName(outermost(g)))+"/live-ids-complete", s.Pos(), "too many paths")
				continue
			}
			r.Check(!bad, shortName(core.FuncName(outermost(g)))+"/live-ids-complete", pos, "after a source's replication ids could not be read the collection goes on: the ids of that source are missing from the live set, so its newest checkpoint is treated as stale and removed although the source still holds the id")
		}
	}
	if n == 0 {
		r.Fail("gcStaleCheckpoint/live-ids-complete", f.Pos(), "the live ids are not read from the sources")
	}
}

// ---------------------------------------------------------------- R17.9 the mode marker of an existing namespace

// ruleModeMarkerTruthful: the marker of a namespace says in which format its
// recovery state is. Writing the *desired* mode into the marker of an existing
// namespace is a format switch; it is allowed only where no state has to be
// moved (nothing recoverable was found, or both modes use the same recovery
// format). Everywhere else the marker must say what is there (the loaded or
// inferred mode) until the migration has run: a stop right after a premature
// marker makes the next start skip the migration and resume from stale state.
func ruleModeMarkerTruthful(w *core.World, r *core.Report) {
	f := fn(w, r, "(*syncer.syncer).resolveBisyncCheckpointNameWithClient")
	if f == nil {
		return
	}
	desired := paramOf(f, "BisyncMode", "desiredMode")
	if desired == nil {
		r.Unresolved("resolveBisyncCheckpointNameWithClient/desired-mode", "the desired-mode parameter was not found")
		return
	}
	isKnown := func(v ssa.Value) bool {
		e, ok := core.Unwrap(v).(*ssa.Extract)
		if !ok || e.Index != 1 {
			return false
		}
		c, ok := e.Tuple.(*ssa.Call)
		if !ok {
			return false
		}
		n := core.ResolveCall(c).Name
		return strings.HasSuffix(n, "LoadBisyncNamespaceMode") || strings.HasSuffix(n, "inferBisyncNamespaceMode")
	}
	bad := ""
	var pos token.Pos = f.Pos()
	n := 0
	okEnum := core.EnumPathsN(f.Blocks[0], 0, 400000, core.Unroll, func(p *core.Path) {
		if bad != "" {
			return
		}
		for _, s := range pathSites(p) {
			if !strings.HasSuffix(s.Name, "checkpoint.SaveBisyncNamespaceMode") {
				continue
			}
			a := s.Common().Args
			if len(a) < 3 || core.Unwrap(p.Resolve(a[2])) != ssa.Value(desired) {
				continue
			}
			n++
			// a namespace that was just created
			if core.DependsOn(a[1], func(v ssa.Value) bool {
				c, ok := v.(*ssa.Call)
				return ok && (strings.HasSuffix(core.ResolveCall(c).Name, "ResolveOrCreateBisyncCheckpointName") || strings.HasSuffix(core.ResolveCall(c).Name, "NewBisyncCheckpointName"))
			}) {
				continue
			}
			known, sameFamily := false, 0
			for _, fct := range factsBefore(p, s.Instr) {
				cond := p.Resolve(fct.Cond)
				if fct.Val && isKnown(cond) {
					known = true
				}
				if c, ok := core.Unwrap(cond).(*ssa.Call); ok && fct.Val {
					nm := core.ResolveCall(c).Name
					if strings.HasSuffix(nm, ").UsesLatest") || strings.HasSuffix(nm, ").UsesFrontier") {
						sameFamily++
					}
				}
			}
			if known && sameFamily < 2 {
				bad, pos = "the marker of an existing namespace whose format is known (loaded or inferred) is set to the desired mode before any migration, on a path that did not establish that both modes share one recovery format: a stop after this write makes the next start skip the migration and resume from stale state", s.Pos()
			}
		}
	})
	if !okEnum {
		r.Undecided("resolveBisyncCheckpointNameWithClient/mode-marker", f.Pos(), "too many paths")
		return
	}
	r.Check(bad == "" && n > 0, "resolveBisyncCheckpointNameWithClient/mode-marker", pos, "%s (writes of the desired mode seen on paths=%d)", bad, n)
}


// ---------------------------------------------------------------- R17.10 the id is adopted after the checkpoint was moved

// ruleRunIdAdoptedAfterMove: RedisOutput.SetRunId moves the stored checkpoint from
// the id the output holds to the new one (UpdateCheckpoint(name, [new, held])) and
// retries on failure. The "held" id is the output's own field: if the field is
// overwritten with the new id before the move has succeeded — before the first
// attempt, or after a failed one — the (next) attempt runs with (new, new), finds
// nothing stored under it, writes the "none yet" marker (-1) under the new id and
// the position stored under the old id is lost. Every store of the id field in
// SetRunId must therefore follow a successful UpdateCheckpoint on its path.
func ruleRunIdAdoptedAfterMove(w *core.World, r *core.Report) {
	f := fn(w, r, "(*syncer.RedisOutput).SetRunId")
	if f == nil {
		return
	}
	isIdStore := func(in ssa.Instruction) bool {
		st, ok := in.(*ssa.Store)
		if !ok {
			return false
		}
		fa, ok := st.Addr.(*ssa.FieldAddr)
		return ok && core.FieldName(fa) == "RunId" && strings.HasSuffix(core.TypeName(fa.X.Type()), "RedisOutputConfig")
	}
	n := 0
	seen := map[*ssa.Function]bool{}
	var scope []*ssa.Function
	for _, g := range reachableFuncs(f) {
		if g != f && !(core.Transparent != nil && core.Transparent(g)) {
			continue
		}
		for _, d := range core.DeepFuncs(g) {
			if !seen[d] {
				seen[d] = true
				scope = append(scope, d)
			}
		}
	}
	for _, g := range scope {
		has := false
		for _, in := range core.OwnInstrs(g) {
			if isIdStore(in) {
				has = true
			}
		}
		if !has {
			continue
		}
		bad := ""
		var pos token.Pos = g.Pos()
		okEnum := core.EnumPathsN(g.Blocks[0], 0, 200000, 1, func(p *core.Path) {
			if bad != "" {
				return
			}
			moved := false
			for _, in := range p.Instrs {
				if ci, isCall := in.(*ssa.Call); isCall {
					s := core.ResolveCall(ci)
					if s.Name == "pkg/redis/checkpoint.UpdateCheckpoint" {
						moved = false
						if e := s.Value(); e != nil && pathNil(p, e) {
							moved = true
						}
					}
				}
				if isIdStore(in) && in.Parent() == g {
					n++
					if !moved {
						bad, pos = "the output's replication id is overwritten on a path on which the checkpoint has not been moved to it (before the attempt, or after a failed one): the next attempt runs with (new id, new id), writes a fresh record with offset -1 and the stored position is lost", in.Pos()
					}
				}
			}
		})
		if !okEnum {
			r.Undecided("RedisOutput.SetRunId/adopt-after-move", g.Pos(), "too many paths")
			return
		}
		if bad != "" {
			r.Fail("RedisOutput.SetRunId/adopt-after-move", pos, "%s", bad)
			return
		}
	}
	r.Check(n > 0, "RedisOutput.SetRunId/adopt-after-move", f.Pos(), "SetRunId never adopts the new id")
}

// ---------------------------------------------------------------- R17.11 a failed look-up of the stored position is not "nothing stored"

// ruleLookupErrorsSurface: the functions that read the stored position
// (fetchCheckpoint, GetCheckpoint, GetCheckpointHash and what they call in the
// checkpoint package) ask the target with EXISTS / HGET / HGETALL / SELECT. A
// failed command must surface as an error: answered as "no record" it makes
// UpdateCheckpoint write the "none yet" marker over a good position and makes
// StartPoint answer (?, -1) — a full resynchronisation — although the position is
// stored. Decided per function: on no path does a call whose error the path has
// seen non-nil end in a nil error result. The exceptions are enumerated (a "not
// found" reply that the code turns into an empty answer on purpose).
var lookupErrorExceptions = map[string]string{}

func ruleLookupErrorsSurface(w *core.World, r *core.Report) {
	roots := []string{"pkg/redis/checkpoint.GetCheckpoint", "pkg/redis/checkpoint.GetCheckpointHash", "pkg/redis/checkpoint.fetchCheckpoint", "pkg/redis/checkpoint.UpdateCheckpoint", "pkg/redis/checkpoint.getDbMap"}
	seen := map[*ssa.Function]bool{}
	var scope []*ssa.Function
	for _, name := range roots {
		f := w.Func(name)
		if f == nil {
			continue
		}
		for _, g := range reachableFuncs(f) {
			if !seen[g] && g.Pkg != nil && strings.HasSuffix(g.Pkg.Pkg.Path(), "pkg/redis/checkpoint") {
				seen[g] = true
				scope = append(scope, g)
			}
		}
	}
	errT := types.Universe.Lookup("error").Type()
	n := 0
	for _, g := range scope {
		res := g.Signature.Results()
		if res.Len() == 0 || !types.Identical(res.At(res.Len()-1).Type(), errT) {
			continue
		}
		bad, pos, calls, okEnum := seenErrorsSurface(g, "a failed look-up reads as 'nothing stored'")
		if !okEnum {
			r.Undecided(shortName(core.FuncName(g))+"/lookup-errors-surface", g.Pos(), "too many paths")
			continue
		}
		if calls == 0 {
			continue
		}
		n++
		r.Check(bad == "", shortName(core.FuncName(g))+"/lookup-errors-surface", pos, "%s", bad)
	}
	if n < 3 {
		r.Fail("checkpoint/lookup-errors-surface", token.NoPos, "only %d look-up functions with error results were found", n)
	}
}

// ---------------------------------------------------------------- R17.12 the id → name index lives in database 0

// ruleIndexInDbZero: readers look the index up in database 0 (GetCheckpointHash
// selects 0 first). Every command on the index key must therefore be issued with
// database 0 selected by the same function, on every path: a writer that relies on
// "the caller has just read the index on this connection" writes the entry into
// whatever database the connection was moved to meanwhile (UpdateCheckpoint moves
// it to the database of the old record), the entry in database 0 keeps pointing to
// a record that is then deleted, and the next start finds no position.
func ruleIndexInDbZero(w *core.World, r *core.Report) {
	const indexKey = "redis-gunyu-checkpoint-hash"
	n := 0
	for _, g := range w.Funcs() {
		uses := false
		for _, in := range core.OwnInstrs(g) {
			if ci, ok := in.(ssa.CallInstruction); ok {
				for _, a := range ci.Common().Args {
					if s, isS := core.ConstString(a); isS && s == indexKey {
						uses = true
					}
				}
			}
			// the key may travel in the variadic argument list of Do
			if st, ok := in.(*ssa.Store); ok {
				if mi, isMI := st.Val.(*ssa.MakeInterface); isMI {
					if s, isS := core.ConstString(mi.X); isS && s == indexKey {
						uses = true
					}
				}
			}
		}
		if !uses {
			continue
		}
		onIndex := func(s core.Site, p *core.Path) bool {
			for _, a := range s.Common().Args {
				if str, isS := core.ConstString(a); isS && str == indexKey {
					return true
				}
				if els, ok := core.VariadicElems(a); ok {
					for _, e := range els {
						if str, isS := core.ConstString(core.Unwrap(e)); isS && str == indexKey {
							return true
						}
					}
				}
			}
			return false
		}
		bad := ""
		var pos token.Pos = g.Pos()
		cmds := 0
		okEnum := core.EnumPathsN(g.Blocks[0], 0, 200000, 1, func(p *core.Path) {
			if bad != "" {
				return
			}
			inZero := false
			for _, s := range pathSites(p) {
				if s.Name == "pkg/redis.SelectDB" {
					a := s.Args()
					inZero = len(a) == 2 && isConstInt(0)(p.Resolve(a[1])) && !failedOn(p, s.Value())
					continue
				}
				if s.Instr.Parent() != g || !onIndex(s, p) {
					continue
				}
				cmds++
				if !inZero {
					bad, pos = "a command on the id → name index is issued on a path on which this function has not selected database 0 (or selected another database since): the entry is read or written in whatever database the connection happens to be in", s.Pos()
				}
			}
		})
		name := shortName(core.FuncName(g))
		if !okEnum {
			r.Undecided(name+"/index-in-db-0", g.Pos(), "too many paths")
			continue
		}
		if cmds == 0 {
			continue
		}
		n++
		r.Check(bad == "", name+"/index-in-db-0", pos, "%s", bad)
	}
	if n < 4 {
		r.Fail("checkpoint/index-in-db-0", token.NoPos, "only %d functions that use the index key were found (6 on the pinned tree)", n)
	}
}

// seenErrorsSurface: on no path of g does a call whose error the path has seen non-nil (a test of
// it was taken on the failure side) end in a nil error result. The one accepted idiom is the
// "nil reply" sentinel: the path established that the error is ErrNil.
func seenErrorsSurface(g *ssa.Function, consequence string) (string, token.Pos, int, bool) {
	bad := ""
	var pos token.Pos = g.Pos()
	calls := 0
	errT := types.Universe.Lookup("error").Type()
	okEnum := core.EnumPathsN(g.Blocks[0], 0, 200000, 1, func(p *core.Path) {
			ret, isRet := p.End.(*ssa.Return)
			if !isRet || ret.Parent() != g || bad != "" {
				return
			}
			for _, s := range pathSites(p) {
				v := s.Value()
				if v == nil || s.Instr.Parent() != g {
					continue
				}
				// calls that report an error
				hasErr := false
				switch t := v.Type().(type) {
				case *types.Tuple:
					hasErr = t.Len() > 0 && types.Identical(t.At(t.Len()-1).Type(), errT)
				default:
					hasErr = types.Identical(v.Type(), errT)
				}
				if !hasErr {
					continue
				}
				calls++
				if !failedOn(p, v) {
					continue
				}
				if !pathNil(p, ret.Results[len(ret.Results)-1]) {
					continue
				}
				key := shortName(core.FuncName(g)) + "/" + shortCallee(s)
				if _, ok := lookupErrorExceptions[key]; ok {
					continue
				}
				// the idiom for "the reply was nil": the path established that the error is the ErrNil sentinel
				isErrNil := func(x ssa.Value) bool {
					ld, ok := core.Unwrap(p.Resolve(x)).(*ssa.UnOp)
					if !ok || ld.Op != token.MUL {
						return false
					}
					gl, ok := ld.X.(*ssa.Global)
					return ok && gl.Name() == "ErrNil"
				}
				notFound := false
				for _, fct := range p.Conds {
					if c, ok := core.FactCmp(fct); ok && c.Op == token.EQL && (isErrNil(c.X) || isErrNil(c.Y)) {
						notFound = true
					}
					if call, ok := core.Unwrap(p.Resolve(fct.Cond)).(*ssa.Call); ok && fct.Val && core.ResolveCall(call).Name == "errors.Is" && len(call.Call.Args) == 2 && isErrNil(call.Call.Args[1]) {
						notFound = true
					}
				}
				if notFound {
					continue
				}
				bad, pos = "the error of "+s.Name+" is seen on this path, yet the function reports success: "+consequence, ret.Pos()
			}
		})
	return bad, pos, calls, okEnum
}
